#!/bin/sh
# Offline setup after a fresh restore: generate the Coq Makefile, build the whole development (full .vo),
# and warm the Go build of the harness module against /repo.
set -e
cd "$(dirname "$0")"
export GOFLAGS=-mod=mod GOPROXY=off GOSUMDB=off GOTOOLCHAIN=local
(cd coq && coq_makefile -f _CoqProject -o Makefile && timeout 3000 make -j16 >/dev/null)
cp /repo/go.sum harness/go.sum
mkdir -p harness/bin evidence replays .work
(cd harness && go build -tags verif -o bin/ ./cmd/... ) || true
echo setup done
