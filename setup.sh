#!/bin/sh
# Offline setup after a fresh restore: generate _CoqProject + Makefile, build the whole Coq development (full .vo, no -vos),
# and warm the Go build of the harness drivers against /repo. Checks rebuild whatever they need themselves; a failure
# here is not fatal for them (each check reports an undischarged obligation if its own build fails).
cd "$(dirname "$0")"
export GOFLAGS=-mod=mod GOPROXY=off GOSUMDB=off GOTOOLCHAIN=local
mkdir -p harness/bin evidence replays .work
python3 -c "import sys; sys.path.insert(0,'lib'); import core; core.Check('SETUP','quick',1).ensure_makefile()"
(cd coq && timeout 3000 make -k -j16 >/dev/null 2>.make.err) || echo "setup: coq build incomplete (see coq/.make.err)"
cp /repo/go.sum harness/go.sum
(cd harness && for d in cmd/*/; do n=$(basename "$d"); go build -tags verif -o "bin/$n" "./cmd/$n" 2>/dev/null || echo "setup: harness $n did not build"; done)
echo setup done
