"""Shared machinery for ./check: Coq build + assumption audit, Go harness build/run, in-Coq evaluation of
correspondence cases (vm_compute), known-findings filter, VIOLATION/KNOWN-FINDING lines, evidence writer."""
import fcntl
import hashlib
import json
import os
import re
import subprocess
import sys
import time
from concurrent.futures import ThreadPoolExecutor

ROOT = os.path.dirname(os.path.dirname(os.path.abspath(__file__)))
COQ = os.environ.get("VERIF_COQ") or os.path.join(ROOT, "coq")
HARNESS = os.path.join(ROOT, "harness")
WORK = os.path.join(ROOT, ".work")
REPO = os.environ.get("VERIF_REPO", "/repo")

GOENV = dict(os.environ, GOFLAGS="-mod=mod", GOPROXY="off", GOSUMDB="off", GOTOOLCHAIN="local",
             CGO_ENABLED=os.environ.get("CGO_ENABLED", "1"))

# Axioms that a property theorem may depend on (each must be named in DESIGN.md §4). Empty = none allowed.
AXIOM_WHITELIST = set()

FORBIDDEN = re.compile(r"\b(Admitted|admit|Axiom|Axioms|Parameter|Parameters|Conjecture|Conjectures|Admit Obligations|"
                       r"Unset Guard Checking|Unset Positivity Checking|Unset Universe Checking|bypass_check|"
                       r"type-in-type|impredicative-set|native_compute)\b")

BASE_TRUSTED = [
    "Coq 8.16.1 kernel (coqc, full .vo build; vm_compute used for generated side conditions, refutation witnesses "
    "and for evaluating the model on correspondence cases; native_compute not used)",
    "no Axiom/Parameter/Admitted in the development (source scan each run); Print Assumptions under every property theorem",
    "Go correspondence harness + generators (harness/), Python orchestration (lib/), translators (translate/)",
]


def sh(cmd, cwd=None, env=None, timeout=None, inp=None):
    p = subprocess.run(cmd, cwd=cwd, env=env, shell=isinstance(cmd, str), stdout=subprocess.PIPE,
                       stderr=subprocess.STDOUT, timeout=timeout, input=inp, text=True)
    return p.returncode, p.stdout


class Lock:
    def __init__(self, path):
        self.path = path

    def __enter__(self):
        os.makedirs(os.path.dirname(self.path), exist_ok=True)
        self.f = open(self.path, "w")
        fcntl.flock(self.f, fcntl.LOCK_EX)
        return self

    def __exit__(self, *a):
        fcntl.flock(self.f, fcntl.LOCK_UN)
        self.f.close()


class Check:
    def __init__(self, prop, tier, seed):
        self.prop = prop
        self.tier = tier
        self.seed = seed
        self.t0 = time.time()
        # runs against a scratch worktree (VERIF_REPO) get their own work directory and do not touch evidence/
        self.alt = os.path.realpath(REPO) != "/repo"
        self.work = os.path.join(WORK, prop + ("-alt-%d" % os.getpid() if self.alt else ""))
        self.private_work = False
        if not self.alt:
            # two runs of the same property at the same time must not share scratch files: the second one gets its own directory
            os.makedirs(WORK, exist_ok=True)
            self._work_lock = open(os.path.join(WORK, prop + ".lock"), "w")
            try:
                fcntl.flock(self._work_lock, fcntl.LOCK_EX | fcntl.LOCK_NB)
            except OSError:
                self.work = os.path.join(WORK, "%s-p%d" % (prop, os.getpid()))
                self.private_work = True
        os.makedirs(self.work, exist_ok=True)
        os.makedirs(os.path.join(ROOT, "replays"), exist_ok=True)
        self.obligations = 0
        self.discharged = 0
        self.checker_cmds = []
        self.assumptions_text = {}
        self.trusted = list(BASE_TRUSTED)
        self.assume = []
        self.failures = []      # dicts: key, what, case, kind, obligation?
        self.cov = {"evaluations": 0, "distinct_nontrivial": 0, "rule": "", "samples": []}
        self.extra = {}
        self.notes = []
        self._distinct = set()

    # ------------------------------------------------------------------ Coq
    def ensure_makefile(self):
        mk = os.path.join(COQ, "Makefile")
        cp = os.path.join(COQ, "_CoqProject")
        want = gen_coqproject()
        if (not os.path.exists(cp)) or open(cp).read() != want:
            open(cp, "w").write(want)
        if (not os.path.exists(mk)) or os.path.getmtime(mk) < os.path.getmtime(cp):
            rc, out = sh("coq_makefile -f _CoqProject -o Makefile", cwd=COQ)
            if rc != 0:
                raise RuntimeError("coq_makefile failed: " + out)

    def coq_make(self, targets, timeout=1500):
        """Build .vo targets (full build, never -vos). Returns (ok, log)."""
        with Lock(os.path.join(COQ, ".lock")):
            self.ensure_makefile()
            cmd = "make -j16 " + " ".join(targets)
            self.checker_cmds.append("cd coq && " + cmd)
            try:
                rc, out = sh("timeout %d %s" % (timeout, cmd), cwd=COQ)
            except subprocess.TimeoutExpired:
                return False, "timeout"
        return rc == 0, out

    def scan_forbidden(self):
        bad = []
        for d, dirs, fs in os.walk(COQ):
            dirs[:] = [x for x in dirs if x not in ("tmp",) and not x.startswith(".")]
            for f in fs:
                if f.endswith(".v"):
                    p = os.path.join(d, f)
                    txt = strip_coq_strings(strip_coq_comments(open(p).read()))
                    for m in FORBIDDEN.finditer(txt):
                        bad.append("%s: %s" % (os.path.relpath(p, ROOT), m.group(0)))
        cp = open(os.path.join(COQ, "_CoqProject")).read()
        for m in FORBIDDEN.finditer(cp):
            bad.append("_CoqProject: " + m.group(0))
        return bad

    def prove(self, prop_file=None, extra_targets=()):
        """Build Properties/<prop>.vo (+extras), audit assumptions of every Theorem in it.
        Each theorem is one obligation. Returns True iff all discharged."""
        prop_file = prop_file or ("Properties/%s.v" % self.prop)
        src = open(os.path.join(COQ, prop_file)).read()
        thms = re.findall(r"^\s*(?:Theorem|Corollary|Lemma|Example|Proposition|Fact|Remark)\s+([A-Za-z0-9_']+)", strip_coq_comments(src), re.M)
        self.obligations += len(thms)
        bad = self.scan_forbidden()
        self.obligations += 1
        if bad:
            self.fail_obligation("source-scan", "forbidden constructs in development: " + "; ".join(bad[:5]))
        else:
            self.discharged += 1
        ok, log = self.coq_make([prop_file[:-2] + ".vo"] + list(extra_targets))
        if not ok:
            m = re.search(r'File "([^"]+)", line (\d+)', log)
            where = "%s:%s" % (m.group(1), m.group(2)) if m else "?"
            self.fail_obligation("coq-build", "Coq build of %s failed at %s: %s" % (prop_file, where, log[-1500:]))
            return False
        # assumption audit (always re-run: cheap, and gives the verbatim Print Assumptions output)
        mod = "LE." + prop_file[:-2].replace("/", ".")
        aud = os.path.join(self.work, "Audit_%s.v" % self.prop)
        with open(aud, "w") as f:
            f.write("Require Import %s.\n" % mod)
            for t in thms:
                f.write('Goal True. idtac "@@THM %s". exact I. Qed.\nPrint Assumptions %s.\n' % (t, t))
                f.write('Goal True. idtac "@@STMT %s". exact I. Qed.\nCheck %s.\n' % (t, t))
        cmd = "coqc -Q %s LE %s" % (COQ, aud)
        self.checker_cmds.append(cmd)
        rc, out = sh(cmd, cwd=self.work)
        if rc != 0:
            self.fail_obligation("assumption-audit", "audit file failed: " + out[-800:])
            return False
        # statements as the kernel prints them (pinned in pins/<prop>.json so that a theorem cannot be quietly weakened or dropped)
        stmts = {}
        for m in re.finditer(r"@@STMT (\S+)\n(.*?)(?=@@THM |@@STMT |\Z)", out, re.S):
            stmts[m.group(1)] = " ".join(m.group(2).split())
        out = re.sub(r"@@STMT (\S+)\n(.*?)(?=@@THM |@@STMT |\Z)", "", out, flags=re.S)
        self.statements = stmts
        parts = re.split(r"@@THM (\S+)\n", out)
        allok = True
        pinp = os.path.join(ROOT, "pins", "%s.json" % self.prop)
        if os.path.exists(pinp) and prop_file == "Properties/%s.v" % self.prop:
            pins = json.load(open(pinp))
            self.obligations += 1
            changed = [n for n, h in pins.items() if n not in stmts or hashlib.sha256(stmts[n].encode()).hexdigest() != h]
            if changed:
                allok = False
                self.fail_obligation("pinned-statements", "pinned theorem(s) missing or restated (re-pin deliberately with tools/pin.py "
                                     "after review): " + ", ".join(changed[:8]))
            else:
                self.discharged += 1
            self.extra["pinned_theorems"] = len(pins)
            self.extra["unpinned_theorems"] = sorted(n for n in stmts if n not in pins)
        for i in range(1, len(parts), 2):
            name, txt = parts[i], parts[i + 1].strip()
            self.assumptions_text[name] = txt
            if txt.startswith("Closed under the global context"):
                self.discharged += 1
                continue
            axioms = set(re.findall(r"^([A-Za-z0-9_.']+)\s*:", txt, re.M))
            if axioms and axioms <= AXIOM_WHITELIST:
                self.discharged += 1
            else:
                allok = False
                self.fail_obligation("assumptions:" + name, "theorem %s depends on non-whitelisted axioms: %s" % (name, txt[:400]))
        if len(self.assumptions_text) != len(thms):
            allok = False
            self.fail_obligation("assumption-audit", "audited %d of %d theorems" % (len(self.assumptions_text), len(thms)))
        return allok

    def coqchk(self, modules, timeout=3000):
        cmd = "coqchk -silent -o -Q %s LE %s" % (COQ, " ".join(modules))
        self.checker_cmds.append(cmd)
        self.obligations += 1
        try:
            rc, out = sh("timeout %d %s" % (timeout, cmd), cwd=COQ)
        except subprocess.TimeoutExpired:
            rc, out = 1, "timeout"
        self.extra["coqchk"] = out[-3000:]
        if rc == 0:
            self.discharged += 1
        else:
            self.fail_obligation("coqchk", "coqchk failed: " + out[-800:])
        return rc == 0

    def coq_eval(self, imports, typ, fn, terms, shard=1500, tag="cases", timeout=900):
        """Evaluate `map fn terms` inside Coq with vm_compute; terms are Coq term strings of type typ.
        Returns list of ints (fn : typ -> N) or None on failure."""
        if not terms:
            return []
        shards = [terms[i:i + shard] for i in range(0, len(terms), shard)]

        def run(ix):
            p = os.path.join(self.work, "%s_%d.v" % (tag, ix))
            with open(p, "w") as f:
                f.write("From Coq Require Import List NArith ZArith Bool String.\nImport ListNotations.\n")
                f.write(imports + "\nLocal Open Scope N_scope.\n")
                f.write("Definition cases : list (%s) := [\n" % typ)
                f.write(";\n".join(shards[ix]))
                f.write("\n].\nDefinition res : list N := Eval vm_compute in map (%s) cases.\n" % fn)
                f.write("Set Printing Width 200.\nSet Printing Depth 10000000.\nPrint res.\n")
            try:
                rc, out = sh("timeout %d coqc -Q %s LE %s" % (timeout, COQ, p), cwd=self.work)
            except subprocess.TimeoutExpired:
                return None, "timeout"
            if rc != 0:
                return None, out[-1500:]
            m = re.search(r"res\s*=\s*(.*?)\s*:\s*list N", out, re.S)
            if not m:
                return None, out[-500:]
            body = m.group(1)
            return [int(x) for x in re.findall(r"\d+", body.replace("%N", ""))], ""
        with ThreadPoolExecutor(max_workers=16) as ex:
            results = list(ex.map(run, range(len(shards))))
        out = []
        for ix, (r, err) in enumerate(results):
            if r is None or len(r) != len(shards[ix]):
                self.fail_obligation("model-eval:" + tag, "in-Coq evaluation of shard %d failed: %s" % (ix, err))
                return None
            out.extend(r)
        return out

    # ------------------------------------------------------------------ translators
    def translate(self, name, out_rel, extra_args=()):
        """Run translate/<name>/main.go on the current /repo sources; writes coq/<out_rel> only when the content changed."""
        outp = os.path.join(COQ, out_rel)
        os.makedirs(os.path.dirname(outp), exist_ok=True)
        cmd = ["go", "run", "main.go", "-repo", REPO, "-out", outp] + list(extra_args)
        self.checker_cmds.append("cd translate/%s && %s" % (name, " ".join(cmd)))
        self.obligations += 1
        try:
            rc, out = sh(cmd, cwd=os.path.join(ROOT, "translate", name), env=GOENV, timeout=600)
        except subprocess.TimeoutExpired:
            rc, out = 1, "timeout"
        if rc != 0:
            self.fail_obligation("translate:" + name, "translator %s failed on the current sources (fail-closed): %s" % (name, out[-1000:]))
            return False
        self.discharged += 1
        return True

    # ------------------------------------------------------------------ Go
    def go_build(self, name, tags="verif", race=False):
        """Build harness/cmd/<name> against /repo's working tree. Returns binary path or None."""
        with Lock(os.path.join(HARNESS, ".lock")):
            # keep go.sum in sync with /repo
            try:
                src = open(os.path.join(REPO, "go.sum")).read()
                dst = os.path.join(HARNESS, "go.sum")
                if (not os.path.exists(dst)) or open(dst).read() != src:
                    open(dst, "w").write(src)
            except OSError:
                pass
            os.makedirs(os.path.join(HARNESS, "bin"), exist_ok=True)
            binp = os.path.join(HARNESS, "bin", name + ("-race" if race else ""))
            modargs = []
            if os.path.realpath(REPO) != "/repo":
                # development aid: build against a scratch worktree without touching /repo (VERIF_REPO=<dir>)
                mf = os.path.join(self.work, "alt.mod")
                txt = open(os.path.join(HARNESS, "go.mod")).read().replace("=> /repo", "=> " + os.path.realpath(REPO))
                open(mf, "w").write(txt)
                open(os.path.join(self.work, "alt.sum"), "w").write(open(os.path.join(REPO, "go.sum")).read())
                modargs = ["-modfile=" + mf]
                binp += "-alt-%d" % os.getpid()
            cmd = ["go", "build"] + modargs + ["-tags", tags] + (["-race"] if race else []) + ["-o", binp, "./cmd/" + name]
            rc, out = sh(cmd, cwd=HARNESS, env=GOENV, timeout=1500)
        if rc != 0:
            self.fail_obligation("harness-build:" + name, "go build of harness %s against /repo failed: %s" % (name, out[-1500:]))
            return None
        return binp

    def run_harness(self, binp, args, timeout=900, out_name="cases.jsonl", env_extra=None):
        outp = os.path.join(self.work, out_name)
        if os.path.exists(outp):
            os.remove(outp)
        env = dict(GOENV, VERIF_SEED=str(self.seed), VERIF_TIER=self.tier)
        if env_extra:
            env.update(env_extra)
        try:
            rc, out = sh([binp, "-out", outp] + list(args), cwd=self.work, env=env, timeout=timeout)
        except subprocess.TimeoutExpired:
            self.fail_obligation("harness-run", "harness %s timed out after %ds" % (os.path.basename(binp), timeout))
            return None
        if rc != 0:
            self.fail_obligation("harness-run", "harness %s exited %d: %s" % (os.path.basename(binp), rc, out[-1500:]))
            return None
        recs = []
        with open(outp) as f:
            for line in f:
                line = line.strip()
                if line:
                    recs.append(json.loads(line))
        self.harness_log = out
        return recs

    # ------------------------------------------------------------------ results
    def count(self, n=1):
        self.cov["evaluations"] += n

    def nontrivial(self, key):
        self._distinct.add(key)

    def sample(self, case, limit=4):
        if len(self.cov["samples"]) < limit:
            self.cov["samples"].append(case)

    def fail_obligation(self, name, what):
        self.failures.append({"kind": "obligation", "key": "obligation:" + name, "what": what, "case": None,
                              "theorem_or_correspondence": name})

    def fail_case(self, key, what, case, kind="input", expected=None, observed=None, corr=None):
        self.failures.append({"kind": kind, "key": key, "what": what, "case": case, "expected": expected,
                              "observed": observed, "theorem_or_correspondence": corr})

    def finish(self, level="proof"):
        known = load_known()
        mine = [k for k in known if k.get("property") == self.prop]
        known_keys = {k["key"]: k for k in mine if k.get("status") == "known"}
        lines = []
        violations = []
        seen_known = {}
        for f in self.failures:
            k = match_known(f["key"], known_keys)
            if k is not None:
                seen_known.setdefault(k["key"], (k, f))
            else:
                violations.append(f)
        for key, (k, f) in seen_known.items():
            lines.append("KNOWN-FINDING: property=%s %s" % (self.prop, k["what_fails"]))
        # group violations: concrete failing inputs first
        concrete = [f for f in violations if f["kind"] != "obligation" and f.get("spec_violated", True)]
        nonconcrete = [f for f in violations if f not in concrete]
        rep_ix = 0
        emitted = set()
        if violations:
            if concrete:
                for f in concrete:
                    if f["key"] in emitted:
                        continue
                    emitted.add(f["key"])
                    if len(emitted) > 5:
                        break
                    path = self.write_replay(f, rep_ix, nonconcrete)
                    rep_ix += 1
                    lines.append("VIOLATION property=%s replay=%s" % (self.prop, path))
            else:
                f = nonconcrete[0]
                path = self.write_replay(f, rep_ix, nonconcrete[1:])
                lines.append("VIOLATION property=%s replay=%s no-failing-input-found" % (self.prop, path))
        self.cov["distinct_nontrivial"] = max(self.cov.get("distinct_nontrivial", 0), len(self._distinct))
        cov = dict(self.cov)
        cov["obligations"] = self.obligations
        cov["discharged"] = self.discharged
        cov["checker_cmd"] = " ; ".join(self.checker_cmds) or "none"
        tb = list(self.trusted)
        for n, t in self.assumptions_text.items():
            tb.append("Print Assumptions %s: %s" % (n, " ".join(t.split())[:300]))
        cov["trusted_base"] = tb
        cov.update(self.extra)
        cov["known_findings_reproduced"] = sorted(seen_known.keys())
        cov["known_findings_not_reproduced"] = sorted(set(known_keys) - set(seen_known))
        if self.notes:
            cov["notes"] = self.notes
        ev = {"property_id": self.prop, "tier": self.tier, "seed": self.seed, "level": level, "coverage": cov,
              "assumptions": self.assume, "wall_s": round(time.time() - self.t0, 2), "violations": len(violations)}
        evdir = os.path.join(ROOT, "evidence") if not self.alt else self.work
        os.makedirs(evdir, exist_ok=True)
        with open(os.path.join(evdir, self.prop + ".json"), "w") as f:
            json.dump(ev, f, indent=1, sort_keys=True, default=str)
        for l in lines:
            print(l)
        print("%s %s: obligations %d/%d, cases %d (distinct non-trivial %d), violations %d, known %d, %.1fs" % (
            self.prop, self.tier, self.discharged, self.obligations, cov["evaluations"], cov["distinct_nontrivial"],
            len(violations), len(seen_known), time.time() - self.t0))
        sys.stdout.flush()
        return 1 if violations else 0

    def write_replay(self, f, ix, others):
        path = os.path.join(ROOT, "replays", "%s-%s%s-%d.json" % (self.prop, self.tier, "-alt" if self.alt else "", ix))
        doc = {"property": self.prop, "kind": f["kind"], "key": f["key"], "what": f["what"],
               "theorem_or_correspondence": f.get("theorem_or_correspondence"), "input": f.get("case"),
               "expected": f.get("expected"), "observed": f.get("observed"), "seed": self.seed, "tier": self.tier,
               "how_to_replay": "./check %s --replay %s" % (self.prop, path),
               "other_broken_obligations": [{"key": o["key"], "what": o["what"][:600]} for o in others[:10]]}
        with open(path, "w") as fh:
            json.dump(doc, fh, indent=1, default=str)
        return path


def match_known(key, known_keys):
    if key in known_keys:
        return known_keys[key]
    for k, v in known_keys.items():
        if k.endswith("*") and key.startswith(k[:-1]):
            return v
    return None


def load_known():
    """known findings live in findings/<PROP>.json: {"findings":[{property,key,status,what_fails,commit?,replay?}]}"""
    out = []
    d = os.path.join(ROOT, "findings")
    for f in sorted(os.listdir(d)) if os.path.isdir(d) else []:
        if f.endswith(".json") and re.match(r"C\d+\.json$", f):
            out.extend(json.load(open(os.path.join(d, f))).get("findings", []))
    return out


def gen_coqproject():
    """_CoqProject lists every .v under coq/ (coqdep orders them); scratch files under coq/tmp are skipped."""
    files = []
    for d, dirs, fs in os.walk(COQ):
        dirs[:] = [x for x in dirs if x not in ("tmp",) and not x.startswith(".")]
        for f in fs:
            if f.endswith(".v"):
                files.append(os.path.relpath(os.path.join(d, f), COQ))
    head = ["-Q . LE",
            "-arg -w -arg -notation-overridden,-deprecated-hint-without-locality,-deprecated-instance-without-locality,-deprecated-syntactic-definition"]
    return "\n".join(head + sorted(files)) + "\n"


def strip_coq_comments(s):
    out = []
    depth = 0
    i = 0
    instr = False
    while i < len(s):
        if depth == 0 and s[i] == '"':
            instr = not instr
            out.append(s[i])
            i += 1
            continue
        if not instr and s.startswith("(*", i):
            depth += 1
            i += 2
            continue
        if not instr and depth > 0 and s.startswith("*)", i):
            depth -= 1
            i += 2
            continue
        if depth == 0:
            out.append(s[i])
        i += 1
    return "".join(out)


def strip_coq_strings(s):
    """blank out string literals (generated files carry Go identifiers such as "admit" inside strings)"""
    return re.sub(r'"(?:[^"]|"")*"', '""', s)


# ---- Coq term helpers
def cN(x):
    return str(int(x))


def cbool(b):
    return "true" if b else "false"


def copt(x, f=cN):
    return "None" if x is None else "(Some %s)" % f(x)


def clist(xs, f=cN):
    return "[" + "; ".join(f(x) for x in xs) + "]"


def cbytes(bs):
    """bytes / hex string -> list N literal"""
    if isinstance(bs, str):
        bs = bytes.fromhex(bs)
    return "[" + ";".join(str(b) for b in bs) + "]"
