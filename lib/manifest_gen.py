#!/usr/bin/env python3
"""Regenerates MANIFEST.json from lib/manifest_data.py (single source, keeps the file valid)."""
import json, os, sys
sys.path.insert(0, os.path.dirname(os.path.abspath(__file__)))
from manifest_data import build
CHECKS, NOT_APPLICABLE, ENGINES, HOOK_COMMITS, NOTES = build()
ROOT = os.path.dirname(os.path.dirname(os.path.abspath(__file__)))
BASE = json.load(open("/root/.vp/BASELINE.json"))["cmd"] if os.path.exists("/root/.vp/BASELINE.json") else ""
m = {
 "version": 1,
 "setup_cmd": "./setup.sh",
 "hooks": {"guard": "verif", "enable": "go build -tags verif (harness/ module with replace => /repo)",
           "baseline_off_cmd": BASE, "source_commits": HOOK_COMMITS, "add_only": True},
 "engines": ENGINES,
 "checks": [],
 "notes": NOTES,
 "not_applicable": NOT_APPLICABLE,
}
for c in CHECKS:
    pid = c["id"]
    m["checks"].append({
        "property_id": pid,
        "quick_cmd": "./check %s --tier quick" % pid,
        "thorough_cmd": "./check %s --tier thorough" % pid,
        "evidence_file": "/verif/evidence/%s.json" % pid,
        "replay_cmd_template": "./check %s --replay {path}" % pid,
        "engine": c.get("engine", "coq-core"),
        "level_claimed": {"category": c.get("category", "proof"), "text": c["text"], "design_ref": c.get("ref", "DESIGN.md §6 " + pid)},
        "level_note": c["note"],
        "technique": c["technique"],
    })
json.dump(m, open(os.path.join(ROOT, "MANIFEST.json"), "w"), indent=1)
print("MANIFEST.json: %d checks, %d not_applicable" % (len(m["checks"]), len(m["not_applicable"])))
