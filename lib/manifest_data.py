"""MANIFEST content is collected from the property modules: each lib/props/cXX.py with READY = True and a MANIFEST dict
{technique, text, note, category?} is claimed; the others are listed under not_applicable with their reason."""
import importlib, os, sys, subprocess
HERE = os.path.dirname(os.path.abspath(__file__))
sys.path.insert(0, HERE)
NOTES = ("Machine-checked proof (Coq 8.16.1) of each property on an executable Gallina model; the model is tied to /repo's "
         "working tree on every run by correspondence (Go harness vs in-Coq vm_compute evaluation of the model and of the "
         "declarative property oracle) and, where present, by translators that regenerate parts of the model. See DESIGN.md.")
ALL = ["C%02d" % i for i in range(1, 21)]


def hook_commits():
    try:
        out = subprocess.run(["git", "-C", "/repo", "log", "--format=%H %s"], stdout=subprocess.PIPE, text=True).stdout
        return [l.split()[0] for l in out.splitlines() if " verif hook" in l or l.split(" ", 1)[1].startswith("hook:")]
    except Exception:
        return []


def build():
    checks, na = [], []
    for p in ALL:
        try:
            m = importlib.import_module("props." + p.lower())
        except ModuleNotFoundError:
            m = None
        if m is not None and getattr(m, "READY", False):
            d = dict(m.MANIFEST)
            d["id"] = p
            d.setdefault("category", getattr(m, "LEVEL", "proof"))
            checks.append(d)
        else:
            reason = getattr(m, "NOT_READY_REASON", None) if m else None
            na.append({"property_id": p, "reason": reason or "not claimed yet: machinery for this property is still under construction (DESIGN.md §9)"})
    claimed = sorted(c["id"] for c in checks)
    engines = [
     {"name": "coq-core", "path": "coq/", "serves_properties": claimed, "kind_free_text": "Coq development: models, proofs, Properties/Cxx.v theorems, Corr/Cxx.v case evaluators"},
     {"name": "harness", "path": "harness/", "serves_properties": claimed, "kind_free_text": "Go drivers running the real lisk-engine code (built with -tags verif against /repo's working tree)"},
     {"name": "translate", "path": "translate/", "serves_properties": claimed, "kind_free_text": "Go (go/ast) translators regenerating coq/Gen/*.v from /repo sources on every run"},
     {"name": "check", "path": "check + lib/", "serves_properties": claimed, "kind_free_text": "Python orchestration: build, assumption audit, harness runs, in-Coq case evaluation, known-findings filter, evidence"},
    ]
    return checks, na, engines, hook_commits(), NOTES
