HOOK_COMMITS = []
NOTES = ("Machine-checked proof (Coq 8.16.1) of each property on an executable Gallina model; the model is tied to /repo's "
         "working tree on every run by correspondence (Go harness vs in-Coq vm_compute evaluation of the model and of the "
         "declarative property oracle) and, where present, by translators that regenerate parts of the model. See DESIGN.md.")
ENGINES = [
 {"name": "coq-core", "path": "coq/", "serves_properties": [], "kind_free_text": "Coq development: models, proofs, Properties/Cxx.v, Corr/Cxx.v evaluators"},
 {"name": "harness", "path": "harness/", "serves_properties": [], "kind_free_text": "Go drivers running the real lisk-engine code (built with -tags verif against /repo's working tree)"},
 {"name": "check", "path": "check + lib/", "serves_properties": [], "kind_free_text": "Python orchestration: build, audit assumptions, run harness, evaluate cases in Coq, known-findings filter, evidence"},
]
ALL = ["C%02d" % i for i in range(1, 21)]
CHECKS = [
 {"id": "C07",
  "technique": "Coq proof on Gallina model + differential correspondence (exhaustive small range + random) evaluated in Coq",
  "text": "Theorems (for all headers, unbounded): contradiction is symmetric, equals the LIP-0014 'neither is a legitimate successor' "
          "characterisation, never holds across generators, flags double forging / lower-maxHeightPrevoted chain / violated "
          "maxHeightGenerated, never flags a protocol-following generator's history; fork-choice classification equals the "
          "declarative LIP-0014 case list and IsDifferentChain is the strict lexicographic order on (maxHeightPrevoted,height). "
          "The model is tied to the Go code by running both on every header pair over a small range exhaustively plus random "
          "uint32 pairs and fork-choice observations; every implementation answer is also checked against the declarative oracle.",
  "note": "Trusted: Coq kernel + vm_compute, the hand-written model's fidelity as sampled by the correspondence, Go harness and "
          "Python glue. The 'contradicting header inside the window is always flagged' clause is proved with the C02 vote model (see C02)."},
]
claimed = {c["id"] for c in CHECKS}
for e in ENGINES:
    e["serves_properties"] = sorted(claimed)
NOT_APPLICABLE = [{"property_id": p, "reason": "not yet claimed: machinery under construction in this round (see DESIGN.md §9 build order)"}
                  for p in ALL if p not in claimed]
