"""C07 — header contradiction and fork-choice classification (LIP-0014)."""
import json
from core import cN, cbool, copt, clist

LEVEL = "proof"
READY = True
MANIFEST = {
    "technique": "Coq proof on Gallina model + differential correspondence (exhaustive small range + random) evaluated in Coq",
    "text": "Theorems (for all headers, unbounded): contradiction is symmetric, equals the LIP-0014 'neither is a legitimate successor' "
            "characterisation, never holds across generators, flags double forging / lower-maxHeightPrevoted chain / violated "
            "maxHeightGenerated, never flags a protocol-following generator's history; fork-choice classification equals the "
            "declarative LIP-0014 case list and IsDifferentChain is the strict lexicographic order on (maxHeightPrevoted,height); on every chain of blocks that passed the BFT rules a next header contradicting ANY windowed header of its generator is flagged (C07_window_complete). "
            "The model is tied to the Go code by running both on every header pair over a small range exhaustively plus random "
            "uint32 pairs and fork-choice observations; every implementation answer is also checked against the declarative oracle.",
    "note": "Trusted: Coq kernel + vm_compute, the hand-written model's fidelity as sampled by the correspondence, Go harness and "
            "Python glue. C07_window_complete (a contradicting header inside the window is always flagged) is proved on the liskbft vote model of C02, whose tie to the code is the C02 correspondence (IsHeaderContradictingChain is compared there after every block).",
}
IMPORTS = "From LE Require Import BFT.Contradiction BFT.ForkChoice Corr.C07."


def bh(f):
    return "(Build_bh %d %d %d %d)" % (f[0], f[1], f[2], f[3])


def fh(f):
    return "(Build_fh %d %d %d %d %d %d)" % tuple(f)


def contra_term(r):
    return "(%s, %s, %s, %s, %s, %s, %s)" % (bh(r["b1"]), bh(r["b2"]), cbool(r["r12"]), cbool(r["r21"]), cbool(r.get("a12", r["r12"])),
                                             cbool(r.get("a21", r["r21"])), cbool(r.get("self", False)))


def prio_term(r):
    return "(%s, %d, %d, %d, %d, %s)" % (cbool(r["v2"]), r["hm"], r["hh"], r["height"], r["mhp"], cbool(r["r"]))


def fc_term(r):
    return "(Build_slotcfg %d %d, %s, %s, %s, %d, %s)" % (r["cfg"][0], r["cfg"][1], fh(r["last"]), fh(r["cur"]),
                                                       copt(r["tl"]), r["tc"], clist(r["bits"], cbool))


def evaluate(ck, recs):
    contra = [r for r in recs if r["k"] == "contra"]
    fc = [r for r in recs if r["k"] == "fc"]
    rc = ck.coq_eval(IMPORTS, "contra_case", "check_contra", [contra_term(r) for r in contra], shard=2500, tag="contra")
    rf = ck.coq_eval(IMPORTS, "fc_obs", "check_fc", [fc_term(r) for r in fc], shard=1500, tag="fc")
    rd = ck.coq_eval(IMPORTS, "fc_obs", "check_dispatch", [fc_term(r) for r in fc], shard=1500, tag="fcd")
    pr = [r for r in recs if r["k"] in ("prio", "synced")]
    rp = ck.coq_eval(IMPORTS, "prio_case", "check_prio", [prio_term(r) for r in pr], shard=3000, tag="prio")
    for r, code in zip(pr, rp or []):
        ck.count()
        ck.nontrivial((r["k"], r["v2"], r["r"], (r["mhp"] > r["hm"]) - (r["mhp"] < r["hm"]), (r["height"] > r["hh"]) - (r["height"] < r["hh"])))
        if r.get("err"):
            code = max(code, 1)
        if code != 0:
            name = "API.HeaderHasPriority" if r["k"] == "prio" else "Executer.Synced"
            ck.failures.append(dict(
                kind="input", key="c07:%s:%s" % (r["k"], "spec" if code >= 2 else "model"), case=r, spec_violated=code >= 2,
                what="%s: implementation %s on %s" % (name, "is not the strict LIP-0014 order on (maxHeightPrevoted, height)"
                                                      if code >= 2 else "differs from the proved model", json.dumps(r)),
                theorem_or_correspondence="Corr.C07.check_prio vs %s (C07_priority_is_lip14_order)" % name))
    for r, code in zip(fc, rd or []):
        if code != 0:
            f = dict(kind="input", key="c07:dispatch:%s" % ("spec" if code >= 2 else "model"), case=r,
                     what="Executer.process tests the fork-choice predicates in an order that classifies this tip/incoming pair "
                          "differently from LIP-0014: " + json.dumps(r),
                     theorem_or_correspondence="C07_process_dispatch_order (Gen/ForkOrder.v regenerated from execute.go)")
            f["spec_violated"] = code >= 2
            ck.failures.append(f)
    for rs, res, name in ((contra, rc, "AreDistinctHeadersContradicting"), (fc, rf, "forkchoice predicates")):
        if res is None:
            continue
        for r, code in zip(rs, res):
            ck.count()
            if r["k"] == "contra":
                if r["r12"] or r["b1"][1] != r["b2"][1]:
                    ck.nontrivial(("c", tuple(r["b1"]), tuple(r["b2"])))
            else:
                if "dc" in r and bool(r["dc"]) != bool(r["bits"][4]) and code == 0:
                    code = 1  # the exported IsDifferentChain on the raw values must equal the method's answer
                cls = tuple(r["bits"])
                ck.nontrivial(("f", cls, r["tl"] is None, r["last"][2] == 0xffffffff))
            if code != 0:
                spec_bad = code >= 2
                what = ("%s: implementation %s on %s" % (
                    name, "violates the LIP-0014 oracle" if spec_bad else "differs from the proved model", json.dumps(r)))
                f = dict(kind="input", key="c07:%s:%s" % (r["k"], "spec" if spec_bad else "model"), what=what, case=r,
                         corr="Corr.C07.check_%s vs %s" % ("contra" if r["k"] == "contra" else "fc", name))
                f["spec_violated"] = spec_bad
                f["theorem_or_correspondence"] = f.pop("corr")
                ck.failures.append(f)
    return rc, rf


def run(ck):
    ck.translate("forkorder", "Gen/ForkOrder.v")
    if not ck.prove(extra_targets=["Corr/C07.vo"]):
        # a proof obligation broke: still build the evaluators so that the search for a concrete failing input can run
        ck.coq_make(["-k", "Corr/C07.vo"])
    binp = ck.go_build("c07")
    if not binp:
        return
    if ck.tier == "quick":
        args = ["-range", "3", "-rand", "3000", "-fc", "3000"]
    else:
        args = ["-range", "4", "-rand", "100000", "-fc", "50000"]
    recs = ck.run_harness(binp, args)
    if recs is None:
        return
    evaluate(ck, recs)
    # the window clause (C07_window_complete) lives on the liskbft vote model: tie it here too, on header histories that
    # cross the 3-round window (IsHeaderContradictingChain + window contents compared after every block)
    from props import c02
    b2 = ck.go_build("c02")
    if b2:
        hrecs = ck.run_harness(b2, ["-n", "120", "-long", "80"] if ck.tier == "quick" else ["-n", "3000", "-long", "2000"],
                               out_name="hist.jsonl")
        if hrecs is not None:
            ck.coq_make(["Corr/C02.vo"])
            c02.evaluate(ck, hrecs, tag="hist")
            ck.extra["liskbft_histories"] = len(hrecs)
            ck.extra["liskbft_contradiction_flags_seen"] = sum(1 for c in hrecs for o in c["obs"] if o["contra"])
    # a rejected block must not change how the next block is classified (the receive time read by the tie-break rule belongs
    # to the tip): real Executers, tip T received on time, competitor T2 of the next slot; control = T2 alone, attack = a garbage
    # successor of T (broken signature) first.  LIP-0014: T was on time, so T2 is discarded in both runs.
    lbr = [r for r in recs if r["k"] == "lbr"]
    usable = [r for r in lbr if not r.get("skipped")]
    for r in usable:
        ck.count()
        ck.nontrivial(("lbr", r["n"], r["control"], r["attack"]))
        bad = []
        if r["control"] != "T":
            bad.append("a competitor of the next slot displaced a tip received within its slot (control run: tip %s)" % r["control"])
        if r["attack"] != r["control"]:
            bad.append("offering a REJECTED block first changed the outcome for the next block (tip %s instead of %s)" % (r["attack"], r["control"]))
        if not r["g_rejected"]:
            bad.append("the garbage block was not rejected")
        if r["lbr_moved_by_g"]:
            bad.append("the rejected block replaced the receive time of the unchanged tip")
        if bad:
            ck.failures.append(dict(
                kind="history", key="c07:lbr:rejected-block-changes-next-classification", case=r, spec_violated=True,
                what="Executer.process, %d validators: %s" % (r["n"], "; ".join(bad)), observed=r,
                theorem_or_correspondence="tie-break input fidelity: t_last of classify is the receive time of the tip "
                                          "(C07_process_branch_actions: ActSetReceived only after ActApply)"))
    ck.obligations += 1
    if usable:
        ck.discharged += 1
    else:
        ck.fail_obligation("generator:lbr", "no usable receive-time scenario: %s" % [r.get("skipped") for r in lbr])
    ck.obligations += 1
    kinds = {k: sum(1 for r in recs if r["k"] == k) for k in ("contra", "fc", "prio", "synced")}
    ck.extra["records_by_kind"] = kinds
    if all(kinds.values()) and any(r["k"] == "synced" and r["r"] for r in recs) and any(r["k"] == "fc" and r["bits"][3] for r in recs):
        ck.discharged += 1
    else:
        ck.fail_obligation("generator", "a record kind is missing, or no Synced=true / tie-break=true observation: %s" % kinds)
    for r in recs[:1] + [x for x in recs if x["k"] == "contra" and x["r12"]][:1] + [x for x in recs if x["k"] == "fc"][:2] + [x for x in recs if x["k"] == "synced"][:1]:
        ck.sample(r)
    ck.cov["rule"] = ("contradiction: exhaustive over all ordered header pairs with height/maxHeightGenerated/maxHeightPrevoted "
                      "in 0..R and two generators (R=3 quick, 4 thorough) + random/correlated uint32 pairs; fork choice: random "
                      "tip/incoming pairs with correlated fields, receive times around slot boundaries, uint32 height wrap. "
                      "Non-trivial/distinct: contradiction pairs that are flagged or have different generators (distinct by fields); "
                      "fork-choice observations distinct by (predicate vector, sync-origin, wrap)")
    ck.cov["exhaustive"] = True
    ck.extra["exhaustive_domain"] = "contradiction pairs over the small range only"
    ck.extra["traces_validated_against_impl"] = len(recs)
    ck.assume += ["time.Now() stays within the chosen slot (block times 10..7200 s) during one NewForkChoice call (checked after the call)",
                  "block IDs / addresses are compared with bytes.Equal; the model uses injective integer codes for them"]
    if ck.tier == "thorough":
        ck.coqchk(["LE.Properties.C07"])


def replay(ck, path):
    doc = json.load(open(path))
    case = doc.get("input")
    if not case:
        print("replay names a broken obligation, no input: %s" % doc.get("what"))
        run(ck)
        return ck.finish(LEVEL)
    if case["k"] in ("contra", "fc", "prio"):
        # fork-choice cases read the wall clock: the harness shifts genesis and all timestamps by (now - recorded now), which
        # leaves every slot number unchanged, and re-runs the implementation
        binp = ck.go_build("c07")
        inp = ck.work + "/replay_in.jsonl"
        open(inp, "w").write(json.dumps(case) + "\n")
        recs = ck.run_harness(binp, ["-in", inp], out_name="replay.jsonl")
    elif case["k"] in ("synced", "lbr"):
        print("Executer.Synced case (node-dependent): re-generated by a full run")
        run(ck)
        return ck.finish(LEVEL)
    else:
        recs = [case]
    if recs is not None:
        evaluate(ck, recs)
        print("replayed: %s" % json.dumps(recs))
    return ck.finish(LEVEL)
