"""C19 — sync: best peer selection, RPC handlers' served segments, convergence (model level)."""
import glob
import json
import os

from core import ROOT, cN, cbool, clist

LEVEL = "proof"
READY = True
MANIFEST = {
    "technique": "Coq proofs on Gallina models (peer selection with explicit map-order/random inputs, RPC handler logic, "
                 "sync state machines over abstract chains with a peer oracle) + differential correspondence evaluated in Coq "
                 "(real getBestNodeInfo via hook; real handlers over a real blockchain.Chain on in-memory pebble)",
    "text": "Theorems: every possible result of getBestNodeInfo (all map iteration orders, all random indexes) is a peer with the "
            "largest maxHeightPrevoted, then the largest height, then a most frequent block ID; getHighestCommonBlock answers the "
            "requested ID lying highest on the responder's chain, independent of goroutine order, nothing for malformed requests; "
            "getBlocksFromID answers exactly the blocks following the ID on the own chain, ascending, consecutive, at most 103, for "
            "all uint32 heights of chains whose tip is at most 2^32-2 (wf_chain; a tip of 2^32-1 is excluded); offered heights are never below the finalized height (non-wrapping range); block sync and fast sync "
            "over abstract chains: with an honest peer holding a better valid chain the node ends on that chain (proved while finality does not move during "
            "the sync; the moving-finality case is covered by the correspondence runs with Full:true and by "
            "C19_failed_fast_sync_finality_moved_refuted), a failing fast sync "
            "restores the original blocks and bans the peer (partial: while finality does not move; otherwise the peer is banned, the "
            "temp blocks are cleared and the known finding c19:sync:restore-finalized applies), no block at or below the finalized height is ever deleted. "
            "Peer selection, helper arithmetic and the handlers are tied to the Go code by running both on all small multisets of "
            "peer tips / random peer sets and on random responder chains (cache sizes 1..515, removed blocks, heights near 2^32, "
            "malformed requests); every implementation answer is also checked against the declarative oracle.",
    "note": "Seven genuine defects repaired (the seventh: downloader pace/burst above the p2p rate limit penalised honest peers). Six earlier (the sixth: block sync banned the sender instead of the serving peer); five of them: in /repo (most-frequent-ID loop never updated max; uint32 overflow of height+103 in the "
            "GetBlocksFromID handler; fast-sync restore overwrote the saved original blocks; downloader hung / grew without bound on "
            "empty or repeated answers; stale temp blocks broke a later fast-sync restore). The convergence model is tied to fast_sync.go / block_sync.go / download.go by "
            "running the real Syncer of one node against a scripted peer over loopback libp2p (honest, truncated, corrupted, lying "
            "about the common block) and comparing chain, ban, temp blocks and outcome with Sync.Converge. Trusted: Coq kernel + vm_compute, fidelity of the hand "
            "models as sampled, Go harness, Python glue.",
}
IMPORTS = "From LE Require Import Sync.PeerSelect Sync.Handlers Corr.C19."
IMPORTS_SYNC = "From LE Require Import Sync.Converge Corr.C19."

BADS_H = {"hcb-nil": "None", "hcb-garbage": "None", "hcb-empty": "(Some [])"}
BADS_B = {"bfi-nil": "None", "bfi-garbage": "None", "bfi-shortid": "(Some (0, false))"}


def best_term(r):
    infos = clist(r["infos"], lambda f: "(Build_ni %d %d %d %d)" % tuple(f))
    return "(%s, %s, %s, %s)" % (infos, clist(r["outs"]), cbool(r["err"]), cbool(bool(r.get("panic"))))


def gap_term(r):
    fn = {"gap": 0, "start": 1, "last": 2}[r["fn"]]
    return "(%d, %s, %s, %s)" % (fn, clist(r["args"]), clist(r["out"]), cbool(bool(r.get("panic"))))


def chain_term(rec):
    g0, n, d = rec["heights"]
    kept = n - d if d < n else 0
    return "(Build_chain %d %s)" % (g0, clist(range(g0, g0 + kept + 1)))


def obs_term(q):
    if q.get("panic"):
        return "OPanic"
    if q.get("errset"):
        return "OErr"
    if not q.get("wrote"):
        return "ONone"
    if q.get("nil"):
        return "ONil"
    return "(OData %s %s)" % (clist(q["out"]), clist(q["outh"]))


def req_terms(rec):
    """-> list of (kind, term, q)"""
    c = chain_term(rec)
    g0 = rec["heights"][0]
    out = []
    for q in rec["reqs"]:
        o = obs_term(q)
        t = q["t"]
        if t == "hcb":
            r = "(Some %s)" % clist(q["ids"], lambda x: "(%d, true)" % x)
            out.append(("hcb", "(%s, %s, %s)" % (c, r, o), q))
        elif t == "bfi":
            out.append(("bfi", "(%s, (Some (%d, true)), %s)" % (c, q["ids"][0], o), q))
        elif t == "last":
            out.append(("last", "(%s, %s)" % (c, o), q))
        elif t == "bad":
            b = q["bad"]
            if b == "hcb-shortid":
                out.append(("hcb", "(%s, (Some [(%d, true); (0, false)]), %s)" % (c, g0, o), q))
            elif b in BADS_H:
                out.append(("hcb", "(%s, %s, %s)" % (c, BADS_H[b], o), q))
            else:
                out.append(("bfi", "(%s, %s, %s)" % (c, BADS_B[b], o), q))
    return out


def sync_term(r):
    e = {"ok": 0, "err": 1, "invalid": 2}[r["ending"]]
    common = "None" if r["common"] is None else "(Some %d)" % r["common"]
    pairs = lambda l: clist(l, lambda x: "(%d, %d)" % tuple(x))
    obs = "(%s, %s, %s, %s, %s, %s, %d, %d)" % (clist(r["after"]), cbool(r["banned"]), cbool(bool(r["err"])), pairs(r["tempafter"]),
                                               cbool(r["lowdeleted"]), cbool(r["dbequal"]), max(r.get("penown", 0), 0), max(r.get("penpeer", 0), 0))
    truth = "(%s, %s, %d, %s, %s, %s)" % (cbool(r["honest"]), cbool(r["better"]), r["forkh"], clist(r["peerchain"]),
                                          cbool(not r["spec"].get("sender")), cbool(r.get("genisvalidator", True)))
    return "(%d, %d, %d, (%d)%%Z, %s, %s, %d, %s, %s, %d, %s, %s, %s, %s)" % (
        r["ownh"], r["blockh"], r.get("nvals") or r["spec"]["n"], r["slotgap"], clist(r["before"]), pairs(r.get("tempbefore") or []), r["finalized"],
        common, clist(r["delivered"]), e, pairs(r["links"]), pairs(r.get("finat") or []), truth, obs)


def add_failure(ck, kind, code, what_spec, what_model, case):
    spec_bad = code >= 2
    f = dict(kind="input", key="c19:%s:%s" % (kind, "spec" if spec_bad else "model"),
             what=(what_spec if spec_bad else what_model) + " on " + json.dumps(case)[:1500], case=case)
    f["spec_violated"] = spec_bad
    f["theorem_or_correspondence"] = "Corr.C19.check_%s" % kind
    ck.failures.append(f)


def evaluate(ck, recs):
    best = [r for r in recs if r["k"] == "best"]
    gap = [r for r in recs if r["k"] == "gap"]
    chains = [r for r in recs if r["k"] == "chain"]
    rb = ck.coq_eval(IMPORTS, "best_case", "check_best", [best_term(r) for r in best], shard=400, tag="best")
    rg = ck.coq_eval(IMPORTS, "gap_case", "check_gap", [gap_term(r) for r in gap], shard=400, tag="gap")
    if rb is not None:
        for r, code in zip(best, rb):
            ck.count()
            tips = sorted((f[1], f[0], f[2]) for f in r["infos"])
            if len(set(t[2] for t in tips if t[:2] == tips[-1][:2])) > 1 if tips else False:
                ck.nontrivial(("best", tuple(tips)))
            if code != 0:
                add_failure(ck, "best", code,
                            "getBestNodeInfo selected a peer that is not (largest maxHeightPrevoted, largest height, most common ID)",
                            "getBestNodeInfo result outside the model's result set", r)
    if rg is not None:
        for r, code in zip(gap, rg):
            ck.count()
            ck.nontrivial(("gap", r["fn"], len(r["out"]), tuple(a > 0xfffff000 for a in r["args"])))
            if code != 0:
                add_failure(ck, "gap", code, "sync height helper %s violates its bound" % r["fn"],
                            "sync height helper %s differs from the model" % r["fn"], r)
    for rec in chains:
        if rec.get("setup"):
            ck.fail_obligation("harness-setup", "responder chain could not be built: " + rec["setup"])
    for r in [x for x in recs if x["k"] == "temp"]:
        if r.get("setup"):
            ck.fail_obligation("harness-setup", "temp scenario could not be built: " + r["setup"])
            continue
        ck.count()
        ck.nontrivial(("temp", r["orig"], r["down"], r.get("save", False)))
        if not r.get("save") and r["temp"] != list(range(1, r["orig"] + 1)):
            ck.fail_case("c19:temp:spec", "temp blocks after delete(save) / apply / delete(no save) are not the original blocks: "
                         "fast sync could not restore them: " + json.dumps(r), r, corr="Chain.RemoveBlock / GetTempBlocks vs Sync.Converge")
    syncs = []
    for r in [x for x in recs if x["k"] == "sync"]:
        if r.get("fail"):
            ck.fail_obligation("harness-setup", "two-node sync scenario could not be built: %s on %s" % (r["fail"], json.dumps(r["spec"])))
        elif r.get("hang") or r.get("panic"):
            ck.count()
            ck.fail_case("c19:sync:%s" % ("hang" if r.get("hang") else "panic"),
                         "Syncer.Sync %s on %s" % ("did not return within 12 s, nor within 45 s when run again (peer answers: %s)" % (r["spec"].get("stall") or "-") if r.get("hang") else "panicked: " + r["panic"],
                                                   json.dumps(r["spec"])), r, corr="two-node sync run")
        else:
            syncs.append(r)
    rsy = ck.coq_eval(IMPORTS_SYNC, "sync_case", "check_sync", [sync_term(r) for r in syncs], shard=40, tag="sync")
    if rsy is not None:
        for r, code in zip(syncs, rsy):
            ck.count()
            sp = r["spec"]
            ck.nontrivial(("sync", r.get("phase", 1), r["kind"], sp["n"], sp["prefix"], sp["own"], sp["peer"], sp["full"], sp["hcb"],
                           sp["corrupt"], sp["corruptkind"] if sp["corrupt"] >= 0 else "", sp["errafter"], sp.get("stall", ""),
                           sp.get("own2", 0), sp.get("corrupt2", -1), sp.get("errafter2", -1), bool(r.get("tempbefore")), bool(sp.get("sender")),
                           sp.get("sendershare", 0), sp.get("forkmode", ""), bool(sp.get("recent")), r["better"], r["ownh"] > r["blockh"], bool(sp.get("nonvalidator")), sp.get("batch", 0), sp.get("slowfirst", 0)))
            if code == 2 and r["banned"] and r["kind"] == "fast" and r["common"] in r["before"] and r.get("finafter", 0) > r["before"].index(r["common"]):
                # finalized blocks are irreversible: the protocol itself cannot restore the original blocks here
                f = dict(kind="input", key="c19:sync:restore-finalized", case=r, spec_violated=True,
                         what="fast sync: valid downloaded blocks finalized height %d above the common block, then an invalid one: "
                              "the original blocks cannot be restored (peer banned: %s) on %s" % (r["finafter"], r["banned"], json.dumps(r["spec"])))
                f["theorem_or_correspondence"] = "Corr.C19.check_sync"
                ck.failures.append(f)
            elif code != 0:
                add_failure(ck, "sync", code,
                            "sync run: node did not end on the honest better peer's chain / failed fast sync did not restore the "
                            "original blocks byte-identically and ban / a finalized block was touched",
                            "sync run (fast_sync.go / block_sync.go / download.go) differs from Sync.Converge", r)
    per = {"hcb": [], "bfi": [], "last": []}
    for rec in chains:
        if rec.get("setup"):
            continue
        for kind, term, q in req_terms(rec):
            if q.get("hang"):
                ck.fail_case("c19:%s:hang" % kind, "sync RPC handler did not return within 20 s", dict(rec, reqs=[q]))
                continue
            per[kind].append((term, rec, q))
    types = {"hcb": ("chain * hreq * obs", "check_hcb"), "bfi": ("chain * breq * obs", "check_bfi"),
             "last": ("chain * obs", "check_last")}
    for kind, items in per.items():
        res = ck.coq_eval(IMPORTS, types[kind][0], types[kind][1], [t for t, _, _ in items], shard=120, tag=kind)
        if res is None:
            continue
        for (term, rec, q), code in zip(items, res):
            ck.count()
            if not all(q.get("body") or []):
                ck.fail_case("c19:%s:body" % kind, "sync RPC handler served a block whose encoding (header, transactions, assets) differs from "
                             "the stored block (responder removed %d blocks with a block cache of %d): %s" % (
                                 rec["heights"][2], rec["cache"], json.dumps(dict(rec, reqs=[q]))[:900]), dict(rec, reqs=[q]),
                             corr="served blocks vs stored blocks (full encoding)")
            ck.nontrivial((kind, q.get("bad", ""), len(q.get("out") or []), bool(q.get("errset")), bool(q.get("nil")),
                           rec["cache"], rec["heights"][0] > 0xfffff000, rec["heights"][2] > 0, rec["heights"][2] >= rec["cache"]))
            if code != 0:
                one = dict(rec, reqs=[q])
                add_failure(ck, kind, code,
                            {"hcb": "getHighestCommonBlock handler did not answer the highest requested block of its chain",
                             "bfi": "getBlocksFromID handler did not answer the consecutive capped segment following the ID",
                             "last": "getLastBlock handler did not answer the tip"}[kind],
                            "%s handler differs from the model" % kind, one)


def corpus_records(ck):
    files = sorted(glob.glob(os.path.join(ROOT, "corpus", "C19", "*.jsonl")))
    if not files:
        return []
    inp = os.path.join(ck.work, "corpus_in.jsonl")
    with open(inp, "w") as f:
        for p in files:
            for line in open(p):
                if line.strip():
                    f.write(line.strip() + "\n")
    return inp


def pace_obligation(ck):
    """Quick-tier guard of the pacing fix: the downloader's limiter must stay strictly below the p2p limit of 100 received messages
    per 10 s interval (at most 9 requests per second) and must not accumulate slack (the dynamic scenario needs ~20 s: thorough)."""
    import re
    from core import REPO
    ck.obligations += 1
    try:
        src = open(os.path.join(REPO, "pkg/consensus/sync/download.go")).read()
    except OSError as e:
        ck.fail_obligation("download-pace", "cannot read download.go: %s" % e)
        return
    calls = re.findall(r"ratelimit\.New\(([^)]*)\)", src)
    ok = len(calls) == 1
    if ok:
        args = [a.strip() for a in calls[0].split(",")]
        ok = args[0].isdigit() and 0 < int(args[0]) <= 9 and "ratelimit.WithoutSlack" in args[1:] and \
            not any(a.startswith("ratelimit.WithSlack") or a.startswith("ratelimit.Per") for a in args[1:])
    if ok:
        ck.discharged += 1
    else:
        ck.fail_obligation("download-pace", "pkg/consensus/sync/download.go: the block downloader's limiter is not `ratelimit.New(n <= 9, "
                           "ratelimit.WithoutSlack)` (found %s): an honest sync can exceed the p2p rate limit of 100 received messages "
                           "per 10 s and gets the peers penalised (finding c19:sync:spec:penalty)" % calls)


def run(ck):
    ck.prove(extra_targets=["Corr/C19.vo"])
    pace_obligation(ck)
    binp = ck.go_build("c19")
    if not binp:
        return
    recs = []
    inp = corpus_records(ck)
    if inp:
        r0 = ck.run_harness(binp, ["-in", inp], out_name="corpus.jsonl")
        if r0 is None:
            return
        recs += r0
    if ck.tier == "quick":
        args = ["-bestlen", "4", "-bestrand", "300", "-runs", "12", "-handlers", "120", "-gap", "500", "-sync", "60"]
    else:
        args = ["-bestlen", "5", "-bestrand", "5000", "-runs", "40", "-handlers", "1500", "-gap", "20000", "-sync", "1500", "-synclong", "2"]
    r1 = ck.run_harness(binp, args)
    if r1 is None:
        return
    recs += r1
    # floor (generated runs only): the "neither mechanism applies" branch of choose_sync must have been taken at least once
    # (met by construction by the fixed scenario NonValidator + Recent: 4 validators, slot gap 11 <= 12, generator not a validator)
    def method(r):
        nv = r.get("nvals") or r["spec"]["n"]
        if abs(r["ownh"] - r["blockh"]) <= 2 * nv and r.get("genisvalidator", True):
            return "fast"
        return "block" if 3 * nv < r["slotgap"] else "none"
    ran = [r for r in r1 if r["k"] == "sync" and not r.get("fail") and not r.get("hang") and not r.get("panic")]
    if ran and not any(method(r) == "none" for r in ran):
        ck.fail_obligation("harness-setup", "no sync run took the 'neither mechanism applies' branch (shouldSync false, no fast sync)")
    evaluate(ck, recs)
    for r in [x for x in r1 if x["k"] == "sync"][1:2]:
        ck.sample(dict(r, links=r["links"][:4], peerchain=r["peerchain"][:6]))
    for k in ("best", "chain", "gap"):
        for r in [x for x in r1 if x["k"] == k][5:6]:
            ck.sample(r if k != "chain" else dict(r, reqs=r["reqs"][:3]))
    ck.cov["rule"] = ("peer selection: every multiset of up to L peer tips over maxHeightPrevoted,height in {0,1} x 3 block IDs in a "
                      "pseudo-random order (L=4 quick, 5 thorough), each run R times because the choice is randomised, + random "
                      "sets of up to 12 peers with skewed ID frequencies and uint32 extremes; handlers: random responder chains "
                      "(genesis height 0 / small / within 260 of 2^32, length 0..120 around the 103 cap, removed temp blocks, block "
                      "cache 1..515) with well-formed and malformed requests; helpers: exhaustive small block + random/edge uint32. "
                      "two-node sync: fixed scenarios + random (validators 2/4, prefix 0..13, own fork 0..4, peer fork up to 19, finality on/off, "
                      "common-block answer honest/none/foreign/below-finalized, corrupted block (processing-invalid or statelessly invalid) at any "
                      "position, stream error after k blocks). Distinct non-trivial: peer sets whose top group holds different IDs (by multiset); handler requests by "
                      "(kind, malformed variant, answer size, error/nil, cache size, near-2^32, removed blocks); helper calls by "
                      "(function, output length, extreme arguments)")
    ck.cov["exhaustive"] = True
    ck.extra["exhaustive_domain"] = "peer-tip multisets over the small range only"
    ck.extra["traces_validated_against_impl"] = len(recs)
    ck.assume += [
        "block IDs are compared with bytes.Equal / used as map keys; the models use injective integer codes",
        "blockchain.DataAccess presents one chain (height -> ID) whether served from cache or DB (sampled with cache sizes 1..515; "
        "removing more blocks than the cache holds leaves Chain.LastBlock() nil and is outside the handler model)",
        "two-node sync runs use one peer (the concurrent collection of node infos from several peers is C20's subject) and forks "
        "of at most ~20 blocks; 'byte-identical' restore is up to the finalized-height key and the state diffs pruned by finality, "
        "which blocks applied and removed again may legitimately advance",
    ]
    if ck.tier == "thorough":
        ck.coqchk(["LE.Properties.C19"])


def replay(ck, path):
    doc = json.load(open(path))
    case = doc.get("input")
    if not case:
        print("replay names a broken obligation, no input: %s" % doc.get("what"))
        run(ck)
        return ck.finish(LEVEL)
    binp = ck.go_build("c19")
    if not binp:
        return ck.finish(LEVEL)
    inp = os.path.join(ck.work, "replay_in.jsonl")
    if case.get("k") == "best":
        case = dict(case, runs=400)
    open(inp, "w").write(json.dumps(case) + "\n")
    recs = ck.run_harness(binp, ["-in", inp], out_name="replay.jsonl")
    if recs is not None:
        evaluate(ck, recs)
        print("replayed: %s" % json.dumps(recs)[:3000])
    return ck.finish(LEVEL)
