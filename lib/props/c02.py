"""C02 — BFT heights are a deterministic function of the header chain (LIP-0058)."""
import json
from core import cN, cbool, copt, clist

LEVEL = "proof"
READY = True
MANIFEST = {
    "technique": "Coq proof (invariants by induction over header histories) on a faithful Gallina model of liskbft + differential correspondence with the real module evaluated in Coq",
    "text": "Theorems for every header chain (any length relative to the 3-round window, any weights, batch size and parameter-change "
            "schedule): the BFT view is a function of the header sequence (same chain => same view); one block changes the vote "
            "weights exactly by the LIP-0058 counting rule (C02_vote_counting_rule: precommits to windowed entries above "
            "max(minActive, heightNotPrevoted+1, largestHeightPrecommit+1) that already have a prevote quorum, then prevotes above "
            "max(maxHeightGenerated+1, minActive)); maxHeightPrevoted/Precommitted are the largest windowed heights reaching the "
            "threshold in force at that height and never decrease; parameters of heights still in the window are never changed by "
            "pruning or SetBFTParameters; the window is the most recent 3*batch headers. Round-robin finality (block j final once "
            "block j+2*thr-1 is applied) is proved for every number n >= 1 of unit-weight validators with batch = n and default thresholds "
            "(other weight vectors: by the counting rule only); SetBFTParameters is specified (bounds, no-op or next-height activation, "
            "carry-over of per-validator vote bookkeeping) and maxHeightCertified follows the newest non-empty aggregate commit. The model is "
            "tied to the Go module by running random histories (parameter changes, joining/leaving validators, deviating "
            "generators, chains longer than the window) on the real liskbft.Module/API over diffdb+pebble and comparing after every "
            "block heights, weights, per-validator info, parameter keys, GetBFTParameters (all three thresholds and the validators at probe heights; "
            "the stored validatorsHash against an independent LIP-0058 computation), flags and generator keys with the model evaluated inside Coq.",
    "note": "Trusted: Coq kernel + vm_compute; fidelity of the hand-written model as sampled by the correspondence; Go harness and "
            "verif hook VerifC02DumpVotes; heights/weights are unbounded N in Votes.v — C02_votes32_agrees proves that the wrap-faithful "
            "model Votes32.v (every uint32/uint64 operation as in the Go code) computes the same results and errors on every valid chain "
            "with heights <= 2^32-2 and aggregate weights < 2^64; the certified height is taken "
            "from the header's aggregate commit without checking it (that is C06). validatorsHash is not modelled in Coq: the harness recomputes it "
            "from scratch (own encoder + sha256) and the equality is an observable. Validator addresses are assumed distinct (duplicates: sort order unspecified).",
}
IMPORTS = "From LE Require Import BFT.Contradiction BFT.Votes BFT.GenKeys Corr.C02."


def change(c):
    return "(Build_pchange %d %d %s)" % (c["pc"], c["cert"], clist(c["vals"], lambda v: "(%d,%d)" % (v["a"], v["w"])))


def block(b):
    return "(Build_hdr %d %d %d %d %s, %s)" % (b["h"], b["gen"], b["mhg"], b["mhp"], copt(b["cert"]),
                                              "None" if b["chg"] is None else "(Some %s)" % change(b["chg"]))


def obs(o):
    if o["err"] != 0:
        return "(err_obs %d %s)" % (o["err"], cbool(o["contra"]))
    return "(Build_obs 0 %s (%d,%d,%d) %s %s %s %d %s" % (
        cbool(o["contra"]), o["heights"][0], o["heights"][1], o["heights"][2],
        clist(o["infos"], lambda i: "(%d,%d,%d,%d,%d,%d)" % tuple(i)),
        clist(o["act"], lambda a: "(%d,%d,%d)" % tuple(a)),
        clist(o["pkeys"]), o["imp"], "None" if o["next"] < 0 else "(Some %d)" % o["next"]) + gen_obs(o)


def gen_obs(o):
    return " %s %s %s %s %s %s)" % (
        clist(o.get("gkeys", [])),
        clist(o.get("gens", []), lambda g: "(%d, %s)" % (g["h"], "None" if g["err"] else "(Some %s)" % clist(g["addrs"]))),
        clist(o.get("at", []), lambda a: "(%d,%d)" % tuple(a)),
        clist((o.get("params") or []), lambda p: "(%d, %s)" % (p["h"], "None" if p["err"] else "(Some (%d, %d, %d, %s))" % (
            p["pv"], p["pc"], p["cert"], clist(p["vals"], lambda v: "(%d,%d)" % tuple(v))))),
        cbool(o.get("vhash", True)),
        clist(o.get("nexts") or [], lambda x: "(%d, %s)" % (x[0], "None" if x[1] < 0 else "(Some %d)" % x[1])))


def gens_of(chg):
    return [v["a"] for v in chg["vals"]] + list(chg.get("standby") or [])


def hist_term_g(c):
    return "(%d%%nat, %d, %s, %s, %s, %s, %s)" % (
        c["batch"], c["gh"], change(c["init"]), clist(gens_of(c["init"])),
        clist(c["blocks"], lambda b: "(%s, %s)" % (block(b), clist(gens_of(b["chg"]) if b["chg"] else []))),
        cbool(c["initok"]), clist(c["obs"], obs))


def hist_term(c):
    return "(%d%%nat, %d, %s, %s, %s, %s)" % (c["batch"], c["gh"], change(c["init"]), clist(c["blocks"], block),
                                             cbool(c["initok"]), clist(c["obs"], obs))


def bls_key_hex(v):
    """the BLS key the harness registers for a validator (harness/internal/bftx blsKey)"""
    return ("%02x" % (v["a"] & 0xff)) if not v.get("k") else "ee%02x" % (v["k"] & 0xff)


def keys_oracle(c):
    """GetBFTParameters must return, for every validator, the BLS key REQUESTED by the change that put those parameters in force
    (the model has no keys; validatorsHash commits to them).  Returns a description of the first difference or None."""
    eff = {c["gh"] + 1: c["init"]}
    seen = set()
    for b, o in zip(c["blocks"], c["obs"]):
        if o["err"] != 0:
            break
        for k in o["pkeys"]:
            if k not in seen and k not in eff and b["chg"] is not None and k == b["h"] + 1:
                eff[k] = b["chg"]
        seen.update(o["pkeys"])
        for p in (o.get("params") or []):
            if p["err"] or "keys" not in p:
                continue
            ks = [k for k in o["pkeys"] if k <= p["h"]]
            if not ks or max(ks) not in eff:
                continue
            want = {v["a"]: bls_key_hex(v) for v in eff[max(ks)]["vals"]}
            for (a, _w), key in zip(p["vals"], p["keys"]):
                if a in want and want[a] != key:
                    return ("after block %d GetBFTParameters(%d) returns BLS key %s for validator %d; the change in force "
                            "(activated at height %d) requested %s" % (b["h"], p["h"], key, a, max(ks), want[a]))
    return None


def imp_oracle(c):
    """ImpliesMaximalPrevotes, declaratively from the header chain (LIP-0058): after block b it is true iff b casts prevotes
    (maxHeightGenerated < height) and the block of this chain at height maxHeightGenerated, if it is among the newest
    min(3*batch, blocks so far) headers, has the same generator.  Returns a description of the first difference or None."""
    blocks = c["blocks"]
    for i, (b, o) in enumerate(zip(blocks, c["obs"])):
        if o["err"] != 0:
            break
        if o["imp"] == 2:
            return "after block %d ImpliesMaximalPrevotes returned an error" % b["h"]
        if b["mhg"] >= b["h"]:
            want = False
        else:
            win = min(3 * c["batch"], i + 1)
            if b["h"] - b["mhg"] >= win:
                want = True
            else:
                j = i - (b["h"] - b["mhg"])
                want = blocks[j]["gen"] == b["gen"] if (0 <= j and blocks[j]["h"] == b["mhg"]) else None
        if want is not None and bool(o["imp"]) != want:
            return ("after block %d (generator %d, maxHeightGenerated %d) ImpliesMaximalPrevotes = %s, LIP-0058 gives %s"
                    % (b["h"], b["gen"], b["mhg"], bool(o["imp"]), want))
    return None


def evaluate(ck, recs, tag="hist"):
    res = ck.coq_eval(IMPORTS, "hist_case_g", "check_hist_g", [hist_term_g(c) for c in recs], shard=40, tag=tag)
    if res is None:
        return
    for c in recs:
        if c.get("initok"):
            bad_imp = imp_oracle(c)
            if bad_imp:
                ck.failures.append(dict(kind="history", key="c02:imp:spec", what=bad_imp, case=c, spec_violated=True,
                                        theorem_or_correspondence="API.ImpliesMaximalPrevotes vs LIP-0058 (C02_implies_maximal_prevotes_spec)"))
            bad = keys_oracle(c)
            if bad:
                ck.failures.append(dict(kind="history", key="c02:params:bls-keys", what=bad, case=c, spec_violated=True,
                                        theorem_or_correspondence="GetBFTParameters vs the requested validator keys (validatorsHash commits to them)"))
    for c, code in zip(recs, res):
        ck.count()
        last = c["obs"][-1] if c["obs"] else None
        if last and last["err"] == 0 and last["heights"][1] > c["gh"]:
            ck.nontrivial(json.dumps(c["blocks"], sort_keys=True))
        if code != 0:
            spec = code >= 2
            f = dict(kind="history", key="c02:rules" if spec else "c02:model", case={k: c[k] for k in ("k", "batch", "gh", "init", "blocks", "commit")},
                     what=("liskbft heights / vote weights / contradiction flag differ from the LIP-0058 counting rules on this header "
                           "history (%d blocks)" if spec else "liskbft bookkeeping (active-validator info, parameter keys, "
                           "ImpliesMaximalPrevotes, NextHeightBFTParameters) differs from the model on this history (%d blocks)") % len(c["blocks"]),
                     observed=c["obs"], theorem_or_correspondence="Corr.C02.check_hist vs liskbft.Module/API")
            f["spec_violated"] = spec
            ck.failures.append(f)
    return res


def run(ck):
    ck.prove(extra_targets=["Corr/C02.vo"])
    binp = ck.go_build("c02")
    if not binp:
        return
    import glob, os
    from core import ROOT
    recs = []
    for cp in sorted(glob.glob(os.path.join(ROOT, "corpus", "C02", "*.jsonl"))):   # minimised earlier failures first
        r = ck.run_harness(binp, ["-in", cp], out_name="corpus.jsonl")
        if r is None:
            return
        recs += r
    ck.extra["corpus_histories"] = len(recs)
    args = ["-n", "500", "-long", "120"] if ck.tier == "quick" else ["-n", "20000", "-long", "4000"]
    r = ck.run_harness(binp, args)
    if r is None:
        return
    recs += r
    evaluate(ck, recs)
    ck.obligations += 1
    nchg = sum(1 for c in recs for b in c["blocks"] if b["chg"])
    nprobe = sum(1 for c in recs for o in c["obs"] for p in (o.get("params") or []) if not p["err"])
    if len(r) >= 100 and nchg >= 20 and nprobe >= 100:
        ck.discharged += 1
    else:
        ck.fail_obligation("generator:histories", "%d random histories, %d parameter changes, %d parameter probes" % (len(r), nchg, nprobe))
    # chain switches: ONE node (one module instance, one database) applies common+A, reverts A, applies B; its view of
    # common+B must equal a fresh node's (the view is a function of the header chain alone, not of what was processed before)
    b1 = ck.go_build("c01")
    if b1:
        unis = ck.run_harness(b1, ["-n", "60" if ck.tier == "quick" else "1500"], out_name="switch.jsonl")
        nsw = 0
        for u in unis or []:
            sw = u.get("obsSwitch") or []
            nc = len(u["common"])
            if sw:
                nsw += 1
                ck.count()
            if sw and sw != u["obsB"][nc:nc + len(sw)]:
                f = dict(kind="history", key="c02:switch", case={k: u[k] for k in ("k", "batch", "gh", "init", "common", "a", "b")},
                         what="after applying common+A and reverting A, the node's BFT view of common+B differs from a fresh node's "
                              "view of the same chain", observed={"fresh": u["obsB"][nc:nc + len(sw)][:3], "switched": sw[:3]},
                         theorem_or_correspondence="C02_same_chain_same_view on the implementation (chain-switch oracle)")
                f["spec_violated"] = True
                ck.failures.append(f)
        ck.extra["chain_switch_universes"] = nsw
        ck.obligations += 1
        if nsw >= 10:
            ck.discharged += 1
        else:
            ck.fail_obligation("generator:chain-switch", "only %d chain-switch universes were run (the revert path of the module)" % nsw)
    for r in recs[:2]:
        ck.sample({k: r[k] for k in ("batch", "gh", "init", "blocks")})
    nb = sum(len(c["blocks"]) for c in recs)
    ck.extra["blocks_processed"] = nb
    ck.extra["histories_with_param_change"] = sum(1 for c in recs if any(b["chg"] for b in c["blocks"]))
    ck.extra["histories_longer_than_window"] = sum(1 for c in recs if len(c["obs"]) > 3 * c["batch"])
    ck.extra["traces_validated_against_impl"] = len(recs)
    ck.cov["rule"] = ("random header histories on the real liskbft module (batch 2..5, weights 1..4, round-robin generators with "
                      "deviations: arbitrary maxHeightGenerated, non-validators, foreign maxHeightPrevoted, aggregate commits, "
                      "parameter changes incl. invalid and identical ones, chains up to 4x the vote window); after every block "
                      "heights, contradiction flag, decoded BFTVotes (weights, per-validator info), parameter keys, "
                      "ImpliesMaximalPrevotes, NextHeightBFTParameters are compared with the model. Non-trivial = distinct "
                      "histories whose precommitted height moved above genesis")
    if ck.tier == "thorough":
        ck.coqchk(["LE.Properties.C02"])


def replay(ck, path):
    doc = json.load(open(path))
    case = doc.get("input")
    if not case:
        print("replay names a broken obligation, no input: %s" % doc.get("what"))
        run(ck)
        return ck.finish(LEVEL)
    binp = ck.go_build("c02")
    inp = ck.work + "/replay_in.jsonl"
    open(inp, "w").write(json.dumps(case) + "\n")
    recs = ck.run_harness(binp, ["-in", inp], out_name="replay.jsonl")
    if recs is not None:
        evaluate(ck, recs, tag="replay")
        print("replayed: %s" % json.dumps(recs)[:3000])
    return ck.finish(LEVEL)
