"""C04 — finalized blocks are irreversible and the finalized height never decreases."""
import json
import os
from core import cbool, clist, sh, ROOT, REPO, GOENV, COQ

LEVEL = "proof"
READY = True
MANIFEST = {
    "technique": "Coq proof over all operation sequences of a node state machine + differential correspondence on random histories "
                 "against a real consensus.Executer + go/ast mutator-closure translator with a vm_compute obligation",
    "text": "Model: chain served per height, stored finalized height, temp table, volatile tip cache, published events; operations "
            "Apply (verdict and post-state maxHeightPrecommited as inputs), Delete request (any height; guard on the request, removal of "
            "the cached tip, as the code does), Restart (PrepareCache), ClearTemp. Theorems over ALL operation sequences: the finalized "
            "height never decreases; for every h <= finalized the block served at h never changes; the stored height becomes "
            "max(stored, maxHeightPrecommited) in the step that appends the block and changes in no other step; the finalize events "
            "published are exactly the raises (old, new) in order; a deletion always removes the tip and only above the finalized "
            "height. Sync (fast, full, failed with restore) and tie-break are sequences of these operations: a go/ast abstract interpreter (helpers inlined, parameters bound to the caller's arguments) summarises, for every exported step, the batches created, the objects staged into, the durable commits and the direct database writes, and Coq checks these against the expected values (one batch, one commit, no direct write; three database.Write call sites; every deleteBlock argument from LastBlock()) " 
            "Correspondence: random histories with competing forks, invalid blocks, delete requests down "
            "to and below the finalized height, failed-sync restores from the temp table, restarts (close+reopen+PrepareCache); after "
            "every step finalized height, ID per height and events are compared with the model and with the four invariants.",
    "note": "Trusted: Coq kernel + vm_compute, model fidelity as sampled, the syntactic mutator listing (receiver named *database), Go "
            "harness, Python glue. The vote module's maxHeightPrecommited is an input (C01/C02). The bound 'sync never asks for a "
            "deletion below finality' is not needed: deleteBlock's guard alone carries the proof.",
}
IMPORTS = "From LE Require Import Chain.Finality Corr.C04."


class Intern:
    def __init__(self):
        self.m = {}

    def code(self, s):
        if s not in self.m:
            self.m[s] = len(self.m) + 1
        return self.m[s]


def op_term(it, s):
    o = s["op"]
    if o == "apply":
        return "(Apply %d %s %d %s)" % (it.code(s["id"]), cbool(s["ok"]), s["p"], cbool(s.get("rt", False)))
    if o in ("delete", "delete_req"):
        return "(Delete %d %s %s)" % (s["h"], cbool(s.get("save", False)), cbool(s["ok"]))
    if o == "restart":
        return "Restart"
    return "ClearTemp"


def ev_term(it, e):
    t = e["t"]
    if t == "new":
        return "(1, %d, 0, 0)" % it.code(e["id"])
    if t == "finalize":
        return "(2, %d, %d, %d)" % (e.get("orig", 0), e.get("next", 0), it.code(e["id"]))
    if t == "delete":
        return "(3, %d, 0, 0)" % it.code(e["id"])
    return None


def hist_term(h):
    it = Intern()
    g = it.code(h["genesis"])
    steps = []
    expected = dict(h.get("digests") or {})
    for s in h["steps"]:
        evs = [x for x in (ev_term(it, e) for e in s["events"]) if x]
        # the "block served at height h" is the FULL block as read from the database: an entry keeps the code of its ID only while
        # its body digest is the one recorded when the block was built (first seen, for blocks built elsewhere)
        codes = []
        bodies = s.get("bodies") or []
        for hh, c in enumerate(s["chain"]):
            body = bodies[hh] if hh < len(bodies) else None
            if body is not None and c not in ("missing",):
                want = expected.setdefault(c, body)
                if body != want:
                    c = c + "!" + body
            codes.append(it.code(c))
        steps.append("(%s, mkO %d %s [%s])" % (op_term(it, s), s["fin"], clist(codes), "; ".join(evs)))
    return "(%d, [%s])" % (g, ";\n ".join(steps))


def closure_diff():
    """Readable difference between the regenerated call-site lists (coq/Gen/Mutators.v) and the expected ones."""
    import re

    def lists(path, prefix):
        txt = open(path).read()
        out = {}
        for name in ("steps", "global", "delete_origin"):
            m = re.search(r"Definition %s_%s\b.*?:= \[(.*?)\n\]\." % (prefix, name), txt, re.S)
            out[name] = set(l.strip().rstrip(";") for l in m.group(1).splitlines() if l.strip()) if m else set()
        return out
    found = lists(os.path.join(COQ, "Gen", "Mutators.v"), "found")
    exp = lists(os.path.join(COQ, "Chain", "MutatorsExpected.v"), "expected")
    msgs = []
    for name in found:
        for l in sorted(found[name] - exp[name]):
            msgs.append("now %s: %s" % (name, l))
        for l in sorted(exp[name] - found[name]):
            msgs.append("expected %s: %s" % (name, l))
    return msgs


def report_closure(ck):
    msgs = closure_diff()
    if msgs:
        ck.fail_obligation("mutator-closure", "the code that can write the engine database is no longer the expected set — "
                           + " | ".join(msgs[:8]))
    return msgs


def translate(ck):
    outp = os.path.join(COQ, "Gen", "Mutators.v")
    rc, out = sh(["go", "run", "main.go", "-repo", REPO, "-out", outp], cwd=os.path.join(ROOT, "translate", "mutators"), env=GOENV,
                 timeout=300)
    ck.obligations += 1
    if rc != 0:
        ck.fail_obligation("translate:mutators", "mutator-closure translator failed: " + out[-800:])
        return False
    ck.discharged += 1
    return True


def evaluate(ck, recs):
    terms = [hist_term(h) for h in recs]
    res = ck.coq_eval(IMPORTS, "hist", "check_hist", terms, shard=2, tag="hist")
    if res is None:
        return
    bad = [(h, t) for h, t, c in zip(recs, terms, res) if c != 0]
    where = ck.coq_eval(IMPORTS, "hist", "where_bad", [t for _, t in bad], shard=2, tag="where") if bad else []
    wi = 0
    for h, code in zip(recs, res):
        for s in h["steps"]:
            ck.count()
            ck.nontrivial((s["op"], s["what"], s["class"], len(s["chain"]) - 1 <= s["fin"], any(e["t"] == "finalize" for e in s["events"])))
        if code == 0:
            continue
        k = (where[wi] if where else 0)
        wi += 1
        step = h["steps"][k - 1] if 0 < k <= len(h["steps"]) else None
        prev = h["steps"][k - 2] if k >= 2 else None
        spec_bad = code >= 2
        small = {"k": "hist", "n": h["n"], "genesis": h["genesis"], "steps": h["steps"][:k]}
        opname = step["op"] if step else "?"
        key = "c04:%s:%s" % ("invariant" if spec_bad else "model", opname)
        lost = [hh for hh, b in enumerate((step or {}).get("bodies") or []) if b.startswith("ERR") and hh <= (prev or step)["fin"]]
        # the known finding is EXACTLY: deleting the block that repeated the transaction leaves everything right (finalized height
        # unchanged, one Delete event for that block, chain shorter by one, IDs unchanged) except that the full block of the OWNER of
        # the repeated transaction can no longer be read; anything else on that step is reported under its own key
        if (step and prev and step["what"].startswith("dup-tx: delete") and step.get("dup_owner") is not None
                and lost == [step["dup_owner"]] and step["fin"] == prev["fin"]
                and len(step["chain"]) == len(prev["chain"]) - 1 and step["chain"] == prev["chain"][:-1]
                and [(e["t"], e["id"]) for e in step["events"]] == [("delete", prev["chain"][-1])]
                and all(b == pb for hh, (b, pb) in enumerate(zip(step["bodies"], prev["bodies"])) if hh != step["dup_owner"])):
            key = "c04:dup-tx:finalized-block-body-lost"
        what = ("history step %d (%s: %s, class %s): finalized %s -> %s, chain length %s -> %s, events %s: %s" % (
            k, opname, step and step["what"], step and step["class"], prev and prev["fin"], step and step["fin"],
            prev and len(prev["chain"]), step and len(step["chain"]),
            (step and json.dumps(step["events"])) + (" — full block unretrievable at finalized height(s) %s: %s" % (
                lost, [step["bodies"][x] for x in lost]) if lost else ""),
            "violates a finality invariant (monotone / finalized IDs stable / tracks maxHeightPrecommited / finalize event iff raise)"
            if spec_bad else "implementation differs from the proved state machine"))
        ck.failures.append(dict(kind="history", key=key, what=what, case=small, spec_violated=spec_bad, observed=step,
                                theorem_or_correspondence="Corr.C04.check_hist vs consensus.Executer"))


def run(ck):
    translate(ck)
    report_closure(ck)
    ck.prove(extra_targets=["Corr/C04.vo"])
    binp = ck.go_build("c04")
    if not binp:
        return
    args = ["-hists", "16", "-steps", "30", "-syncs", "8"] if ck.tier == "quick" else ["-hists", "300", "-steps", "45", "-syncs", "80"]
    recs = ck.run_harness(binp, args)
    if recs is None:
        return
    evaluate(ck, recs)
    if recs:
        h = recs[0]
        ck.sample({"n": h["n"], "steps": [{k: s[k] for k in ("op", "what", "class", "fin", "p")} for s in h["steps"][:6]]})
    ck.cov["rule"] = ("random histories on a real Executer with 1-5 validators: valid successors (slot gaps, payload, events), invalid "
                      "blocks, tip deletions (with/without temp, ABI revert failures), deletions down to the finalized height, delete "
                      "requests for blocks at/below it, forks (delete k, grow a competing branch, then ClearTemp or fail and restore from "
                      "temp), restarts (close, reopen, PrepareCache); two-node histories on real loopback p2p where the peer tip is handed to Executer.process (fork choice, real fast sync against the peer's real RPC handlers, blocks applied with the syncing flag set), observed after every block step inside the sync. Unit = one step; distinct = (op, purpose, result class, tip at "
                      "finalized height, raised finality)")
    ck.extra["histories"] = len(recs)
    ck.extra["finality_raises"] = sum(1 for h in recs for s in h["steps"] if any(e["t"] == "finalize" for e in s["events"]))
    jumps = []
    for h in recs:
        pf = 0
        for s in h["steps"]:
            jumps.append(s["fin"] - pf)
            pf = s["fin"]
    ck.extra["max_finality_jump"] = max(jumps or [0])
    ck.extra["delete_requests_after_restart"] = sum(
        1 for h in recs for a, b in zip(h["steps"], h["steps"][1:]) if a["op"] == "restart" and b["op"] in ("delete", "delete_req"))
    sync_steps = [s for h in recs for s in h["steps"] if s["what"].startswith("sync via Executer.process: apply")]
    ck.extra["two_node_syncs_through_process"] = sum(1 for h in recs if any(s["what"].startswith("sync via Executer.process") for s in h["steps"]))
    ck.extra["blocks_applied_during_sync"] = len(sync_steps)
    ck.extra["finality_raises_during_sync"] = sum(1 for s in sync_steps if any(e["t"] == "finalize" for e in s["events"]))
    ck.extra["syncs_reaching_peer_tip"] = sum(1 for h in recs if h.get("sync_reached_peer_tip"))
    kinds = {}
    for h in recs:
        k = h.get("sync_kind")
        if not k:
            continue
        e = kinds.setdefault(k, {"runs": 0, "hang": 0, "shows_kind": 0, "results": {}})
        e["runs"] += 1
        e["hang"] += 1 if h.get("sync_hang") else 0
        e["shows_kind"] += 1 if h.get("sync_shows_kind") else 0
        e["results"][h.get("sync_result", "")] = e["results"].get(h.get("sync_result", ""), 0) + 1
    ck.extra["real_syncs_by_kind"] = kinds
    hung = sum(e["hang"] for e in kinds.values())
    if hung:
        ck.notes.append("%d two-node sync run(s) did not return within 40 s (abandoned, retried): no verdict from those runs" % hung)
    # a kind is covered iff at least one of its runs (each scenario is attempted up to 3 times) showed its behaviour: fast/block
    # reach the peer tip, poison = scripted ABI rejection followed by the real restoreBlocks, deep = refused for a common block below
    # the finalized height.  A kind that hung or failed in EVERY run is a failed obligation.
    ck.obligations += 1
    missing = [k for k in ("fast", "poison", "deep", "block") if kinds.get(k, {}).get("shows_kind", 0) == 0]
    if not missing and ck.extra["finality_raises_during_sync"] > 0:
        ck.discharged += 1
    else:
        ck.fail_obligation("generator:sync", "real two-node syncs through Executer.process: kind(s) %s never showed their behaviour in any "
                           "run (3 attempts each); observed %s" % (missing, json.dumps(kinds)))
    tb = [s for h in recs for s in h["steps"] if s["what"].startswith("tie-break through Executer.process")]
    ck.extra["tie_break_steps_through_process"] = len(tb)
    ck.obligations += 1
    if any("valid competitor" in s["what"] and s["op"] == "apply" for s in tb) and any("invalid signature" in s["what"] and s["op"] == "delete" for s in tb):
        ck.discharged += 1
    else:
        ck.fail_obligation("generator:tie-break", "no tie-break through Executer.process (valid and invalid competitor) in the histories")
    ck.extra["refused_deletes_at_finality"] = sum(1 for h in recs for s in h["steps"] if s["class"] == "finalized")
    ck.extra["traces_validated_against_impl"] = sum(len(h["steps"]) for h in recs)
    ck.assume += ["maxHeightPrecommited of the post-state is an input (computed by the liskbft module on a scratch staged store)",
                  "the mutator listing is syntactic: a database reached through a differently named field or through reflection is "
                  "not seen; pkg/db/diffdb (Commit/RevertDiff only fill the caller's batch) is C05/C12's",
                  "for blocks restored from the temp table the validity verdict is taken from the implementation"]
    if ck.tier == "thorough":
        ck.coqchk(["LE.Properties.C04"])


def replay(ck, path):
    doc = json.load(open(path))
    case = doc.get("input")
    if not case:
        print("replay names a broken obligation, no input: %s" % doc.get("what"))
        run(ck)
        return ck.finish(LEVEL)
    translate(ck)
    ck.prove(extra_targets=["Corr/C04.vo"])
    print("recorded history prefix: %d steps; last: %s" % (len(case["steps"]), json.dumps(case["steps"][-1])[:400]))
    ck.seed = doc.get("seed", ck.seed)
    binp = ck.go_build("c04")
    if binp:
        recs = ck.run_harness(binp, ["-hists", "16", "-steps", "30", "-syncs", "8"], out_name="replay.jsonl")
        if recs is not None:
            print("re-executed %d histories with the recorded seed on the current tree" % len(recs))
            evaluate(ck, recs)
    return ck.finish(LEVEL)
