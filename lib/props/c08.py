"""C08 — codec: lossless round trip, canonical strict decoding, stable IDs, Lisk32."""
import json
import os
import subprocess

import core
from core import cN, cbool, clist, cbytes

LEVEL = "proof"
READY = True
MANIFEST = {
    "technique": "Coq proof on Gallina model of pkg/codec + schema translator (go/ast -> Coq, obligations by vm_compute) + "
                 "differential correspondence evaluated in Coq",
    "text": "Model: readUint/varintShortestSize, every Reader.Read*/Writer.Write* primitive (strict flag, error precedence, "
            "end/len(data) asymmetry of nested readers, Go int wrap), the generated Encode/Decode/DecodeStrict template over a "
            "named struct environment, Lisk32. Theorems (all inputs): varint round trip and shortest-form canonicity, "
            "read-after-write round trip of every primitive, generic decode(encode v) = canon v and strict variant for every "
            "well-formed schema, encode deterministic, strict decoding of a flat schema (Transaction) accepts only the "
            "canonical bytes; Lisk32 bytes->text->bytes and text->bytes->text are lossless and createChecksum always verifies. "
            "Tie: translator re-derives each struct's three field sequences from the generated Go code "
            "(enc = dec = strict, wf); the correspondence runs every Reader/Writer primitive on exhaustive short byte strings, "
            "boundary varints and mutations (value, error class, reader position), and every generated struct on schema-generated "
            "values, mutations, widened keys, hostile varints, boundary payload sizes, the empty message and directly built Go "
            "values (status, error class, re-encoded bytes, decoded value field-wise) - the struct stream has NO exhaustive class "
            "(per-struct exhaustive short strings are part of C09). IDs: transaction IDs are the hash of exactly the accepted "
            "bytes; block/header IDs are stable under store/load and re-encoding but NOT unique per accepted byte string "
            "(headers are decoded leniently and uint32 fields truncate: C08_uint32_truncation_refuted).",
    "note": "Trusted: Coq kernel + vm_compute, model fidelity as sampled, Go harness, Python glue, translator (cross-checked by the "
            "per-struct correspondence). NFC/UTF-8 are section parameters in the theorems (is_nfc (nfc_norm s), is_nfc s -> "
            "nfc_norm s = s); the evaluated model decides NFC only for code points < U+0300 plus a table and skips other strings.",
}
IMPORTS = "From LE Require Import Codec.Varint Codec.Reader Codec.Writer Codec.Str Codec.Schema Codec.Lisk32 Gen.Schemas Corr.C08."
TRANSLATOR = os.path.join(core.ROOT, "translate", "schemas", "main.go")
GEN_V = os.path.join(core.COQ, "Gen", "Schemas.v")
GEN_REG = os.path.join(core.HARNESS, "internal", "c08reg", "reg_gen.go")


def translate(ck):
    """Re-derive coq/Gen/Schemas.v and the harness registry from /repo's *_codec.go files. Fail closed."""
    ck.obligations += 1
    cmd = ["go", "run", TRANSLATOR, "-repo", core.REPO, "-out", GEN_V, "-goreg", GEN_REG]
    ck.checker_cmds.append(" ".join(cmd))
    with core.Lock(os.path.join(core.HARNESS, ".lock")):
        rc, out = core.sh(cmd, cwd=os.path.dirname(TRANSLATOR), env=core.GOENV, timeout=300)
    if rc != 0:
        ck.fail_obligation("translate-schemas", "schema translator rejected the generated codec files: " + out[-1200:])
        return False
    ck.discharged += 1
    ck.extra["translator"] = out.strip().splitlines()[-1] if out.strip() else ""
    return True


def hexl(h):
    return cbytes(h)


def cz(x):
    x = int(x)
    return "(%d)%%Z" % x


def pval(r):
    if r["vb"]:
        return "(PB %s)" % clist(r["vb"], hexl)
    if r["vz"]:
        return "(PZ %s)" % clist(r["vz"], cz)
    # empty: the kind depends on the op
    return "(PB [])" if r["op"] in (9, 10, 11, 12) else "(PZ [])"


def read_term(r):
    return "((%d, %d, %s, %s, %d%%nat, %s), (%d, %d, %s, %d%%nat))" % (
        r["op"], r["fn"], cbool(r["strict"]), hexl(r["d"]), r["i"], cz(r["e"]), r["st"], r["ec"], pval(r), r["ix"])


def write_term(r):
    return "(%d, %d, %s, %s)" % (r["op"], r["fn"], pval(r), hexl(r["out"]))


def struct_term(r):
    def opt(h, ref):
        return "None" if h == ref else "(Some %s)" % hexl(h)
    re, re2 = r["re"], r.get("re2", "")
    return '("%s"%%string, %s, (%d, %d, %s), (%d, %d, %s), (%d, %s, %d, %s))' % (
        r["name"], hexl(r["d"]), r["st"], r["ec"], hexl(re), r["sst"], r["sec"], opt(r["sre"], re),
        r.get("st2", 0), opt(re2, re), r.get("sst2", 0), opt(r.get("sre2", ""), re2))


def l32_term(r):
    return "(%s, %s, %d, %d, %s, %d, %s, %s)" % (cbool(r["b2t"]), hexl(r["in"]), r["st"], r["ec"], hexl(r["out"]), r["bst"],
                                                 hexl(r["back"]), cbool(r["gen"] == "corrupt1"))


def av_term(a):
    ty = a["ty"]
    if ty == "TBool":
        return "(VBool %s)" % cbool(a["b"])
    if ty in ("TU32", "TU64"):
        return "(VU %s)" % a["u"]
    if ty in ("TI32", "TI64"):
        return "(VI %s)" % cz(a["i"])
    if ty in ("TStr", "TBytes"):
        return "(VBytes %s)" % hexl(a.get("x", ""))
    if ty in ("TBytesArr", "TStrs"):
        return "(VBytesL %s)" % clist(a.get("xl") or [], hexl)
    if ty == "TBools":
        return "(VBools %s)" % clist(a.get("bl") or [], cbool)
    if ty in ("TU32s", "TU64s"):
        return "(VUs %s)" % clist(a.get("ul") or [], str)
    if ty == "TMsg":
        return "(VMsg None)" if a.get("nil") else "(VMsg (Some %s))" % avs_term(a.get("m") or [])
    if ty == "TMsgs":
        return "(VMsgs %s)" % clist(a.get("ml") or [], avs_term)
    raise ValueError(ty)


def avs_term(avs):
    return clist(avs, av_term)


def direct_term(r):
    return '("%s"%%string, %s, %s, %d, %s, %d)' % (r["name"], avs_term(r["v"]), hexl(r["enc"]), r["st"], avs_term(r.get("back") or []), r["sst"])


KINDS = {
    "r": ("read_case", "check_read", read_term, "Reader primitive"),
    "w": ("write_case", "check_write", write_term, "Writer primitive"),
    "s": ("struct_case", "check_struct", struct_term, "generated struct codec"),
    "l32": ("l32_case", "check_l32", l32_term, "Lisk32 conversion"),
    "dv": ("direct_case", "check_direct", direct_term, "directly built Go value: Encode then Decode, field-wise"),
}

SHARD = {"r": 1500, "w": 300, "s": 150, "l32": 100, "dv": 60}

OPNAMES = ["UInt", "UInt32", "UInts", "UInt32s", "Int", "Int32", "Ints", "Bool", "Bools", "Bytes", "BytesArray", "String",
           "Strings", "Int32s"]


def check_ids(ck, recs):
    """IDs: NewTransaction accepts only canonical bytes, so ID = SHA-256 of exactly the accepted bytes; header / block IDs are
    the hash of the re-encoding and do not change when that re-encoding is decoded and encoded again (store/load)."""
    import hashlib
    for r in recs:
        if r["k"] != "id":
            continue
        ck.count()
        ck.nontrivial(("id", r["kind"], r["gen"], r["st"], r["d"][:24], len(r["d"])))
        bad = None
        if r["st"] in (2, 3):
            bad = "panics/times out"
        elif r["st"] == 1 and r["gen"] in ("gen", "nilagg") and r["kind"] in ("tx", "header", "block", "headerv", "header-sign-nil", "tx-reinit"):
            bad = "a canonical, generated input is rejected"
        elif r["st"] == 0:
            h = lambda x: hashlib.sha256(bytes.fromhex(x)).hexdigest()
            if r["kind"] == "tx" and (r["re"] != r["d"] or r["id"] != h(r["d"])):
                bad = "accepted non-canonical transaction bytes: ID is not the hash of the accepted bytes"
            elif r["id"] != h(r["re"]):
                bad = "ID is not the hash of the encoding"
            elif r["st2"] != 0 or r["id2"] != r["id"] or r["re2"] != r["re"]:
                bad = "ID / encoding changes when the encoding is decoded and encoded again"
            elif any(h(e[1]) != e[0] for e in r.get("extra") or []):
                bad = "ID of a contained transaction is not the hash of its encoding after Init"
            elif not all((r.get("flags") or {}).values()):
                bad = "fails: %s" % ", ".join(k for k, v in sorted(r["flags"].items()) if not v)
        if bad:
            f = dict(kind="input", key="c08:id:%s:spec" % r["kind"], what="%s ID: %s on %s" % (r["kind"], bad, json.dumps(r)[:500]),
                     case=r)
            f["spec_violated"] = True
            f["theorem_or_correspondence"] = "C08 ID oracle (hashlib.sha256)"
            ck.failures.append(f)


def check_store(ck, recs):
    """Store/load: blocks saved through Chain.AddBlock and read back through every DataAccess getter (block cache and a fresh
    DataAccess on the same database) keep their IDs and re-encode to the stored bytes; ID = SHA-256 of the re-encoding."""
    import hashlib
    h = lambda x: hashlib.sha256(bytes.fromhex(x)).hexdigest()
    for r in recs:
        if r["k"] != "store":
            continue
        bad = []
        if r["st"] != 0:
            bad.append("panics/times out: %s" % r.get("panic"))
        for b in r["blocks"]:
            ck.count()
            o = b["orig"]
            ck.nontrivial(("store", b["gen"], len(o["txs"]), len(o["assets"]), len(b["events"]), r["cache"], o["hdr"][:24]))
            if h(o["hdr"]) != o["id"]:
                bad.append("height %d: original ID is not the hash of the header encoding" % b["height"])
            for path, v in sorted(b["got"].items()):
                if v.get("err"):
                    bad.append("height %d %s: %s" % (b["height"], path, v["err"]))
                    continue
                if v["id"] != o["id"]:
                    bad.append("height %d %s: block ID changed by store/load" % (b["height"], path))
                if v["hdr"] != o["hdr"] or h(v["hdr"]) != v["id"]:
                    bad.append("height %d %s: loaded header re-encodes to different bytes (ID not the hash of the re-encoding)" % (b["height"], path))
                if "Header" not in path and (v["txs"] != o["txs"] or v["assets"] != o["assets"] or v["block"] != o["block"]):
                    bad.append("height %d %s: transactions/assets/block bytes differ after load" % (b["height"], path))
            for t in o["txs"]:
                if h(t[1]) != t[0]:
                    bad.append("height %d: transaction ID is not the hash of its encoding" % b["height"])
            for path, v in sorted(b["tx_got"].items()):
                if v != o["txs"]:
                    bad.append("height %d %s: transaction IDs/bytes differ after load" % (b["height"], path))
            for path, v in sorted(b["got_events"].items()):
                if b["events"] == [] and (v == [] or (len(v) == 1 and v[0].startswith("err:"))):
                    continue
                if v != b["events"]:
                    bad.append("height %d GetEvents(%s): events differ after load" % (b["height"], path))
        if bad:
            f = dict(kind="input", key="c08:store:spec", what="store/load through DataAccess: %s (seed %s, %d blocks, cache %d)" % (
                "; ".join(bad[:4]), r["seed"], r["n"], r["cache"]), case={k: r[k] for k in ("k", "seed", "n", "cache")})
            f["spec_violated"] = True
            f["theorem_or_correspondence"] = "C08 store/load oracle (hashlib.sha256)"
            ck.failures.append(f)


def uvarint(n):
    out = bytearray()
    while n >= 0x80:
        out.append((n & 0x7f) | 0x80)
        n >>= 7
    out.append(n)
    return bytes(out)


def check_big_writes(ck, recs):
    """Writer primitives on payloads around 16384 bytes (too large for the in-Coq evaluation): the implementation must read its
    own bytes back, and the bytes must be key, shortest length varint, payload (recomputed here)."""
    for r in recs:
        if r["k"] != "wb":
            continue
        ck.count()
        ck.nontrivial(("wb", r["op"], r["fn"], len(r["out"]), r["out"][:40]))
        op, fn = r["op"], r["fn"]
        key = uvarint(fn << 3 | 2)
        zz = lambda v: ((v << 1) ^ (v >> 63)) & (2**64 - 1)
        if op in (0, 1):
            exp = uvarint(fn << 3) + uvarint(int(r["vz"][0]))
        elif op in (4, 5):
            exp = uvarint(fn << 3) + uvarint(zz(int(r["vz"][0])))
        elif op == 7:
            exp = uvarint(fn << 3) + bytes([int(r["vz"][0])])
        elif op in (2, 3):
            payload = b"".join(uvarint(int(v)) for v in r["vz"])
            exp = key + uvarint(len(payload)) + payload
        elif op in (6, 13):
            payload = b"".join(uvarint(zz(int(v))) for v in r["vz"])
            exp = key + uvarint(len(payload)) + payload
        elif op == 8:
            payload = bytes(int(v) for v in r["vz"])
            exp = key + uvarint(len(payload)) + payload
        elif op in (11, 12):
            import unicodedata
            want = [unicodedata.normalize("NFC", bytes.fromhex(x).decode("utf-8")).encode("utf-8") for x in r["vb"]]
            exp = b"".join(key + uvarint(len(x)) + x for x in want)
            if r.get("back_ok") and r.get("back_vb") is not None and [bytes.fromhex(x) for x in r["back_vb"]] != want:
                r = dict(r, back_ok=False)
        else:
            exp = b"".join(key + uvarint(len(x) // 2) + bytes.fromhex(x) for x in r["vb"])
        if not r.get("back_ok") or exp.hex() != r["out"]:
            f = dict(kind="input", key="c08:Write:%s:spec" % OPNAMES[op], case=dict(r, k="w"),
                     what="Writer primitive Write%s on a %d-byte payload: %s" % (
                         OPNAMES[op], len(r["out"]) // 2, "the reader rejects or changes the writer's own bytes" if not r.get("back_ok")
                         else "bytes differ from key ++ shortest length varint ++ payload"))
            f["spec_violated"] = True
            f["theorem_or_correspondence"] = "C08 big-payload writer oracle (Python)"
            ck.failures.append(f)


def check_nil(ck, recs):
    """[]*T with nil elements / nil nested pointers in locally built values: Encode must not panic and must write exactly what it
    writes for the value without them (the projection to the model's values drops nil elements)."""
    for r in recs:
        if r["k"] != "nil":
            continue
        ck.count()
        ck.nontrivial(("nil", r["name"], r["n"], r["d"][:16]))
        if r["st"] != 0 or not r["same"]:
            f = dict(kind="input", key="c08:nil:%s:spec" % r["name"], case=r,
                     what="Encode of %s with %d nil slice elements %s: %s" % (r["name"], r["n"], "panics (%s)" % r.get("panic") if r["st"] else
                                                                          "differs from Encode without them", json.dumps(r)[:300]))
            f["spec_violated"] = True
            f["theorem_or_correspondence"] = "C08 nil-element oracle"
            ck.failures.append(f)


def case_key(r):
    if r["k"] in ("r", "w"):
        return "c08:%s:%s" % ("Read" if r["k"] == "r" else "Write", OPNAMES[r["op"]])
    if r["k"] == "l32":
        return "c08:l32:%s" % ("b2t" if r["b2t"] else "t2b")
    return "c08:%s:%s" % (r["k"], r.get("name", ""))


# smallest number of cases per record kind in a (non-replay) run; met by construction
FLOORS = {"r": 5000, "w": 500, "s": 1500, "l32": 300, "dv": 100, "id": 200, "store": 4, "nil": 20, "wb": 50}


def evaluate(ck, recs, floors=False):
    if floors:
        for k, need in sorted(FLOORS.items()):
            n = sum(1 for r in recs if r["k"] == k)
            if n < need:
                ck.fail_obligation("case-floor:" + k, "only %d cases of kind %s (floor %d): a generator produced (almost) nothing" % (n, k, need))
    skipped = 0
    for k, (typ, fn, mk, what) in KINDS.items():
        rs = [r for r in recs if r["k"] == k]
        if not rs:
            continue
        res = ck.coq_eval(IMPORTS, typ, fn, [mk(r) for r in rs], shard=SHARD.get(k, 1500), tag="c08" + k)
        if res is None:
            continue
        for r, code in zip(rs, res):
            ck.count()
            if code == 100:
                skipped += 1
                continue
            nontrivial(ck, r)
            if code != 0:
                spec_bad = code >= 2
                if r.get("st") == 2:
                    msg = "panics (%s)" % r.get("panic")
                elif spec_bad:
                    msg = "violates the codec oracle (round trip / canonical acceptance / no panic)"
                else:
                    msg = "differs from the proved model"
                f = dict(kind="input", key=case_key(r) + (":spec" if spec_bad else ":model"),
                         what="%s %s: implementation %s on %s" % (what, case_key(r), msg, json.dumps(r)[:600]), case=r)
                f["spec_violated"] = spec_bad
                f["theorem_or_correspondence"] = "Corr.C08.%s" % fn
                ck.failures.append(f)
    ck.extra["skipped_nfc_undecided"] = ck.extra.get("skipped_nfc_undecided", 0) + skipped
    check_ids(ck, recs)
    check_store(ck, recs)
    check_nil(ck, recs)
    check_big_writes(ck, recs)
    for r in recs:
        if r["k"] == "nb":
            ck.count()
            ck.nontrivial(("nb", r["target"]))
            if not r["ok"] or r["nested"] != r["target"]:
                f = dict(kind="input", key="c08:nested-length-boundary:spec", case=r,
                         what="Block with a nested header of %d bytes (intended %d): %s" % (r["nested"], r["target"], r.get("why") or "size not reached"))
                f["spec_violated"] = bool(r.get("why"))
                f["theorem_or_correspondence"] = "C08 oracle: Decode accepts Encode at the nested length-prefix boundaries"
                ck.failures.append(f)
    # structs the directly-built-value class cannot construct from outside their package (unexported fields)
    names = sorted({r["name"] for r in recs if r["k"] == "s"})
    built = {r["name"] for r in recs if r["k"] == "dv"}
    if names:
        ck.extra["dv_not_buildable"] = [n for n in names if n not in built]


def nontrivial(ck, r):
    if r["k"] == "r":
        # distinct by op, strictness, outcome class, error class and input shape
        ck.nontrivial(("r", r["op"], r["strict"], r["st"], r["ec"], len(r["d"]) // 2, r["d"][:8], r["i"], r["e"] == len(r["d"]) // 2))
    elif r["k"] == "w":
        ck.nontrivial(("w", r["op"], r["fn"], r["out"][:16], len(r["out"])))
    else:
        ck.nontrivial((r["k"], r.get("name"), r.get("gen"), r.get("st"), r.get("ec"), (r.get("d") or r.get("in", ""))[:24],
                       len(r.get("d") or r.get("in", ""))))


def harness_args(ck):
    if ck.tier == "quick":
        return ["-exh", "2", "-rand", "400", "-structs", "4", "-mut", "4", "-lisk32", "40", "-store", "6"]
    return ["-exh", "3", "-rand", "6000", "-structs", "40", "-mut", "20", "-lisk32", "3000", "-store", "150", "-big"]


def run(ck):
    if not translate(ck):
        return
    ck.prove(extra_targets=["Corr/C08.vo", "Gen/Schemas.vo"])
    binp = ck.go_build("c08")
    if not binp:
        return
    recs = []
    corp = os.path.join(core.ROOT, "corpus", "C08")
    if os.path.isdir(corp):
        for f in sorted(os.listdir(corp)):
            if f.endswith(".jsonl"):
                got = ck.run_harness(binp, ["-in", os.path.join(corp, f)], out_name="corpus_%s" % f)
                if got:
                    recs += got
    got = ck.run_harness(binp, harness_args(ck))
    if got is None:
        return
    recs += got
    evaluate(ck, recs, floors=True)
    for k in ("r", "w"):
        for r in [x for x in recs if x["k"] == k][:2]:
            ck.sample(r)
    ck.cov["rule"] = (
        "Reader primitives: every byte string of length <= L (L=2 quick, 3 thorough) over the alphabet {00 01 02 7f 80 81 fe ff 08 0a} "
        "for each of the 13 Read* methods, strict and lenient; 32 boundary uint64 values in canonical and padded form plus over-long / "
        "out-of-range / unterminated varints as value, as length prefix and as key; nested-reader states (index, end) around packed and "
        "repeated fields incl. end beyond len(data) and negative; mutated valid encodings. Writer primitives: boundary values per method. "
        "Generated structs (101 reachable of 103): the empty message, N schema-driven generated values each (N=4 quick, 40 thorough), "
        "M random mutations of each (4 / 20) and hostile varints / length prefixes at top-level positions of the first value; compared: "
        "Decode and DecodeStrict status, error class, re-encoded bytes; oracle: Encode.Decode fixed point accepted by DecodeStrict, "
        "flat canonical schemas accept only canonical bytes. Lisk32: boundary + random 20-byte addresses both directions, every "
        "single-character corruption of samples, prefix/length/charset errors. IDs: NewTransaction / NewBlockHeader / NewBlock on "
        "generated, mutated and trailing-byte inputs and NewBlockHeaderWithValues with a nil aggregate commit (ID = SHA-256 of "
        "accepted/re-encoded bytes, stable under decode+encode). Store/load: chains of 3-8 generated blocks (transactions with "
        "boundary values, assets, events; block cache 1/2/100) saved by Chain.AddBlock on in-memory pebble and read back by "
        "GetBlock / GetBlockByHeight / GetBlockHeader / GetBlockHeaderByHeight / GetTransaction(s) / GetEvents through the writing "
        "and a fresh DataAccess: IDs, re-encoded bytes and ID = SHA-256(re-encoding). Nil elements inserted by reflection into every "
        "Go values built DIRECTLY by reflection from model values (non-NFC strings, nil/empty slices, nil nested messages at every "
        "depth, uint32 boundaries; 80 structs with settable fields): real Encode bytes = model encoding, the value the real Decode "
        "returns is compared field by field with the model and with canon v. "
        "[]*T field of decoded values: Encode must not panic and must write the same bytes. Payload sizes 126..130 (thorough also "
        "16382..16386) bytes for packed arrays of one- and two-byte elements, bytes and strings, through the Writer primitives and "
        "through every struct field of those kinds; field keys widened by m*2^32. IDs after Init-edit-Init, after a JSON round trip "
        "with forged id members (transaction, header, block), after Sign with a nil aggregate commit. "
        "Distinct = by (method or struct, generator, strictness, outcome class, error class, input prefix/length).")
    ck.cov["exhaustive"] = True
    ck.extra["exhaustive_domain"] = "Reader primitives on byte strings up to length L over the 10-symbol boundary alphabet only"
    ck.extra["traces_validated_against_impl"] = len(recs)
    ck.assume += ["unicode NFC/UTF-8 functions are parameters of the theorems (is_nfc (nfc_norm s) = true; is_nfc s -> nfc_norm s = s)",
                  "64-bit Go int (int(uint64) wraps two's complement)"]
    if ck.tier == "thorough":
        ck.coqchk(["LE.Properties.C08"])


def replay(ck, path):
    doc = json.load(open(path))
    case = doc.get("input")
    if not case:
        print("replay names a broken obligation, no input: %s" % doc.get("what"))
        run(ck)
        return ck.finish(LEVEL)
    binp = ck.go_build("c08")
    if binp:
        inp = os.path.join(ck.work, "replay_in.jsonl")
        open(inp, "w").write(json.dumps(case) + "\n")
        recs = ck.run_harness(binp, ["-in", inp], out_name="replay.jsonl")
        if recs is not None:
            evaluate(ck, recs)
            print("replayed: %s" % json.dumps(recs)[:2000])
    return ck.finish(LEVEL)
