"""C01 — finality safety: no two conflicting blocks are ever both finalized."""
import glob
import json
import os
from core import ROOT, cbool, clist
from props import c02

LEVEL = "proof"
READY = True
IMPORTS = "From LE Require Import BFT.Contradiction BFT.Votes BFT.Universe Corr.C02 Corr.C01."
MANIFEST = {
    "technique": "Coq proof (protocol-level safety under quorum intersection + refutation witnesses on the faithful liskbft model) + differential correspondence on two-chain universes with a safety oracle evaluated in Coq",
    "text": "Proved from the faithful executable model of liskbft with no remaining premise (C01_static_safety_ids, "
            "_ids_one_third, _same_height_same_block_ids over blocks WITH identity -- histories of (id, BFT tuple) pairs, a same-tuple / "
            "different-id double forger is Byzantine; and their identity-free forms C01_static_safety_decl, _one_third, "
            "_same_height_same_block): for every static validator set with prevoteThr+precommitThr > W+f (default "
            "thresholds and < 1/3 Byzantine weight in particular), every prefix-closed universe of valid chains (all fork trees, all "
            "Byzantine strategies, all weight vectors, any length relative to the window), the blocks finalized by any two views lie "
            "on one chain. The proof decomposes every prevote/precommit weight into duplicate-free contributor lists (VotesGhost.v), "
            "derives quorum intersection, the maxHeightPrevoted witness and the linked precommitting run from the model and instantiates "
            "the abstract induction (Safety.v). C01_examine_safe: the executable safety oracle cannot fire under these hypotheses. "
            "Dynamic validator sets (blocks carrying parameter changes): C01_dynamic_safety_partial proves the same conclusion on the model "
            "with ONE extra premise, quorum intersection above the fork point stated on the model (QI_model_decl); "
            "C01_dynamic_safety_fork_params_partial discharges it when all changes lie below the fork. C01_safety_partial: the "
            "abstract protocol-level theorem. The unrestricted statement is "
            "refuted by two vm_compute witnesses (precommitThreshold floor(W/3)+1; fork-dependent validator-set change) that replay "
            "on the real module: known findings. Tie: two-chain universes built by simulated honest/Byzantine validators run on the "
            "real liskbft module; every view compared with the model (as C02) and the safety oracle applied to the implementation's "
            "own finalized heights, classified inside Coq.",
    "note": "Dynamic validator sets only under the QI premise (BFT/VotesGhostDyn.v, BFT/SafetyDyn.v); the validator-change refutation "
            "witness provably violates that premise. Signatures, ABI and the other validity rules are outside (C03). Heights unbounded N (< 2^32-1). Trusted: Coq "
            "kernel + vm_compute, model fidelity as sampled by the C02/C01 correspondence, Go harness.",
}


def ids_of(u):
    """Block ids (opaque to liskbft). Inputs recorded before ids existed (no id lists at all) get ids distinct by branch and
    position; id lists that are present but do not match the block lists are an error (never silently replaced)."""
    out = []
    for key, blocks, base in (("idsC", u["common"], 1), ("idsA", u["a"], 1000000), ("idsB", u["b"], 2000000)):
        ids = u.get(key)
        if ids is None or (len(ids) == 0 and len(blocks) > 0 and not any(u.get(k) for k in ("idsC", "idsA", "idsB"))):
            ids = [base + i for i in range(len(blocks))]
        if len(ids) != len(blocks):
            raise ValueError("C01 case: %s has %d ids for %d blocks" % (key, len(ids), len(blocks)))
        out.append(ids)
    return tuple(out)


def uni_term(u):
    ic, ia, ib = ids_of(u)
    return "(%d%%nat, %d, %s, %s, %s, %s, %s, %s, %s, %s, %s, %s)" % (
        u["batch"], u["gh"], c02.change(u["init"]), clist(u["common"], c02.block), clist(u["a"], c02.block),
        clist(u["b"], c02.block), cbool(u["initok"]), clist(u["obsA"], c02.obs), clist(u["obsB"], c02.obs),
        clist(ic), clist(ia), clist(ib))


KEYS = {20: "c01:low-precommit-threshold", 21: "c01:fork-dependent-validator-change", 22: "c01:conflicting-finality"}


def evaluate(ck, recs, tag="uni", ncorpus=None):
    res = ck.coq_eval(IMPORTS, "uni_case", "check_uni", [uni_term(u) for u in recs], shard=12, tag=tag)
    if res is None:
        return
    seen_known = set()
    for idx, (u, code) in enumerate(zip(recs, res)):
        ck.count()
        is_random = ncorpus is not None and idx >= ncorpus
        if is_random and code in KEYS:
            k = "random_universes_reaching_class_%d" % code
            ck.extra[k] = ck.extra.get(k, 0) + 1
        nc = len(u["common"])
        fa = u["obsA"][-1]["heights"][1] if u["obsA"] else u["gh"]
        fb = u["obsB"][-1]["heights"][1] if u["obsB"] else u["gh"]
        if max(fa, fb) > u["gh"] + nc and u["a"] and u["b"]:
            ck.nontrivial(json.dumps([u["common"], u["a"], u["b"]], sort_keys=True))
        if u["a"] and u["b"] and fa > u["gh"] and fb > u["gh"]:
            ck.extra["universes_where_both_views_finalized"] = ck.extra.get("universes_where_both_views_finalized", 0) + 1
        if u["a"] and u["b"] and min(fa, fb) > u["gh"] + nc:
            # both branches finalized beyond the fork: necessarily a conflict (classes 20/21/22)
            ck.extra["universes_where_both_branches_finalized_beyond_fork"] = ck.extra.get("universes_where_both_branches_finalized_beyond_fork", 0) + 1
        if u.get("twins"):
            ck.extra["universes_with_same_tuple_different_id_double_forge"] = ck.extra.get("universes_with_same_tuple_different_id_double_forge", 0) + 1
        # chain switch on one node (one module instance, reverted store) must give the view of a fresh node on the same chain
        sw = u.get("obsSwitch") or []
        if sw and sw != u["obsB"][nc:nc + len(sw)]:
            f = dict(kind="history", key="c01:switch", case={k: u[k] for k in ("k", "batch", "gh", "init", "common", "a", "b")},
                     what="after applying common+A and reverting A, the node's BFT view of common+B differs from a fresh node's view of "
                          "the same chain (the view must be a function of the header chain alone)",
                     observed={"fresh": u["obsB"][nc:nc + len(sw)][:3], "switched": sw[:3]},
                     theorem_or_correspondence="C02_same_chain_same_view on the implementation (chain-switch oracle)")
            f["spec_violated"] = True
            ck.failures.append(f)
        if code == 0:
            continue
        inp = {k: u[k] for k in ("k", "batch", "gh", "init", "common", "a", "b")}
        inp["idsC"], inp["idsA"], inp["idsB"] = ids_of(u)
        if code in KEYS and code != 22 and is_random and KEYS[code] in seen_known:
            continue  # one replayable instance per known class is recorded; the others are counted above
        if code in KEYS:
            seen_known.add(KEYS[code])
            f = dict(kind="history", key=KEYS[code], case=inp, observed={"finalizedA": fa, "finalizedB": fb},
                     what="two views of the real liskbft module finalize conflicting blocks (heights %d and %d, fork after %d) with "
                          "< 1/3 Byzantine weight" % (fa, fb, u["gh"] + nc),
                     theorem_or_correspondence="safety oracle Corr.C01.check_uni on the implementation's views")
            f["spec_violated"] = True
        else:
            f = dict(kind="history", key="c01:rules" if code >= 2 else "c01:model", case=inp,
                     what="liskbft differs from the vote model on a chain of this universe",
                     observed={"A": u["obsA"], "B": u["obsB"]}, theorem_or_correspondence="Corr.C02.check_hist vs liskbft.Module/API")
            f["spec_violated"] = code >= 2
        ck.failures.append(f)
    return res


def corpus_inputs():
    out = []
    for p in sorted(glob.glob(os.path.join(ROOT, "corpus", "C01", "*.jsonl"))):
        out.append(p)
    return out


def run(ck):
    ck.prove(extra_targets=["Corr/C01.vo"])
    binp = ck.go_build("c01")
    if not binp:
        return
    recs = []
    for p in corpus_inputs():
        r = ck.run_harness(binp, ["-in", p], out_name="corpus.jsonl")
        if r is None:
            return
        recs += r
    ncorpus = len(recs)
    r = ck.run_harness(binp, ["-n", "150" if ck.tier == "quick" else "4000"])
    if r is None:
        return
    recs += r
    evaluate(ck, recs, ncorpus=ncorpus)
    ck.obligations += 1
    if ck.extra.get("random_universes_reaching_class_20", 0) >= 1 and ck.extra.get("random_universes_reaching_class_21", 0) >= 1:
        ck.discharged += 1
    else:
        ck.fail_obligation("generator:conflict-classes", "no generated (non-corpus) universe reached the conflict classes 20 and 21 of check_uni: "
                           "the directed conflict universes of harness/cmd/c01 are missing or no longer conflict")
    ck.obligations += 1
    if len(recs) - ncorpus >= 50 and ncorpus >= 2:
        ck.discharged += 1
    else:
        ck.fail_obligation("generator:universes", "only %d random universes and %d corpus universes were run" % (len(recs) - ncorpus, ncorpus))
    for u in recs[:1] + recs[ncorpus:ncorpus + 1]:
        ck.sample({k: u[k] for k in ("batch", "gh", "init", "common", "a", "b")})
    ck.extra["corpus_universes"] = ncorpus
    ck.extra["universes_with_branch_finality"] = len(ck._distinct)
    ck.extra["universes_with_param_change"] = sum(1 for u in recs if any(b["chg"] for b in u["a"] + u["b"]))
    ck.extra["universes_with_low_threshold"] = sum(
        1 for u in recs if u["init"]["pc"] < sum(v["w"] for v in u["init"]["vals"]) * 2 // 3 + 1)
    ck.extra["traces_validated_against_impl"] = 2 * len(recs)
    ck.cov["rule"] = ("corpus (the two refutation witnesses) + random universes: common prefix and two branches extended in network "
                      "phases by simulated validators (honest: maxHeightGenerated = largest height forged, refuses any header "
                      "contradicting an earlier own header; Byzantine < 1/3 weight: arbitrary maxHeightGenerated, double forging, "
                      "same-tuple/different-id double forging: the block it forged at that height on the other branch re-forged with "
                      "identical BFT fields and another id, possibly as the first block of both branches), every block carries an "
                      "opaque id that liskbft never sees and the oracle compares, "
                      "batch 3..5, weights 1..3, precommit thresholds from floor(W/3)+1, fork-local validator-set changes; each chain "
                      "must be accepted by the module. Non-trivial = distinct universes where some branch finalized beyond the fork")
    ck.assume += ["heights below 2^32-1 (discharged for the model by C02 votes32_agrees)",
                  "block identity = the id-tagged history; the only identity assumption is that a block id determines the block and "
                  "its history (hash collision-freeness, ids_determine_history) -- equal BFT tuples with distinct ids are NOT collisions: "
                  "they are a double forge and the forger counts as Byzantine (thonest / thonest_b)",
                  "validator addresses pairwise distinct (SetBFTParameters accepts duplicates; Go's stable sort and the model's "
                  "sort_desc then order equal addresses differently, so duplicate addresses are outside the tie; the safety theorems "
                  "themselves hold for the model with or without duplicates)"]
    node_level_defence(ck)
    if ck.tier == "thorough":
        ck.coqchk(["LE.Properties.C01"])


def node_level_defence(ck):
    """Composition obligation (mechanism 'contradicting headers rejected', pkg/consensus/verify.go): the safety theorems assume
    that an honest node never builds on a header that contradicts its generator's earlier headers in the window.  The module's
    verdict (IsHeaderContradictingChain) is tied to the model by C02/C07; here a real Executer is offered re-signed successors
    whose maxHeightGenerated / height relation was altered (C03's world generator, chains longer than the window) and must reject
    every one the module flags."""
    binp = ck.go_build("c03")
    if not binp:
        return
    recs = ck.run_harness(binp, ["-worlds", "9" if ck.tier == "quick" else "30", "-points", "2"], out_name="node.jsonl")
    if recs is None:
        return
    flagged = [r for r in recs if r["k"] == "pv" and r["ve"]["contradicting"]]
    deep = [r for r in flagged if r["block"]["header"]["height"] > 3 * r["ve"].get("batch", 1 << 30) + r["block"]["header"]["mhg"]]  # older than the window
    # the world generator is time-dependent: how many flagged successors a run offers is reported, not demanded
    ck.extra["node_level_contradicting_successors_older_than_window"] = len(deep)
    for r in flagged:
        ck.count()
        ck.nontrivial(("node-contra", r["alt"], r["resigned"], r["impl"]["class"]))
        if r["impl"]["class"] == "ok":
            ck.failures.append(dict(
                kind="input", key="c01:node:contradicting-header-accepted",
                what="consensus.Executer accepted a block (alteration '%s', height %d, maxHeightGenerated %d) that the BFT module "
                     "flags as contradicting its generator's earlier headers: an honest node would then build on a double vote"
                     % (r["alt"], r["block"]["header"]["height"], r["block"]["header"]["mhg"]),
                case={"node": r}, spec_violated=True, observed=r["impl"],
                theorem_or_correspondence="composition: verifyBlock consults IsHeaderContradictingChain (C01 safety premise)"))
    ck.extra["node_level_contradicting_successors_offered"] = len(flagged)
    ck.obligations += 1
    if flagged:
        ck.discharged += 1   # every world offers re-signed maxHeightGenerated alterations: ~100 flagged successors per run
    else:
        ck.fail_obligation("node:generator", "no successor flagged by the module was offered to the Executer")


def replay(ck, path):
    doc = json.load(open(path))
    case = doc.get("input")
    if case and "node" in case:
        print("node-level case (time-dependent world, re-generated rather than replayed): %s" % doc.get("what"))
        run(ck)
        return ck.finish(LEVEL)
    if not case:
        print("replay names a broken obligation, no input: %s" % doc.get("what"))
        run(ck)
        return ck.finish(LEVEL)
    binp = ck.go_build("c01")
    inp = ck.work + "/replay_in.jsonl"
    open(inp, "w").write(json.dumps(case) + "\n")
    recs = ck.run_harness(binp, ["-in", inp], out_name="replay.jsonl")
    if recs is not None:
        evaluate(ck, recs, tag="replay")
        for u in recs:
            print("replayed: finalized A=%s B=%s" % (u["obsA"][-1]["heights"] if u["obsA"] else None, u["obsB"][-1]["heights"] if u["obsB"] else None))
    return ck.finish(LEVEL)
