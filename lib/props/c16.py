"""C16 — transaction execution is atomic; the state root is a function of the state."""
import json
from core import cN, cbool, clist, copt

LEVEL = "proof"
READY = True
MANIFEST = {
    "technique": "Coq proof on Gallina model of ExecuteTransaction / EventLogger / stateSMTBatch / ABIHandler.Commit, revert, Init "
                 "(abstract SMT as Section variables) + differential correspondence with the real ABIHandler and statemachine "
                 "driving a scripted module, evaluated in Coq against the model and a declarative oracle",
    "text": "Theorems (all command scripts = arbitrary lists of set/delete/get over any stores, revertible/unrevertible events, "
            "snapshots/restores on the context and on prefix views, then success or failure; all sequences of blocks, reverts and "
            "restarts; unbounded): a command that fails leaves the staged store exactly as it was when the command started; the events "
            "after a failed command are the earlier events, then the command's unrevertible events re-indexed, then the standard event "
            "carrying false, and every event's index equals its position; whatever the transactions of a block do, the cache handed to "
            "Commit is well-formed; Commit writes exactly the staged view (deleted keys absent) and the committed root is the sparse "
            "Merkle root of the tree image of the resulting state (the root of EVERY history of tree batches that builds that image); "
            "reverting the block restores every key's binding, the previous root and the tree-state record; restart recovery (Init) "
            "rolls the application back to exactly the state it had at the engine's tip and succeeds iff the engine's root is that "
            "state's root; every database reachable by any sequence of blocks / reverts / Finalize / restarts satisfies the invariant; the events of a block "
            "are renumbered 0,1,2,... by the engine with nothing else changed. "
            "Tie: random command scripts across three module stores with snapshots inside commands, hooks, unknown commands, "
            "dry-run / expected-root commits, revert, and restart-with-application-ahead sequences on the real ABIHandler; "
            "observables = result codes, events, values read, snapshot ids, sorted state-DB dump, tree-state record, every returned "
            "root compared with the real SMT root of the dumped state built from scratch; a second, declarative reference semantics "
            "(plain map, no cache) is the oracle for answers, events and the committed state.",
    "note": "The sparse Merkle tree is abstract in the theorems; the only fact assumed about it is the statement of "
            "C10_root_is_function_of_map, discharged for the trie of coq/SMT in C16_composed_with_C10. Other hypotheses (satisfiable; "
            "C16_hypotheses_consistent instantiates all of them with the real 8-bit expansion and a toy hash, C16_reach_nonvacuous runs a "
            "block inside the instance): the hash yields 32 proper bytes and has no collision among the state keys of the run, the bit "
            "expansion has 8 bits per byte and is injective on proper byte strings of equal length, root comparison is equality; script "
            "keys are module-store keys (state prefix + 6 bytes) of the run's key universe. Not proved, only checked by the "
            "correspondence oracle spec_tx (Corr/C16.v), NOT a theorem: the exact whole-transaction event list of a failed transaction tied to the script. The real trie's "
            "storage layout is tied to the abstract trie by C10's correspondence and here by comparing every root with a from-scratch "
            "real trie. Four defects repaired in /repo, see findings/C16.json.",
}
IMPORTS = "From LE Require Import Exec.EventLog Exec.TxExec Exec.StateRoot Exec.Recovery Corr.C16."

STORES = [([0, 0, 0, 1], [0, 0]), ([0, 0, 0, 1], [0, 1]), ([0, 0, 0, 2], [0, 0])]


def full_key(st, k):
    p, s = STORES[st - 1]
    return [0] + p + s + list(k or [])


def action(a):
    op = a["op"]
    if op == "set":
        return "(ASet %s %s)" % (clist(full_key(a["st"], a.get("k"))), clist(a.get("v") or []))
    if op == "del":
        return "(ADel %s)" % clist(full_key(a["st"], a.get("k")))
    if op == "get":
        return "(AGet %s)" % clist(full_key(a["st"], a.get("k")))
    if op == "ev":
        n = a.get("n", 0)
        tp = a.get("tp", 0)
        return "(AEvent %s (Build_ev_req 1 %d %s %s %s))" % (cbool(a.get("u", False)), n, clist(a.get("v") or []),
                                                           clist([tp] if tp > 0 else []), cbool(n != 0))
    if op == "snap":
        return "(ASnap %d%%nat)" % a.get("vw", 0)
    if op == "restore":
        return "(ARestore %d%%nat %d%%nat)" % (a.get("vw", 0), a.get("id", 0))
    raise ValueError(op)


def script(s):
    return "(%s, %s)" % (clist(s.get("acts") or [], action), cbool(s.get("fail", False)))


def obs(o):
    k = o["k"]
    if k == "got":
        return "(OGot None)" if o.get("nil") else "(OGot (Some %s))" % clist(o.get("v") or [])
    if k == "everr":
        return "OEventErr"
    if k == "snap":
        return "(OSnapId %d%%nat)" % o.get("id", 0)
    return "ORestoreErr"


def ctx_term(k, s):
    """a transaction of a consensus-executed block: id code 1000+k, no observation"""
    cmd = "None" if s.get("unknown") else "(Some %s)" % script(s["cmd"])
    return "(Build_tx %d 1 true %s %s %s)" % (1000 + k, script(s["before"]), cmd, script(s["after"]))


def tx_term(t):
    s = t["s"]
    cmd = "None" if s.get("unknown") else "(Some %s)" % script(s["cmd"])
    # tx id code 0 stands for the transaction id (first topic); module "m" = 1, always alphanumeric
    txr = "(Build_tx 0 1 true %s %s %s)" % (script(s["before"]), cmd, script(s["after"]))
    evs = clist(t.get("ev") or [], lambda e: "(%d, %s, %s, %d, %d, %s)" % (e["n"], clist(e["d"] or []), clist(e["t"] or []), e["i"], e["h"], cbool(e["txok"])))
    return "(%s, %s, %d, %s, %s)" % (txr, cbool(t.get("dry", False)), t["r"] + 1, evs, clist(t.get("obs") or [], obs))


RES = {"ok": "ROk'", "mismatch": "RMismatch'", "nodiff": "RNoDiff'", "behind": "RBehind", "conflict": "RConflict"}
EXP = {"none": "ENone", "right": "ERight", "wrong": "EWrong"}


def dump(d):
    st = clist(d["state"], lambda kv: "(%s, %s)" % (clist(kv[0]), clist(kv[1])))
    return "(%s, %s)" % (st, "None" if d["th"] < 0 else "(Some %d)" % d["th"])


def step_term(s):
    r = RES.get(s["res"], "ROther")
    tail = "%s %s %s %s" % (r, cbool(s["rootref"]), cbool(s["treeref"]), dump(s["dump"]))
    if s["t"] == "block":
        return "(SBlock %d %s %s %s %s)" % (s["h"], clist(s.get("txs") or [], tx_term), cbool(s.get("dry", False)), EXP[s["exp"]], tail)
    if s["t"] == "cblock":
        evs = clist(s.get("bev") or [], lambda e: "(%d, %s, %s, %d, %d, %s)" % (e["n"], clist(e["d"] or []), clist(e["t"] or []), e["i"], e["h"], cbool(e["txok"])))
        return "(SCBlock %d %d%%nat %d%%nat %s %s %s)" % (s["h"], s.get("nb", 0), s.get("na", 0),
                                                         clist(list(enumerate(s.get("cands") or [])), lambda ks: ctx_term(ks[0], ks[1])), evs, tail)
    if s["t"] == "gen":
        return "(SGen %d %s %s %s %s)" % (s["h"], clist(s.get("txs") or [], tx_term), clist(s.get("txs2") or [], tx_term),
                                          cbool(s.get("selok", False)), tail)
    if s["t"] == "fin":
        return "(SFin %d %s %s %s)" % (s.get("last", 0), r, cbool(s["treeref"]), dump(s["dump"]))
    if s["t"] == "revert":
        return "(SRevert %d %s %s)" % (s["h"], EXP[s["exp"]], tail)
    return "(SInit %d %s %s)" % (s.get("last", 0), cbool(s["exp"] == "wrong"), tail)


def evaluate(ck, recs):
    for r in recs:
        for s in r["steps"]:
            bad = [t for t in (s.get("txs") or []) + (s.get("txs2") or []) if t.get("panic")]
            if s.get("panic") or bad:
                what = s.get("panic") or bad[0]["panic"]
                ck.fail_case("c16:panic:%s" % s["t"], "framework code panicked (%s) in scenario %d step %s" % (what, r["id"], json.dumps(s)[:500]),
                             {"scenario": r})
    res = ck.coq_eval(IMPORTS, "list step", "check_scenario", [clist(r["steps"], step_term) for r in recs], shard=4, tag="scn")
    if res is None:
        return
    for r, code in zip(recs, res):
        for s in r["steps"]:
            ck.count()
            if s["t"] == "cblock":
                ck.nontrivial(("cblock", r["id"], s["h"], s.get("nb"), s.get("na"), len(s.get("bev") or []), json.dumps(s.get("cands"), sort_keys=True)))
            if s["t"] in ("block", "gen"):
                if s["t"] == "gen":
                    ck.nontrivial(("gen", r["id"], s["h"], s["res"], tuple(t["r"] for t in s.get("txs") or [])))
                for t in (s.get("txs") or []) + (s.get("txs2") or []):
                    ck.count()
                    ck.nontrivial(("tx", json.dumps(t["s"], sort_keys=True), t["r"], t.get("dry", False)))
            else:
                ck.nontrivial((s["t"], r["id"], s["h"], s.get("last"), s["res"], s["exp"]))
        if code == 0:
            continue
        ix, c = code // 4, code % 4
        s = r["steps"][ix]
        spec_bad = c >= 2
        names = {"block": "ExecuteTransaction/Commit", "revert": "Revert", "init": "Init (restart recovery)",
                 "cblock": "block executed through consensus abi_caller (block-level event renumbering) + Commit",
                 "fin": "Finalize",
                 "gen": "block generation (selectTransactionsByFee + Commit{DryRun}) then the block on a fresh context"}
        what = "%s: implementation %s (scenario %d step %d): %s" % (
            names[s["t"]], "violates the C16 oracle" if spec_bad else "differs from the proved model", r["id"], ix, json.dumps(s)[:1200])
        ck.failures.append(dict(kind="input", key="c16:%s:%s" % (s["t"], "spec" if spec_bad else "model"), what=what,
                                case={"scenario": {"k": "scn", "id": r["id"], "steps": r["steps"][:ix + 1]}, "step_index": ix},
                                spec_violated=spec_bad, theorem_or_correspondence="Corr.C16.check_scenario vs " + names[s["t"]]))


def run(ck, replay_file=None):
    ck.prove(extra_targets=["Corr/C16.vo"])
    binp = ck.go_build("c16")
    if not binp:
        return
    if replay_file:
        args = ["-in", replay_file]
    elif ck.tier == "quick":
        args = ["-scenarios", "60", "-steps", "14"]
    else:
        args = ["-scenarios", "1500", "-steps", "20"]
    recs = ck.run_harness(binp, args)
    if recs is None:
        return
    evaluate(ck, recs)
    if not replay_file:
        import glob, os
        for path in sorted(glob.glob(os.path.join(os.path.dirname(os.path.dirname(os.path.dirname(os.path.abspath(__file__)))), "corpus", "C16", "*.jsonl"))):
            crecs = ck.run_harness(binp, ["-in", path], out_name="corpus.jsonl")
            if crecs:
                evaluate(ck, crecs)
    for s in recs[0]["steps"][:2] + [x for x in recs[0]["steps"] if x["t"] not in ("block",)][:2]:
        ck.sample(s)
    ck.cov["rule"] = ("scenarios = random sequences of blocks (1-4 transactions; a transaction = Before/AfterCommandExecute hooks and a command, "
                      "each a random script of set/delete/get over three module stores incl. empty keys and values, revertible and "
                      "unrevertible events incl. invalid ones, Snapshot/RestoreSnapshot on the context and on store views incl. ids that hit "
                      "ExecuteTransaction's own snapshot, then success or failure; unknown commands; dry-run executions interleaved), commits (dry run / no / right / wrong "
                      "expected root), reverts (no / right / wrong expected root) and restarts with the engine 0-2 blocks behind, ahead, or with "
                      "a wrong root; block-generation steps: candidate transactions (some with failing hooks = invalid) through the real "
                      "generator.selectTransactionsByFee on one context, Commit{DryRun}, then the selected transactions as a block on a "
                      "fresh context whose Commit expects that root; dry-run / refused commits in the middle of a block. Non-trivial/distinct: transactions distinct by (script, result); revert/restart steps distinct by "
                      "(scenario, heights, outcome)")
    ck.extra["traces_validated_against_impl"] = len(recs)
    ck.assume += ["SHA-256 modelled as an injective, never-empty symbolic hash in the in-Coq evaluation; on the Go side every root is compared "
                  "with the real smt package's root of the dumped state built from scratch",
                  "pebble batch write is atomic (a Commit/Revert either writes state, diff and tree record or nothing)",
                  "diffdb views share one cache and RestoreSnapshot restores it for all views (C12)"]
    if ck.tier == "thorough":
        ck.coqchk(["LE.Properties.C16"])


def replay(ck, path):
    doc = json.load(open(path))
    case = doc.get("input")
    if not case or "scenario" not in case:
        print("replay names a broken obligation, no input: %s" % doc.get("what"))
        run(ck)
        return ck.finish(LEVEL)
    inp = ck.work + "/replay_in.jsonl"
    open(inp, "w").write(json.dumps(case["scenario"]) + "\n")
    run(ck, replay_file=inp)
    return ck.finish(LEVEL)
