"""C11 — regular Merkle tree (pkg/trie/rmt): incremental, batch, proof, update and witness computations agree."""
import json
from core import cN, cbool, clist, cbytes

LEVEL = "proof"
READY = True
MANIFEST = {
    "technique": "Coq proof on Gallina model (parametric hash) + differential correspondence evaluated in Coq with an "
                 "in-Coq SHA-256 (exhaustive sizes, all leaf subsets of small trees, random beyond)",
    "text": "Theorems (all lists, unbounded, any hash): folding Append over a list yields root = LIP-0031 batch root (split at the "
            "largest power of two < n), size = length and append path = roots of the perfect sub-trees of the binary expansion; "
            "the (repaired) CalculateRootFromAppendPath predicts exactly the state Append produces; the original code is refuted by a "
            "computed witness. On the faithful transcription of the index arithmetic, for every size 1..2^29: VerifyProof is SOUND for any "
            "number of leaf claims (injective branch hash); GenerateProof+VerifyProof is COMPLETE for any set of leaf positions; Update "
            "through a proof yields the root of the modified list for any index set; the right witness of any position and the append "
            "path of the left part reconstruct the root; Update writes the append path of the updated list and, over every script of "
            "Append / Update / re-open steps, the stored info record decodes to (root, append path, size) of the current list and the "
            "run continues from it (codec round trip assumed). LIMITS stated as theorems/docs: the soundness theorem is for verifiers "
            "that know the tree size (proof.Size is not authenticated: a `_refuted` witness shows a wrong size makes the POSITION "
            "claim false; tested for wrong sizes: an accepted proof only claims hashes of leaves of the list). Soundness holds for an "
            "ARBITRARY index list (the indexes travel with the proof): every accepted non-zero index names a node of the tree and every "
            "claim -- leaf, branch, pass-through, ancestor of another claim -- carries the true node value; a proof verifies against at "
            "most one root. Completeness is for ascending distinct positions (other orders, absent and repeated queries are tested). "
            "Resolution of query HASHES to positions is refuted as a theorem for repeated values (last-write index; known finding). "
            "Outside the proofs: resolving query hashes to positions (known finding for repeated values) and the node store, tied by running Go and model on every case "
            "(idxs, sibling hashes, verdicts, roots, witnesses, update/append scripts on lists with duplicates) and by the oracle.",
    "note": "Trusted: Coq kernel + vm_compute, in-Coq SHA-256 (checked on FIPS vectors), fidelity of the hand model as sampled by the "
            "correspondence, Go harness and Python glue. SHA-256 collision freeness is a hypothesis of the soundness theorems only.",
}
IMPORTS = "From LE Require Import RMT.Root RMT.Append RMT.Proof Corr.C11."


def hb(h):
    return cbytes(h)


def st_term(s):
    return "(%s, %s, %d)" % (hb(s["r"]), clist(s["p"], hb), s["s"])


def app_term(r):
    rl = "None" if r["rl"] is None else "(Some %s)" % st_term(r["rl"])
    pk = 1 if r["pk"] == 1 else (0 if r["pk"] == 0 else 2)
    return "(%d, %d, %s, (%d, %s), %s, %s)" % (r["seed"], r["n"], st_term(r["st"]), pk, st_term(r["pst"]), rl, hb(r["batch"]))


def pair(u):
    return "(%d, %d)" % (u[0], u[1])


def proof_term(r):
    qs = clist(r["qs"], lambda q: "None" if q < 0 else "(Some %d)" % q)
    tam = clist(r["tampers"], lambda t: "(%d, %d, %s)" % (t["k"], t["i"], cbool(t["v"])))
    return "(%d, %s, %d, %s, %s, %s, %s, %s, %s)" % (r["seed"], clist(r["ups"], pair), r["n"], qs, cbool(r["err"]),
                                                   clist(r["idxs"]), clist(r["sibs"], hb), cbool(r["ver"]), tam)


def opt_h(x):
    return "None" if x is None else "(Some %s)" % hb(x)


def upd_term(r):
    return "(%d, %d, %s, %s, %s, %s, %s, %s)" % (r["seed"], r["n"], clist(r["ups"], pair), cbool(r["err"]),
                                             hb(r["root"] or ""), clist(r["path"], hb), opt_h(r["calc"]), opt_h(r["app"]))


def rw_term(r):
    w = "None" if r["w"] is None else "(Some %s)" % clist(r["w"], hb)
    return "(%d, %d, %d, %s, %s, %s)" % (r["seed"], r["n"], r["idx"], w, opt_h(r["root"]), cbool(r["ver"]))


def rwx_term(r):
    return "(%d, %s, %s, %s)" % (r["idx"], clist(r["ap"], hb), clist(r["rw"], hb), opt_h(r["root"]))


def seq_term(r):
    ops = clist(r["ops"], lambda o: "(%d, %d, %d)" % tuple(o))
    rl = "None" if r["rl"] is None else "(Some %s)" % st_term(r["rl"])
    prf = clist(r["proofs"], lambda p: "(%s, %s, %s, %s, %s)" % (clist(p["qids"]), cbool(p["err"]), clist(p["idxs"]),
                                                              clist(p["sibs"], hb), cbool(p["ver"])))
    rws = clist(r["rws"], lambda w: "(%d, %s, %s, %s)" % (w["idx"], "None" if w["w"] is None else "(Some %s)" % clist(w["w"], hb),
                                                       opt_h(w["root"]), cbool(w["ver"])))
    return "(%d, %s, %s, %s, %s, %s, %s)" % (r["seed"], clist(r["ids"]), ops, st_term(r["st"]), rl, prf, rws)


KINDS = {
    "app": ("app_case", "check_app", app_term, 12),
    "proof": ("proof_case", "check_proof", proof_term, 60),
    "upd": ("upd_case", "check_upd", upd_term, 30),
    "rw": ("rw_case", "check_rw", rw_term, 120),
    "rwx": ("rwx_case", "check_rwx", rwx_term, 100),
    "seq": ("seq_case", "check_seq", seq_term, 8),
}


def key_of(r, spec_bad, code=0):
    """specific finding keys: entry point + failing input class"""
    k = r["k"]
    suffix = "spec" if spec_bad else "model"
    if k == "app":
        cls = "n=%d" % r["n"] if r["n"] <= 1 else "n>=2"
        if r["rl"] is None and r["n"] >= 1:
            cls += ":reload-error"
        return "c11:app:%s:%s" % (cls, suffix)
    if k == "rw":
        cls = "empty-tree" if r["n"] == 0 else "n>=1"
        return "c11:rw:%s:%s" % (cls, suffix)
    if k == "proof":
        acc = sorted({t["k"] for t in r.get("tampers", []) if t.get("v") and t.get("k") != 5})
        cls = ("dup" if r.get("dup") else "nodup") + "".join(":accepted-tamper-%d" % a for a in acc[:1])
        return "c11:proof:%s:%s" % (cls, suffix)
    if k == "seq":
        d = code // 4  # detail of check_seq: 1 state, 2 reload, 4 proofs, 8 right witnesses, 16 failing proofs are stale-index hits
        if spec_bad and code % 4 == 2 and d == 4 + 16 and not r.get("panic"):
            # the MODEL AGREES with Go on the whole case (code % 4 == 2: oracle violated, no model disagreement), ONLY proofs
            # fail and every failing proof resolved a present value to its last-write position, since overwritten
            return "c11:seq:stale-hash-index:spec"
        parts = [n for b, n in ((1, "state"), (2, "reload"), (4, "proofs"), (8, "right-witness")) if d & b]
        gen = r.get("gen")
        if gen == "stale-hash-index":
            gen = "stale-hash-index-case"  # the known key is reserved for the classified defect above
        return "c11:seq:%s:%s:%s" % (gen, "+".join(parts) or ("panic" if r.get("panic") else "-"), suffix)
    if k == "rwx":
        return "c11:rwx:%s:%s" % ("hang-or-panic" if r.get("root") is None else "value", suffix)
    return "c11:%s:%s" % (k, suffix)


def balance(rs, cost, shard):
    """reorder so that the contiguous shards cut by coq_eval get an even mix of cheap and expensive cases"""
    rs = sorted(rs, key=cost, reverse=True)
    ns = max(1, (len(rs) + shard - 1) // shard)
    out = []
    for j in range(ns):
        out.extend(rs[j::ns])
    return out


# per-kind floors (quick tier at seeds 1-3 gives app 95, proof ~270, upd ~275, rw ~900, seq ~180, rwx ~62; the counts follow from
# the flags by construction): a generator that silently emits (almost) nothing of a kind is a broken obligation
FLOORS = {"app": 60, "proof": 150, "upd": 150, "rw": 500, "seq": 100, "rwx": 30, "big": 15}


def evaluate(ck, recs, floors=False):
    if floors:
        for k, fl in sorted(FLOORS.items()):
            n = sum(1 for r in recs if r.get("k") == k)
            ck.obligations += 1
            if n >= fl:
                ck.discharged += 1
            else:
                ck.fail_obligation("case-floor:" + k, "only %d cases of kind %s (floor %d): a generator produced (almost) nothing" % (n, k, fl))
    broken = [r for r in recs if (r.get("panic") or "").startswith(("setup:", "Append:", "CalculateRoot:", "predmut:"))]
    recs = [r for r in recs if r not in broken]
    for r in broken:
        ck.count()
        f = dict(kind="input", key="c11:%s:%s" % (r["k"], "predict-mutates-argument" if r.get("predmut") else "setup-failure"), case=r,
                 what="rmt %s: %s on %s" % (r["k"], r["panic"], json.dumps(r)[:300]),
                 theorem_or_correspondence="harness c11 vs pkg/trie/rmt")
        f["spec_violated"] = True
        ck.failures.append(f)
    # large sizes: Go-side consistency only (prediction = Append = batch root; proofs verify / reject another hash)
    for r in [r for r in recs if r["k"] == "big"]:
        ck.count()
        ck.nontrivial(("big", r["n"]))
        if r.get("panic") or not (r["predict"] and r["batch"] and r["proof"] and r["reject"]):
            f = dict(kind="input", key="c11:big:%s:spec" % ("panic" if r.get("panic") else "+".join(k for k in ("predict", "batch", "proof", "reject") if not r[k])),
                     case=r, what="rmt at size %d: Go-side consistency fails: %s" % (r["n"], json.dumps(r)),
                     theorem_or_correspondence="harness c11 (large sizes, Go side only) vs pkg/trie/rmt")
            f["spec_violated"] = True
            ck.failures.append(f)
    for kind, (typ, fn, term, shard) in KINDS.items():
        rs = [r for r in recs if r["k"] == kind]
        if not rs:
            continue
        rs = balance(rs, lambda r: r.get("n", len(r.get("ids", [])) * (2 + len(r.get("proofs", [])) + len(r.get("rws", [])))) * (1 + len(r.get("tampers", []))), shard)
        # balance shards: cost grows with n
        res = ck.coq_eval(IMPORTS, typ, fn, [term(r) for r in rs], shard=shard, tag=kind, timeout=1700)
        if res is None:
            continue
        for r, code in zip(rs, res):
            ck.count()
            if kind == "app":
                ck.nontrivial(("app", r["n"]))
            elif kind == "proof":
                ck.nontrivial(("proof", r["n"], tuple(r["qs"]), tuple(map(tuple, r["ups"]))))
            elif kind == "upd":
                ck.nontrivial(("upd", r["n"], tuple(map(tuple, r["ups"]))))
            elif kind == "seq":
                ck.nontrivial(("seq", tuple(r["ids"]), json.dumps(r["ops"]), json.dumps(r["qs"])))
                sub = [x.get("panic") for x in r["proofs"] + r["rws"] if x.get("panic")]
                if sub:
                    r = dict(r, panic=sub[0])
            elif kind == "rwx":
                ck.nontrivial(("rwx", r["idx"], len(r["ap"]), len(r["rw"])))
            else:
                ck.nontrivial(("rw", r["n"], r["idx"]))
            if r.get("panic"):
                code |= 2
            if code != 0:
                spec_bad = code % 4 >= 2
                small = {k: v for k, v in r.items() if k not in ("sibs", "proofs", "rws")}
                what = "rmt %s: implementation %s (code %d)%s on %s" % (
                    kind, "violates the C11 oracle" if spec_bad else "differs from the proved model", code,
                    " panic=" + r["panic"] if r.get("panic") else "", json.dumps(small)[:700])
                f = dict(kind="input", key=key_of(r, spec_bad, code), what=what, case=r,
                         theorem_or_correspondence="Corr.C11.%s vs pkg/trie/rmt" % fn)
                f["spec_violated"] = spec_bad
                ck.failures.append(f)


def run_capture(ck, binp, args, out_name="cases.jsonl"):
    """run the harness; if the process dies (panic in a goroutine of the code under test) report the pending case concretely"""
    import os
    n_before = len(ck.failures)
    stale = os.path.join(ck.work, out_name + ".pending")
    if os.path.exists(stale):
        os.remove(stale)  # left by an earlier crashed run: must not be reported as the input of THIS run
    recs = ck.run_harness(binp, args, out_name=out_name)
    if recs is None:
        pend = os.path.join(ck.work, out_name + ".pending")
        if os.path.exists(pend):
            case = json.load(open(pend))
            why = ck.failures[-1]["what"][:500] if len(ck.failures) > n_before else "harness died"
            f = dict(kind="input", key="c11:%s:crash" % case.get("k"), case=case,
                     what="rmt %s: the implementation crashed the process (%s) on %s" % (
                         case.get("k"), " ".join(why.split())[:300], json.dumps(case)[:400]),
                     theorem_or_correspondence="harness c11 vs pkg/trie/rmt (unrecoverable panic)")
            f["spec_violated"] = True
            ck.failures.append(f)
    return recs


def corpus(ck, binp):
    import glob, os
    out = []
    for p in sorted(glob.glob(os.path.join(os.path.dirname(os.path.dirname(os.path.dirname(__file__))), "corpus", "C11", "*.jsonl"))):
        recs = run_capture(ck, binp, ["-in", p], out_name="corpus_%s" % os.path.basename(p))
        if recs:
            out.extend(recs)
    return out


def run(ck):
    ck.prove(extra_targets=["Corr/C11.vo"])
    binp = ck.go_build("c11")
    if not binp:
        return
    if ck.tier == "quick":
        args = ["-nmax", "70", "-pexp", "8", "-nsub", "6", "-nproof", "110", "-pmax", "70", "-nupd", "90", "-rwmax", "40", "-nseq", "40"]
    else:
        args = ["-nmax", "600", "-pexp", "11", "-nsub", "8", "-nproof", "1500", "-pmax", "300", "-nupd", "800", "-rwmax", "110", "-nseq", "600", "-nrwx", "400", "-ancq", "64", "-bigexp", "20"]
    recs = corpus(ck, binp)
    main = run_capture(ck, binp, args)
    if main is None:
        return
    recs = recs + main
    evaluate(ck, recs, floors=True)
    for k in ("app", "proof", "upd", "rw"):
        xs = [x for x in recs if x["k"] == k and x.get("n", 0) >= 3]
        if xs:
            s = dict(xs[len(xs) // 2])
            s.pop("sibs", None)
            ck.sample(s)
    ck.cov["rule"] = ("append/predict (from a private copy AND from the live AppendPath(), which must leave the tree unchanged)/reload/batch: every size 0..N exhaustively (N=70 quick, 600 thorough) plus sizes 2^k-2..2^k+2 "
                      "(k<=8 quick, 11 thorough) and random sizes near powers of two with a second seed; proofs: every leaf subset of every "
                      "tree with n<=6 (8 thorough) incl. the empty query, random subsets in random order with absent and duplicate "
                      "queries and after updates, each with all single-field tamperings (each query hash, root, each sibling hash, "
                      "an index moved to an unqueried leaf, proof.Size changed to n-1/n+1/2n/n/2 with the data-level oracle, the honest hash "
                      "claimed at an ancestor index at EVERY level up to the child of the root while the leaf is claimed with another hash "
                      "(first query quick, every query thorough, also for duplicate/absent query sets), an extra claim at an index that names "
                      "no node (1, 3, first missing leaf, too long, missing internal node)); Update with positions ascending, descending, "
                      "random order, a position twice with equal / different data; scripts of Append / "
                      "Update / re-open-from-store steps (explicit duplicate/aliasing/power-of-two scripts, each also with a re-open after "
                      "every step, and random scripts) continuing on the re-opened object, all values of the final list queried; updates: every non-empty position subset for n<=5 and random sets, "
                      "followed by one Append; right witnesses: every position 0..n+1 for every n<=40 (110 thorough); large sizes 2^k-1, 2^k, 2^k+1 for k = 9..14 (20 thorough), Go side only (predicted root = Append root = batch root, proofs of first/middle/last leaf verify and reject another hash); right-witness reconstruction on arbitrary/inconsistent (index, append path, witness) triples under a 3 s watchdog. Distinct = by "
                      "(kind, n, query/update set or position).")
    ck.cov["exhaustive"] = True
    ck.extra["exhaustive_domain"] = "sizes 0..N for append; all subsets for n<=nsub; all witness positions for n<=rwmax"
    ck.extra["traces_validated_against_impl"] = len(recs)
    ck.assume += ["SHA-256 has no collisions on the values met (hypothesis of the soundness theorems only)",
                  "tree sizes < 2^31 (strconv.ParseInt(_, 2, 32) in the index arithmetic) and < 2^53 (float64 log2)"]
    if ck.tier == "thorough":
        ck.coqchk(["LE.Properties.C11"])


def replay(ck, path):
    doc = json.load(open(path))
    case = doc.get("input")
    if not case:
        print("replay names a broken obligation, no input: %s" % doc.get("what"))
        run(ck)
        return ck.finish(LEVEL)
    binp = ck.go_build("c11")
    inp = ck.work + "/replay_in.jsonl"
    open(inp, "w").write(json.dumps(case) + "\n")
    recs = run_capture(ck, binp, ["-in", inp], out_name="replay.jsonl")
    if recs is not None:
        ck.prove(extra_targets=["Corr/C11.vo"])
        evaluate(ck, recs)
        print("replayed %d case(s)" % len(recs))
    return ck.finish(LEVEL)
