"""C12 — staged store (diffdb) reads = database with staged writes applied; pkg/db scans exact."""
import json
import os
from core import cbytes, cbool, ROOT

LEVEL = "proof"
READY = True
MANIFEST = {
    "technique": "Coq proof (refinement of an executable Gallina model of pkg/db/diffdb + pkg/db iterator loops against a "
                 "one-sorted-map specification, for all operation sequences) + differential correspondence evaluated in Coq",
    "text": "Model: cacheDB entries {init,value,dirty,deleted}, Get with caching, Set/Del with ensureCache, Range, Iterate, "
            "mergeSortLimit, WithPrefix views sharing one cache, Snapshot/Restore/DeleteSnapshot, Commit, RevertDiff over a "
            "sorted-map database whose scans are the loops of iterator.go on a pebble-iterator model (SeekGE/SeekLT/First/Last/"
            "Next/Prev with bounds, upperBound). Theorems (all initial databases, all interleavings of get/has/set/del/range/"
            "iterate/snapshot/restore/delete-snapshot/with-prefix over any number of views, all bounds/limits/directions, keys of "
            "any lengths): every result equals the same operation on ONE sorted map with the staged writes applied; restoring a "
            "snapshot gives back the staged map at snapshot time; Commit writes exactly that map; RevertDiff of the returned diff "
            "restores the previous database as a list (byte for byte); IterateRange/Iterate/IterateKey return exactly the keys in "
            "the bounds, in order, truncated; p is a prefix of k iff p <= k < upperBound(p). Tie: random op sequences (3-symbol "
            "alphabet 00/61/ff, key lengths 0-3, up to 7 views forming a tree of depth 2-3 with siblings off derived views, snapshots) and random scans run on the real code over in-memory "
            "pebble; each observation is compared in Coq with the model and with the specification; DB dumped after Commit and "
            "after RevertDiff (through the diff codec).",
    "note": "Nine genuine defects were repaired in /repo (see docs/C12.md: limit before staged deletes; Iterate "
            "through a prefix view; RestoreSnapshot with older views; reverse IterateRange) and the repaired code is what is "
            "modelled; their replays are in corpus/C12. Trusted: pebble iterators obey sorted-map semantics (sampled by the scan "
            "cases), Go map iteration order is irrelevant (proved: results are sorted / order-insensitive), byte slices are not "
            "mutated by callers is now PROBED (the harness overwrites every buffer passed in or received; two aliasing defects fixed). batchdb modelled (reads = database, written batch = overlay specification). both layers read limits identically for every value (0 = none, negative = no limit) after fix c96d3f9 "
            "(C12_layers_agree_on_limits).",
}
IMPORTS = "From LE Require Import Base.Lex Store.SMap Store.PebbleIter Store.DiffDB Store.DiffDBSpec Store.BatchDB Corr.C12."


def kvs(l):
    return "[" + "; ".join("(%s, %s)" % (cbytes(k), cbytes(v)) for k, v in l) + "]"


def zlit(n):
    return "(%d)%%Z" % n


def op_term(o):
    v = "%d%%nat" % o["v"]
    k = o["o"]
    res = o.get("res")
    if isinstance(res, str) and res.startswith("panic:"):
        r = "RPanic"
    elif res == "badview":
        r = "RBadView"
    else:
        r = None
    if k == "get":
        t = "OGet %s %s" % (v, cbytes(o["a"]))
        r = r or ("RVal None" if res is None else "RVal (Some %s)" % cbytes(res))
    elif k == "has":
        t = "OHas %s %s" % (v, cbytes(o["a"]))
        r = r or "RBool %s" % cbool(res)
    elif k == "set":
        t = "OSet %s %s %s" % (v, cbytes(o["a"]), cbytes(o["x"]))
        r = r or "RNone"
    elif k == "del":
        t = "ODel %s %s" % (v, cbytes(o["a"]))
        r = r or "RNone"
    elif k == "range":
        t = "ORange %s %s %s %s %s" % (v, cbytes(o["a"]), cbytes(o["b"]), zlit(o["l"]), cbool(o["r"]))
        r = r or "RList %s" % kvs(res or [])
    elif k == "iter":
        t = "OIterate %s %s %s %s" % (v, cbytes(o["a"]), zlit(o["l"]), cbool(o["r"]))
        r = r or "RList %s" % kvs(res or [])
    elif k == "snap":
        t = "OSnapshot %s" % v
        r = r or "RId %d" % (res or 0)
    elif k == "restore":
        t = "ORestore %s %d" % (v, o["id"])
        r = r or "RBool %s" % cbool(res)
    elif k == "delsnap":
        t = "ODeleteSnapshot %s %d" % (v, o["id"])
        r = r or "RNone"
    elif k == "view":
        t = "OWithPrefix %s %s" % (v, cbytes(o["a"]))
        r = r or "RNone"
    else:
        raise ValueError(k)
    return "(%s, %s)" % (t, r)


def ops_term(c):
    cm = c["commit"]
    return "(%s, %s, [%s], (%s, %s, %s, %s, %s))" % (
        cbytes(c["root"]), kvs(c["db"]), "; ".join(op_term(o) for o in c["ops"]),
        "[" + "; ".join(cbytes(k) for k in cm["added"]) + "]", kvs(cm["updated"]), kvs(cm["deleted"]),
        kvs(cm["after"]), kvs(cm["reverted"]))


def scan_term(c):
    return "(%s, %d, %s, %s, %s, %s, %s)" % (kvs(c["db"]), c["kind"], cbytes(c["a"]), cbytes(c["b"]), zlit(c["l"]),
                                            cbool(c["r"]), kvs(c["res"]))


def bdb_term(c):
    ops = []
    for o in c["ops"]:
        if o["o"] == "get":
            ops.append("(BGet %s, %s)" % (cbytes(o["a"]), "RVal None" if o.get("res") is None else "RVal (Some %s)" % cbytes(o["res"])))
        elif o["o"] == "set":
            ops.append("(BSet %s %s, RNone)" % (cbytes(o["a"]), cbytes(o["x"])))
        else:
            ops.append("(BDel %s, RNone)" % cbytes(o["a"]))
    return "(%s, %s, [%s], %s)" % (cbytes(c["root"]), kvs(c["db"]), "; ".join(ops), kvs(c["after"] or []))


def ops2_term(c):
    c1, c2 = c["commit"], c["commit2"]
    return "(%s, %s, [%s], (%s, %s, %s, %s), [%s], (%s, %s, %s, %s, %s))" % (
        cbytes(c["root"]), kvs(c["db"]), "; ".join(op_term(o) for o in c["ops"]),
        "[" + "; ".join(cbytes(k) for k in c1["added"]) + "]", kvs(c1["updated"]), kvs(c1["deleted"]), kvs(c1["after"]),
        "; ".join(op_term(o) for o in c["ops2"]),
        "[" + "; ".join(cbytes(k) for k in c2["added"]) + "]", kvs(c2["updated"]), kvs(c2["deleted"]), kvs(c2["after"]),
        kvs(c2["reverted"]))


def two_term(c):
    return "(%s, %s, %s, [%s], %s, %s)" % (
        cbytes(c["roots"][0]), cbytes(c["roots"][1]), kvs(c["db"]),
        "; ".join("(%d, %s)" % (o.get("d", 0), op_term(o)) for o in c["ops"]),
        kvs(c["commits"][0]["after"]), kvs(c["commits"][1]["after"]))


def strip_obs(c):
    """the input part of a case (what a replay needs)"""
    c = json.loads(json.dumps(c))
    c.pop("close", None)
    if c["k"] in ("ops", "ops2", "two"):
        for o in c["ops"] + c.get("ops2", []):
            o.pop("res", None)
        c.pop("commit", None)
        c.pop("commit2", None)
        c.pop("commits", None)
        c.pop("panic", None)
    elif c["k"] == "bdb":
        for o in c["ops"]:
            o.pop("res", None)
        c.pop("after", None)
        c.pop("panic", None)
    else:
        c.pop("res", None)
    return c


SCAN_NAMES = {0: "IterateRange", 1: "Iterate", 2: "IterateKey"}


def evaluate(ck, recs):
    kc = ck.extra.setdefault("evaluated_by_kind", {})
    for r in recs:
        kc["emitted:" + r["k"]] = kc.get("emitted:" + r["k"], 0) + 1
    ops = [r for r in recs if r["k"] == "ops"]
    scans = [r for r in recs if r["k"] == "scan"]
    for c in recs:
        if c.get("close"):
            f = dict(kind="input", key="c12:close:%s:%s" % (c["close"], c["k"]),
                     what="DB.Close after the case reported %s (an iterator opened by a scan was never closed): %s" % (
                         c["close"], json.dumps(strip_obs(c))),
                     case=strip_obs(c), observed=c["close"], theorem_or_correspondence="pkg/db scans close their iterators")
            f["spec_violated"] = True
            ck.failures.append(f)
    for c in recs:
        for cm in [c.get("commit"), c.get("commit2")] + list(c.get("commits") or []):
            if cm and cm.get("codec_ok") is False:
                f = dict(kind="history", key="c12:commit:diff-codec",
                         what="Decode(Encode(diff)) lost entries of the diff returned by Commit: %s" % json.dumps(strip_obs(c)),
                         case=strip_obs(c), observed=cm, theorem_or_correspondence="diff codec round trip (C08)")
                f["spec_violated"] = True
                ck.failures.append(f)
            if cm and cm.get("dry_ok") is False:
                f = dict(kind="history", key="c12:commit:dry-run-differs",
                         what="a dry-run Commit (batch never written) followed by the real Commit returned different diffs: %s" % json.dumps(strip_obs(c)),
                         case=strip_obs(c), observed=cm, theorem_or_correspondence="Commit is a pure function of the staged state")
                f["spec_violated"] = True
                ck.failures.append(f)
    good = []
    for c in ops:
        if c.get("panic") or not c.get("commit") or c["commit"].get("reverted") is None:
            ck.count()
            f = dict(kind="history", key="c12:panic:%s" % (c.get("panic") or "commit"),
                     what="diffdb panicked / failed during %s on %s" % (c.get("panic"), json.dumps(strip_obs(c))),
                     case=strip_obs(c), theorem_or_correspondence="Corr.C12.check_ops (no panic)", observed=c.get("panic"))
            f["spec_violated"] = True
            ck.failures.append(f)
        else:
            good.append(c)
    ro = ck.coq_eval(IMPORTS, "ops_case", "check_ops", [ops_term(c) for c in good], shard=120, tag="ops")
    rs = ck.coq_eval(IMPORTS, "scan_case", "check_scan", [scan_term(c) for c in scans], shard=400, tag="scan")
    # continued use after Commit, and two roots over one store
    for kind, termf, typ, fn, what in (("ops2", ops2_term, "ops2_case", "check_ops2", "continued use of a diffdb.Database after Commit"),
                                       ("two", two_term, "two_case", "check_two", "two diffdb roots over one store")):
        cs = [r for r in recs if r["k"] == kind]
        okc = []
        for c in cs:
            done = (c.get("commit2") and c["commit2"].get("reverted") is not None) if kind == "ops2" else (len(c.get("commits") or []) == 2)
            if c.get("panic") or not done:
                ck.count()
                f = dict(kind="history", key="c12:panic:%s:%s" % (kind, c.get("panic") or "commit"),
                         what="%s: diffdb panicked / failed (%s) on %s" % (what, c.get("panic"), json.dumps(strip_obs(c))),
                         case=strip_obs(c), theorem_or_correspondence="Corr.C12.%s (no panic)" % fn, observed=c.get("panic"))
                f["spec_violated"] = True
                ck.failures.append(f)
            else:
                okc.append(c)
        rk = ck.coq_eval(IMPORTS, typ, fn, [termf(c) for c in okc], shard=100, tag=kind)
        phase1 = {}
        if rk is not None and kind == "ops2":
            badc = [c for c, code in zip(okc, rk) if code >= 2]
            p1 = ck.coq_eval(IMPORTS, typ, "ops2_phase1", [termf(c) for c in badc], shard=100, tag="ops2p1") or [1] * len(badc)
            phase1 = {id(c): v for c, v in zip(badc, p1)}
        if rk is not None:
            kc[kind] = kc.get(kind, 0) + len(rk)
            for c, code in zip(okc, rk):
                ck.count()
                ck.nontrivial((kind, json.dumps(strip_obs(c), sort_keys=True)))
                if code != 0:
                    spec_bad = code >= 2
                    sub = ""
                    if kind == "ops2" and spec_bad:
                        # the known key only when the implementation AGREES WITH THE MODEL (code 2 exactly) and everything before the
                        # first Commit satisfies the oracle; a case that also differs from the model (code 3) is a different failure
                        if code == 2 and phase1.get(id(c)) == 0:
                            sub = ":after-commit"
                        elif code == 2:
                            sub = ":before-commit"
                        else:
                            sub = ":and-differs-from-model"
                    f = dict(kind="history", key="c12:%s:%s%s" % (kind, "spec" if spec_bad else "model", sub),
                             what="%s: implementation %s on %s" % (what, "violates the staged-map oracle" if spec_bad
                                                                  else "differs from the proved model", json.dumps(strip_obs(c))),
                             case=strip_obs(c), observed=c, theorem_or_correspondence="Corr.C12.%s vs diffdb.Database" % fn)
                    f["spec_violated"] = spec_bad
                    ck.failures.append(f)
    bdbs = [r for r in recs if r["k"] == "bdb"]
    for c in bdbs:
        if c.get("panic"):
            f = dict(kind="history", key="c12:panic:batchdb", what="batchdb panicked: %s" % json.dumps(strip_obs(c)),
                     case=strip_obs(c), theorem_or_correspondence="Corr.C12.check_bdb (no panic)", observed=c.get("panic"))
            f["spec_violated"] = True
            ck.failures.append(f)
    okb = [c for c in bdbs if not c.get("panic")]
    rb = ck.coq_eval(IMPORTS, "bdb_case", "check_bdb", [bdb_term(c) for c in okb], shard=200, tag="bdb")
    if rb is not None:
        kc["bdb"] = kc.get("bdb", 0) + len(rb)
        for c, code in zip(okb, rb):
            ck.count()
            if any(o["o"] != "get" for o in c["ops"]) and any(o["o"] == "get" and o.get("res") for o in c["ops"]):
                ck.nontrivial(("bdb", json.dumps(strip_obs(c), sort_keys=True)))
            if code != 0:
                spec_bad = code >= 2
                f = dict(kind="history", key="c12:batchdb:%s" % ("spec" if spec_bad else "model"),
                         what="batchdb: implementation %s on %s" % (
                             "violates 'reads = database, written batch = overlay specification'" if spec_bad
                             else "differs from the proved model", json.dumps(strip_obs(c))),
                         case=strip_obs(c), observed=c, theorem_or_correspondence="Corr.C12.check_bdb vs batchdb.Database")
                f["spec_violated"] = spec_bad
                ck.failures.append(f)
    bad_ops = []
    if ro is not None:
        kc["ops"] = kc.get("ops", 0) + len(ro)
        for c, code in zip(good, ro):
            ck.count()
            kinds = [o["o"] for o in c["ops"]]
            wrote = False
            nt = False
            for o in c["ops"]:
                if o["o"] in ("set", "del"):
                    wrote = True
                if wrote and o["o"] in ("range", "iter") and o.get("res"):
                    nt = True
                if o["o"] == "restore" and o.get("res") is True:
                    nt = True
            if nt:
                ck.nontrivial(("ops", json.dumps(strip_obs(c), sort_keys=True)))
            for kd in kinds:
                ck.extra.setdefault("op_kinds", {}).setdefault(kd, 0)
                ck.extra["op_kinds"][kd] += 1
            if code != 0:
                bad_ops.append((c, code))
    if bad_ops:
        terms = [ops_term(c) for c, _ in bad_ops[:40]]
        dm = ck.coq_eval(IMPORTS, "ops_case", "diag_ops", terms, shard=120, tag="diag_m") or [9999] * len(terms)
        ds = ck.coq_eval(IMPORTS, "ops_case", "diag_ops_spec", terms, shard=120, tag="diag_s") or [9999] * len(terms)
        for (c, code), im, isp in zip(bad_ops[:40], dm, ds):
            spec_bad = code >= 2
            ix = isp if spec_bad else im
            if ix < len(c["ops"]):
                o = c["ops"][ix]
                where = o["o"]
                detail = "operation #%d %s" % (ix, json.dumps(o))
            else:
                where = {1000: "commit-diff", 1001: "commit-writes", 1002: "revert-diff"}.get(ix, "unknown")
                detail = where
            f = dict(kind="history", key="c12:%s:%s" % (where, "spec" if spec_bad else "model"),
                     what="diffdb %s: implementation %s at %s; case %s" % (
                         where, "differs from the database-with-staged-writes-applied specification" if spec_bad
                         else "differs from the proved model (specification still satisfied)", detail, json.dumps(strip_obs(c))),
                     case=strip_obs(c), observed=c, theorem_or_correspondence="Corr.C12.check_ops vs diffdb.Database")
            f["spec_violated"] = spec_bad
            ck.failures.append(f)
    if rs is not None:
        kc["scan"] = kc.get("scan", 0) + len(rs)
        for c, code in zip(scans, rs):
            ck.count()
            if c["res"]:
                ck.nontrivial(("scan", json.dumps(strip_obs(c), sort_keys=True)))
            if code != 0:
                spec_bad = code >= 2
                name = SCAN_NAMES[c["kind"]] + (".reverse" if c["r"] else ".forward")
                f = dict(kind="input", key="c12:scan:%s:%s" % (name, "spec" if spec_bad else "model"),
                         what="db.%s(%s) on %s: implementation %s: %s" % (
                             name, c["src"], json.dumps(strip_obs(c)),
                             "does not return exactly the keys inside the bounds in order" if spec_bad
                             else "differs from the proved model", json.dumps(c["res"])),
                         case=strip_obs(c), observed=c["res"], theorem_or_correspondence="Corr.C12.check_scan vs pkg/db scans")
                f["spec_violated"] = spec_bad
                ck.failures.append(f)
    return ro, rs


def run(ck):
    ck.prove(extra_targets=["Corr/C12.vo"])
    binp = ck.go_build("c12")
    if not binp:
        return
    corpus = os.path.join(ROOT, "corpus", "C12")
    if ck.tier == "quick":
        args = ["-ops", "1200", "-scan", "1500", "-bdb", "300", "-two", "150", "-len", "22"]
    else:
        args = ["-ops", "20000", "-scan", "30000", "-bdb", "5000", "-two", "3000", "-len", "40"]
    if os.path.isdir(corpus):
        args += ["-corpus", corpus]
    recs = ck.run_harness(binp, args)
    if recs is None:
        return
    evaluate(ck, recs)
    # floors per kind of case, well below what the generator flags give by construction (quick: -ops 1200 of which about one
    # in six becomes ops2, -scan 1500, -bdb 300, -two 150, plus the corpus): a generator or evaluator that silently yields
    # nothing of a kind is an undischarged obligation
    kc = ck.extra.get("evaluated_by_kind", {})
    q = ck.tier == "quick"
    for kind, least in (("ops", 800 if q else 12000), ("ops2", 100 if q else 1500), ("scan", 1200 if q else 24000),
                        ("bdb", 200 if q else 4000), ("two", 100 if q else 2400)):
        ck.obligations += 1
        if kc.get(kind, 0) >= least:
            ck.discharged += 1
        else:
            ck.fail_obligation("floor:" + kind, "coverage floor not met: %d evaluated cases of kind %s, at least %d expected" % (
                kc.get(kind, 0), kind, least))
    for r in [x for x in recs if x["k"] == "ops"][:2] + [x for x in recs if x["k"] == "scan"][:2]:
        ck.sample(strip_obs(r))
    ck.cov["rule"] = ("ops: random sequences of get/has/set/del/range/iterate/snapshot/restore/delete-snapshot/with-prefix over up to "
                      "7 views (a tree: siblings off derived views) on keys over the alphabet {00,61,ff} of length 0-3 (limits -2..5, both directions), then Commit, "
                      "write, RevertDiff through the codec, write; non-trivial = a non-empty range/iterate read after a staged "
                      "write, or a successful restore; distinct by the whole input. scans: random IterateRange/Iterate/IterateKey "
                      "on DB or Reader; non-trivial = non-empty result; distinct by input. corpus/C12 replays run first.")
    ck.extra["traces_validated_against_impl"] = len(recs)
    ck.assume += ["pebble iterators obey sorted-map semantics with [LowerBound, UpperBound) bounds (sampled by the scan cases)",
                  "byte strings are immutable values in the model; sharing with caller memory is probed by overwriting every buffer after each call",
                  "the store under a diffdb.Database is not modified between the first staged read and Commit"]
    if ck.tier == "thorough":
        ck.coqchk(["LE.Properties.C12"])


def replay(ck, path):
    doc = json.load(open(path)) if not path.endswith(".jsonl") else {"input": None, "jsonl": os.path.abspath(path)}
    if doc.get("jsonl"):
        inp = doc["jsonl"]
    else:
        case = doc.get("input")
        if not case:
            print("replay names a broken obligation, no input: %s" % doc.get("what"))
            run(ck)
            return ck.finish(LEVEL)
        inp = os.path.join(ck.work, "replay_in.jsonl")
        open(inp, "w").write(json.dumps(case) + "\n")
    binp = ck.go_build("c12")
    if not binp:
        return ck.finish(LEVEL)
    recs = ck.run_harness(binp, ["-in", inp], out_name="replay.jsonl")
    if recs is not None:
        evaluate(ck, recs)
        print("replayed: %s" % json.dumps(recs)[:4000])
    return ck.finish(LEVEL)
