"""C06 — certificates: aggregate commits are sound, bounded and self-consistent."""
import json
import os
from core import cN, cbool, clist, cbytes

LEVEL = "proof"
READY = True
MANIFEST = {
    "technique": "Coq proof on Gallina model of verifyAggregateCommit / GetAggregateCommit / SingleCommits.Aggregate / "
                 "singleCommitValidator / Certify / certificate.Pool (BLS as a Section oracle) + differential correspondence "
                 "with real BLS keys through verif hooks, evaluated in Coq against the model and a declarative oracle",
    "text": "Theorems (all validator sets, weights, thresholds, heights, bitmaps, signatures; unbounded): an accepted aggregate "
            "commit is either the empty commit at maxHeightCertified or a valid BLS aggregate, by exactly the validators of "
            "that height selected by the bitmap in ascending BLS-key order, over the certificate of the node's own block at "
            "that height, with true (unwrapped) weight >= that height's certificate threshold, maxHeightCertified < h <= "
            "maxHeightPrecommitted and h <= nextParamsHeight-1; every commit GetAggregateCommit assembles from a pool of valid, "
            "duplicate-free single commits is accepted by verifyAggregateCommit (any signer subset, any chain position incl. the "
            "first 100 heights); singleCommitValidator/Certify/Cleanup/Select/Upgrade keep the pool valid and duplicate-free and "
            "admit only commits by an active validator of that height whose signature verifies against the own block's "
            "certificate. Tie: scenarios built with the real liskbft module and Chain; every signer subset (n<=5) at heights "
            "around maxHeightCertified / maxHeightPrecommitted / next parameter change, every single-bit / height / signature "
            "tampering, random gossip/Certify/pool operation sequences with GetAggregateCommit output fed back into verify.",
    "note": "BLS is idealised: FastAggregateVerify/BLSVerify/aggregation enter the theorems as Section variables with one "
            "completeness hypothesis (the aggregate of valid single signatures verifies under any permutation of their keys); the "
            "correspondence instantiates them by the ideal functionality on symbolic signatures while the Go side uses real BLS. "
            "Hypotheses of assemble_accepts: validator addresses and BLS keys pairwise distinct within a parameter set; the "
            "node certifies with the BLS key registered for its address. "
            "Reorgs are covered: pool operations interleaved with applied and deleted blocks (reachable_chain), tied by a scenario on "
            "the full Executer (apply, admit, delete, sibling, finalise, assemble, verify). Four defects repaired in /repo (fix: commits), "
            "see findings/C06.json.",
}
IMPORTS = "From LE Require Import Cert.Bits Cert.AggCommit Cert.Pool Corr.C06."

VCODE = {"accept": 0, "emptyfield": 1, "notincreasing": 2, "aboveprecommitted": 3, "abovenext": 4, "noheader": 5,
         "noparams": 6, "invalid": 7, "panic": 8}


def cert(c):
    return "(Build_cert %d %d %d %d %d)" % tuple(c)


def sig(s):
    if s["k"] == "e":
        return "CEmpty"
    if s["k"] == "b":
        return "CBad"
    return "(CSig %s)" % clist(s.get("p") or [], lambda p: "(%d, %s)" % (p[0], cert(p[1:])))


def commit(c):
    return "(Build_single_commit %d %d %d %s %s)" % (c["b"], c["h"], c["a"], sig(c["s"]), cbool(c["i"]))


def commits(cs):
    return clist(cs or [], commit)


def ac(a):
    return "(Build_agg_commit %d %s %s)" % (a["h"], clist(a["bits"]), sig(a["s"]))


def op_term(o):
    t = o["t"]
    pool = "%s %s" % (commits(o.get("pg")), commits(o.get("png")))
    if t == "v":
        return "(OVerify %s %d)" % (ac(o["ac"]), VCODE.get(o["r"], 99))
    if t == "s":
        if o.get("undecodable"):
            m = "None"
        else:
            m = "(Some %s)" % clist(o.get("msg") or [], lambda c: "(%s, %s)" % (commit(c), cbool(c["wf"])))
        return "(OScv %s %s %s)" % (m, cbool(o.get("r") == "reject"), pool)
    if t == "a":
        return "(OAdd %s %s)" % (commit(o["msg"][0]), pool)
    if t == "aa":
        return "(OAddMany %s %s)" % (commits(o.get("msg")), pool)
    if t == "c":
        return "(OCertify %d %d %d %d %s %s)" % (o.get("from", 0), o.get("to", 0), o["addr"], o.get("key", 0), cbool(o.get("err", False)), pool)
    if t == "g":
        g = o["g"]
        res = "None" if g.get("k") != "ok" else "(Some %s)" % ac(g["ac"])
        ek = {"ok": 0, "err:params": 1, "err:agg": 2}.get(g.get("k"), 3)
        return "(OGac %s %d %d %s)" % (res, ek, VCODE.get(g.get("v"), 99), pool)
    if t == "cl":
        return "(OCleanup %s %s)" % (clist(o.get("keep") or []), pool)
    if t == "se":
        return "(OSelect %d %d%%nat %s %s)" % (o.get("mhp", 0), o["limit"], commits(o.get("sel")), pool)
    if t == "bc":
        return "(OBroadcast %s)" % pool
    if t == "u":
        return "(OUpgrade %s %s)" % (commits(o.get("sel")), pool)
    raise ValueError(t)


def params_term(ps):
    return clist(ps, lambda p: "(%d, Build_params %s %d)" % (
        p["h"], clist(p["v"], lambda v: "(Build_validator %d %d (nth %d kt []))" % (v["a"], v["w"], v["k"])), p["t"]))


def scenario_term(r):
    kt = clist(r["keytab"], cbytes)
    chain = clist(r["chain"], lambda h: "(%d, Build_header %s %d)" % (h["h"], cert(h["c"]), h["ac"]))
    env = "(Build_env %d %d %s %s)" % (r["mhp"], r["mhc"], params_term(r["params"]), chain)
    pool0 = "(%s, %s)" % (commits(r.get("pg0")), commits(r.get("png0")))
    return "(let kt := %s in (kt, %s, %s, %s, %s))" % (kt, env, params_term(r["sched"]), pool0, clist(r["ops"], op_term))


def split(r, chunk=150):
    """one scenario -> several Coq cases: verify ops are independent; pool ops stay one sequence"""
    vops = [o for o in r["ops"] if o["t"] == "v"]
    pops = [o for o in r["ops"] if o["t"] != "v"]
    out = []
    for i in range(0, len(vops), chunk):
        out.append(dict(r, ops=vops[i:i + chunk], part="v%d" % (i // chunk)))
    if pops:
        out.append(dict(r, ops=pops, part="pool"))
    return out


def evaluate(ck, recs):
    parts = []
    for r in recs:
        if not r.get("msgok", False):
            ck.failures.append(dict(kind="input", key="c06:msg:spec", spec_violated=True, case={"scenario": r["id"], "phase": r.get("phase")},
                                    what="Certificate.Sign/Verify do not use the LIP certificate message SHA-256('LSK_CE_' || chainID || encode(blockID, height, timestamp, stateRoot, validatorsHash)): the signature the implementation produces differs from the independently computed one (scenario %d)" % r["id"],
                                    theorem_or_correspondence="msg_of (Section variable) vs Certificate.SigningBytes/Sign"))
        if any(o.get("panic") for o in r["ops"]):
            o = [o for o in r["ops"] if o.get("panic")][0]
            ck.fail_case("c06:panic:%s" % o["t"], "certificate code panicked (%s) in scenario %d on %s" % (
                o["panic"], r["id"], json.dumps(o)[:600]), {"scenario": r["id"], "op": o})
        parts.extend(split(r))
    res = ck.coq_eval(IMPORTS, "scenario", "check_scenario", [scenario_term(p) for p in parts], shard=1, tag="scn")
    if res is None:
        return
    for p, code in zip(parts, res):
        for o in p["ops"]:
            ck.count()
            t = o["t"]
            if t == "s" and o.get("r") not in ("reject", "ignore"):
                ck.failures.append(dict(kind="input", key="c06:s:model", spec_violated=False, case={"scenario": p["id"], "op": o},
                                        what="singleCommitValidator answered %r (the model knows only Reject and Ignore: the commits are republished from the pool, never by gossipsub)" % o.get("r"),
                                        theorem_or_correspondence="Cert.Pool.single_commit_validator vs singleCommitValidator"))
            if t == "v":
                ck.nontrivial(("v", o["tag"], o["r"], len(o["ac"]["bits"]), tuple(o["ac"]["bits"]), o["ac"]["h"] - p["mhc"], o["ac"]["h"] - p["mhp"]))
            elif t == "g":
                a = o["g"].get("ac")
                if a and a["bits"]:
                    ck.nontrivial(("g", p["id"], p.get("phase", 0), a["h"], tuple(a["bits"])))
            elif t in ("s", "c"):
                ck.nontrivial((t, p["id"], p.get("phase", 0), o.get("r"), len(o.get("png") or []), len(o.get("pg") or []), o.get("from"), o.get("to")))
        if code == 0:
            continue
        ix, c = code // 4, code % 4
        if ix >= len(p["ops"]):
            ck.failures.append(dict(kind="input", key="c06:mhc:spec", spec_violated=True,
                                    case={"scenario": p["id"], "phase": p.get("phase", 0), "mhc": p["mhc"], "chain_ac": [h["ac"] for h in p["chain"]][-12:]},
                                    what="maxHeightCertified in the node's store (%d) is not the largest aggregate-commit height carried by the chain's headers "
                                         "(scenario %d phase %d)" % (p["mhc"], p["id"], p.get("phase", 0)),
                                    theorem_or_correspondence="Corr.C06.check_scenario (e_mhc cross-check)"))
            continue
        o = p["ops"][ix]
        spec_bad = c >= 2
        names = {"v": "verifyAggregateCommit", "s": "singleCommitValidator", "c": "Certify", "g": "GetAggregateCommit->verifyAggregateCommit",
                 "a": "Pool.Add", "aa": "Pool.Add", "cl": "Pool.Cleanup", "se": "Pool.Select", "u": "Pool.Upgrade", "bc": "broadcastCertificate"}
        kind = o["t"] + (":" + o.get("tag", "") if o["t"] == "v" else "")
        what = "%s: implementation %s (scenario %d phase %d part %s op %d): %s" % (
            names[o["t"]], "violates the C06 oracle" if spec_bad else "differs from the proved model", p["id"], p.get("phase", 0), p["part"], ix,
            json.dumps(o)[:900])
        f = dict(kind="input", key="c06:%s:%s" % (kind, "spec" if spec_bad else "model"), what=what,
                 case={"scenario": p["id"], "part": p["part"], "op_index": ix, "op": o, "mhp": p["mhp"], "mhc": p["mhc"],
                       "params": p["params"], "seed": ck.seed},
                 spec_violated=spec_bad, theorem_or_correspondence="Corr.C06.check_scenario vs " + names[o["t"]])
        ck.failures.append(f)


def reorg(ck):
    """reorg scenarios on the full Executer (harness/internal/exh): a commit for a block that is then deleted and replaced"""
    binp = ck.go_build("c06reorg")
    if not binp:
        return
    recs = ck.run_harness(binp, ["-cases", "3" if ck.tier == "quick" else "40"], out_name="reorg.jsonl")
    if recs is None:
        return
    for r in recs:
        ck.count()
        ck.nontrivial(("reorg", r["len"], r["stale_signer"], tuple(r["honest_signers"]), r["verify"][:6]))
        if not r["stale_admitted"]:
            ck.fail_case("c06:reorg:setup", "reorg scenario: the commit for the non-finalised parameter-change block was not admitted "
                         "(scenario no longer exercises the reorg path): %s" % json.dumps(r)[:600], r)
        if len(r["honest_signers"]) == 4 and (r["agg_height"] != r["h"] or r["bits"] != [15]):
            ck.failures.append(dict(kind="input", key="c06:reorg:spec", spec_violated=True, case=r,
                                    what="reorg scenario with all four validators certifying the sibling: GetAggregateCommit did not assemble the "
                                         "certificate of height %d with all four bits (got height %s bits %s): %s" % (r["h"], r["agg_height"], r["bits"], json.dumps(r)[:500]),
                                    theorem_or_correspondence="C06_assemble_accepts_across_reorgs vs Executer (exh)"))
        if r["verify"] != "accept":
            ck.failures.append(dict(kind="input", key="c06:reorg:spec", spec_violated=True, case=r,
                                    what="GetAggregateCommit after a reorg: the node's own verifyAggregateCommit rejects the commit it assembled "
                                         "(a single commit for the deleted block is still in the pool: %s): %s" % (r["stale_left_after_reorg"], json.dumps(r)[:700]),
                                    theorem_or_correspondence="C06_assemble_accepts_across_reorgs vs Executer (exh)"))
        elif r["stale_left_after_reorg"]:
            ck.failures.append(dict(kind="input", key="c06:reorg:model", spec_violated=False, case=r,
                                    what="deleteBlock left a commit for the deleted block in the pool (model: on_delete_block purges it): %s" % json.dumps(r)[:600],
                                    theorem_or_correspondence="Cert.Pool.on_delete_block vs Executer.deleteBlock"))
    ck.sample(recs[0])


def run(ck):
    ck.prove(extra_targets=["Corr/C06.vo"])
    binp = ck.go_build("c06")
    if not binp:
        return
    if ck.tier == "quick":
        args = ["-scenarios", "11", "-long", "3", "-poolops", "36", "-phases", "2", "-big", "4"]
    else:
        args = ["-scenarios", "46", "-long", "10", "-poolops", "150", "-phases", "4", "-big", "10"]
    recs = ck.run_harness(binp, args)
    if recs is None:
        return
    evaluate(ck, recs)
    reorg(ck)
    r0 = recs[0]
    for o in [x for x in r0["ops"] if x["t"] == "v" and x["r"] == "accept"][:1] + [x for x in r0["ops"] if x["t"] == "v" and x["tag"] == "bitflip"][:1] + \
            [x for x in r0["ops"] if x["t"] == "g" and x["g"].get("ac") and x["g"]["ac"]["bits"]][:1] + [x for x in r0["ops"] if x["t"] == "s"][:1]:
        ck.sample({"scenario": r0["id"], "mhp": r0["mhp"], "mhc": r0["mhc"], "op": o})
    ck.cov["rule"] = ("scenarios = chains built with the real liskbft module (random validator sets of 1..5 real BLS keys, random weights / "
                      "thresholds; validator sets of 8, 9, 16, 17, 20, ... , 103 keys with sampled signer subsets covering every bitmap byte; 0..4 parameter changes incl. adjacent ones, chains shorter and longer than 100 blocks, certified height "
                      "moved by aggregate commits in headers). Per scenario: verify on empty commits and on honest commits of EVERY signer "
                      "subset at every height of a sweep around maxHeightCertified, maxHeightPrecommitted, the next parameter height and the "
                      "tip; every single-bit flip, bitmap length change, every other sweep height, and six signature tamperings of accepted "
                      "commits; pools filled with every non-empty signer subset then GetAggregateCommit -> verify; random sequences of gossip "
                      "messages (valid/invalid/duplicate/undecodable; on long chains two-commit messages straddling a validator-set change, both orders), Certify ranges, Cleanup/Select/Upgrade, GetAggregateCommit; then the history goes "
                      "on in further phases: 1-9 more blocks (finality and certified height move, further parameter changes), the pool carried "
                      "over, more pool operations under the new view; plus reorg scenarios on the full Executer. "
                      "Non-trivial/distinct: verify ops distinct by (kind, result, bitmap, height relative to the two BFT heights); "
                      "non-empty assembled commits distinct by (scenario, height, bitmap); gossip/Certify ops distinct by outcome and pool size")
    ck.extra["traces_validated_against_impl"] = len(recs)
    ck.assume += ["BLS idealised: real signatures are mapped to symbols (key, certificate) by the harness; the ideal functionality decides the model side",
                  "addresses, block IDs, state roots are compared with bytes.Equal only; the model uses injective integer codes",
                  "sort.Slice on pairwise distinct BLS keys has a unique result (insertion sort in the model); SingleCommits.Sort is compared only below 12 elements"]
    if ck.tier == "thorough":
        ck.coqchk(["LE.Properties.C06"])


def replay(ck, path):
    doc = json.load(open(path))
    case = doc.get("input")
    if not case:
        print("replay names a broken obligation, no input: %s" % doc.get("what"))
    else:
        print("replaying seed %s (scenarios are regenerated from the seed); failing op was: %s" % (case.get("seed"), json.dumps(case.get("op"))[:600]))
        ck.seed = int(case.get("seed", ck.seed))
    run(ck)
    return ck.finish(LEVEL)
