"""C05 — deleting the tip block restores the exact previous node state (blockchain + diffdb level)."""
import json
import os
from core import cbytes, cbool, ROOT
from props.c12 import kvs, zlit

LEVEL = "proof"
READY = True
MANIFEST = {
    "technique": "Coq proof on Gallina models of diffdb commit/RevertDiff and of saveBlock/removeBlock write sets + differential "
                 "correspondence on the real Chain/DataAccess/diffdb over in-memory pebble, evaluated in Coq",
    "text": "Theorems: for every database and every staged operation sequence the batch written by Commit followed by the batch "
            "of RevertDiff(decode(encode(diff))) is the identity on the database, as a list (byte for byte; keys created, "
            "overwritten and deleted in one block included; the codec round trip is a section hypothesis discharged under C08); "
            "the returned diff classifies exactly the changed keys (added/updated/deleted, previous values); removeBlock inverts "
            "saveBlock and the whole deleteBlock batch inverts the whole processBlock batch on every key outside the enumerated "
            "exceptions (finalized-height marker, temp-block records, event records pruned by saveBlock, diff records pruned on "
            "finalisation), for fresh block/transaction ids, and so does every well-bracketed history of any number of apply/remove "
            "steps (each delete decoding the diff record found in the current database); a removed block is stored as temp block; reorg confluence with block "
            "execution as an adaptive program: apply B, delete B, execute+apply B' reads the same values and ends in the same "
            "database outside B's exceptions as executing B' directly; the cached tip equals the database tip after any add/remove "
            "sequence. Tie: random histories of apply/delete (blocks with/without txs, assets, events, staged "
            "consensus-store ops, finality advances, temp flags, reorgs, re-applies) on the real code; every step's full DB dump is "
            "compared in Coq with the model batch, every delete with the dump before the matching apply (oracle).",
    "note": "Stays at blockchain+diffdb level (the harness mirrors Executer.processBlock/deleteBlock from Commit on; the full "
            "Executer is C03/C04/C13). Hypotheses made explicit: transaction ids of the block are fresh (removeBlock deletes "
            "txID->tx unconditionally; histories that reuse a stored transaction are excluded from the oracle and only "
            "model-checked), deletes at or below the finalized height are outside the property. Fixed in /repo: block cache ran "
            "empty after more removals than cached blocks (nil tip, nil dereference). Opaque encodings are interned injectively "
            "before evaluation in Coq.",
}
IMPORTS = ("From LE Require Import Base.Lex Store.SMap Store.PebbleIter Store.DiffDB Store.DiffDBSpec Chain.BlockStore "
           "Corr.C12 Corr.C05.")

OPAQUE_PREFIXES = ("03", "06", "07", "08", "09", "33")


class Interner:
    def __init__(self):
        self.t = {}

    def v(self, hexval):
        if hexval not in self.t:
            self.t[hexval] = len(self.t)
        return "[%d]" % self.t[hexval]


def dump_term(it, d):
    out = []
    for k, v in d:
        out.append("(%s, %s)" % (cbytes(k), it.v(v) if k[:2] in OPAQUE_PREFIXES else cbytes(v)))
    return "[" + "; ".join(out) + "]"


def blk_term(it, b):
    txs = "[" + "; ".join("(%s, %s)" % (cbytes(t[0]), it.v(t[1])) for t in b["txs"]) + "]"
    assets = "None" if b["assets"] is None else "(Some %s)" % it.v(b["assets"])
    return "(Build_blk %s %d %s %s %s %s)" % (cbytes(b["id"]), b["height"], it.v(b["header"]), txs, assets, it.v(b["block"]))


def optN(x):
    return "None" if x is None else "(Some %d)" % x


def diff_term(d):
    return "(%s, %s, %s)" % ("[" + "; ".join(cbytes(k) for k in d["added"]) + "]", kvs(d["updated"]), kvs(d["deleted"]))


def varint(b, i):
    sh = 0
    n = 0
    while True:
        c = b[i]
        i += 1
        n |= (c & 0x7f) << sh
        sh += 7
        if c < 0x80:
            return n, i


def fields(b):
    i = 0
    out = []
    while i < len(b):
        tag, i = varint(b, i)
        ln, i = varint(b, i)
        out.append((tag >> 3, b[i:i + ln]))
        i += ln
    return out


def decode_diff(hexval):
    """independent decoder of diffdb.Diff (lisk codec = protobuf wire format, length-delimited fields only)"""
    d = {"added": [], "updated": [], "deleted": []}
    for fn, data in fields(bytes.fromhex(hexval)):
        if fn == 1:
            d["added"].append(data.hex())
        else:
            kv = dict(fields(data))
            d["updated" if fn == 2 else "deleted"].append([kv.get(1, b"").hex(), kv.get(2, b"").hex()])
    return d


def db_tip(dump):
    best = None
    for k, v in dump:
        if k[:2] == "04" and len(k) == 10:
            best = (int(k[2:], 16), v)
    return best


def min_event_delete(fh, h, keep):
    if keep <= -1:
        return None
    m = min(fh, max(0, h - keep))
    return m if m > 0 else None


def step_inputs(st):
    """what a replay needs"""
    s = {k: v for k, v in st.items() if k not in ("pre", "post")}
    return s


def hist_inputs(r):
    r = json.loads(json.dumps(r))
    r["steps"] = [step_inputs(s) for s in r["steps"]]
    return r


def evaluate(ck, recs):
    apply_terms, delete_terms, restore_terms = [], [], []
    apply_ctx, delete_ctx, restore_ctx = [], [], []
    stats = ck.extra.setdefault("step_kinds", {})

    def bump(k):
        stats[k] = stats.get(k, 0) + 1

    def fail(key, what, r, ix, spec=True, observed=None, corr="C05 oracle"):
        f = dict(kind="history", key=key, what=what, case={"history": hist_inputs(r), "step": ix}, observed=observed,
                 theorem_or_correspondence=corr)
        f["spec_violated"] = spec
        ck.failures.append(f)

    for r in recs:
        it = Interner()
        keep = r["keep"]
        spans = []      # open applies: dict(pre, tip, ev, dfb, temps, dup, ix)
        blocks = []     # mirror of the harness' applied stack (without genesis)
        in_domain = True
        if r.get("close_err"):
            fail("c05:close:%s" % r["close_err"], "DB.Close after the history reported %s" % r["close_err"], r, -1)
        for ix, st in enumerate(r["steps"]):
            ck.count()
            op = st["op"]
            ok = st.get("err") is None and not st.get("panic")
            bump("%s:%s" % (op, "ok" if ok else (st.get("panic") and "panic:" + st["panic"]) or st.get("err")))
            if op == "delete" and spans and spans[-1]["dup"]:
                in_domain = False     # undoing a block that reused a stored transaction: freshness hypothesis violated
            if st.get("panic"):
                if in_domain:
                    fail("c05:panic:%s:%s" % (op, st["panic"]), "%s step panicked at %s" % (op, st["panic"]), r, ix, observed=st["panic"])
                continue
            tip = st.get("tip_after")
            dbt = db_tip(st["post"])
            if in_domain and dbt is not None and (tip is None or tip["height"] != dbt[0] or tip["id"] != dbt[1]):
                fail("c05:tip:%s" % ("cache-empty" if tip is None else "cache-differs"),
                     "after %s step #%d the cached tip %s differs from the database tip %s" % (op, ix, json.dumps(tip), dbt), r, ix,
                     observed=tip)
            if not ok:
                if st["pre"] != st["post"] and in_domain:
                    fail("c05:%s:failed-step-changed-db:%s" % (op, st.get("err")),
                         "%s step #%d returned %s but changed the database" % (op, ix, st.get("err")), r, ix)
                continue
            if op == "apply":
                b = st["blk"]
                h = b["height"]
                if st.get("dup_tx"):
                    in_domain_span = False
                else:
                    in_domain_span = True
                denc = dict(map(tuple, st["post"])).get("33%08x" % h, "")
                staged = []
                for o in st["staged"]:
                    if o[0] == "set":
                        staged.append("OSet 0%%nat %s %s" % (cbytes(o[1][2:]), cbytes(o[2])))
                    else:
                        staged.append("ODel 0%%nat %s" % cbytes(o[1][2:]))
                ev = "None" if b["events"] is None else "(Some %s)" % it.v(b["events"])
                apply_terms.append("(%s, %s, %s, %d, %s, %s, [%s], %s, %s, %s, %s)" % (
                    dump_term(it, st["pre"]), blk_term(it, b), ev, st["fh"], cbool(st["remove_temp"]), zlit(keep),
                    "; ".join(staged), it.v(denc), optN(st.get("pruned_diff_below")), diff_term(st["diff"]),
                    dump_term(it, st["post"])))
                apply_ctx.append((r, ix))
                if not st.get("diff_enc_roundtrip", True):
                    fail("c05:diff-codec-roundtrip", "Decode(Encode(diff)) differs from the diff at step #%d" % ix, r, ix)
                spans.append(dict(pre=st["pre"], ev=None, dfb=None, temps=set(), dup=not in_domain_span, ix=ix,
                                  tip=db_tip(st["pre"])))
                blocks.append(b)
                m = min_event_delete(st["fh"], h, keep)
                for sp in spans:
                    if m is not None:
                        sp["ev"] = max(sp["ev"] or 0, m)
                    if st.get("pruned_diff_below") is not None:
                        sp["dfb"] = max(sp["dfb"] or 0, st["pruned_diff_below"])
                    sp["temps"].add(h)
                if st["staged"] or b["txs"] or b["events"] or b["assets"]:
                    ck.nontrivial(("apply", b["id"], json.dumps(st["staged"])))
            else:
                h = st["height"]
                if not blocks or blocks[-1]["id"] != st["id"]:
                    fail("c05:delete:unexpected-success", "delete step #%d succeeded on a block the history did not apply" % ix, r, ix)
                    in_domain = False
                    continue
                b = blocks.pop()
                sp = spans.pop()
                for s2 in spans + [sp]:
                    s2["temps"].add(h)
                pre_map = dict(map(tuple, st["pre"]))
                df = decode_diff(pre_map.get("33%08x" % h, ""))
                delete_terms.append("(%s, %s, %s, %s, %s)" % (dump_term(it, st["pre"]), diff_term(df), blk_term(it, b),
                                                            cbool(st["save_temp"]), dump_term(it, st["post"])))
                delete_ctx.append((r, ix))
                if st.get("finalized_guard"):
                    in_domain = False     # Executer.deleteBlock refuses this delete: outside the property from here on
                if st["save_temp"] and st.get("temp_ok") is not True and in_domain:
                    fail("c05:temp-block-not-retrievable", "delete step #%d with saveTemp: the removed block is not returned by "
                         "GetTempBlocks byte-identically" % ix, r, ix, observed=st.get("temp_ids"))
                if in_domain and not sp["dup"]:
                    restore_terms.append("(%s, %s, %s, %s, [%s])" % (dump_term(it, sp["pre"]), dump_term(it, st["post"]),
                                                                    optN(sp["ev"]), optN(sp["dfb"]),
                                                                    "; ".join(str(x) for x in sorted(sp["temps"]))))
                    restore_ctx.append((r, ix, sp["ix"]))
                    dbt = db_tip(st["post"])
                    if sp["tip"] != dbt:
                        fail("c05:restore:db-tip", "delete step #%d: database tip %s differs from the tip before the matching apply "
                             "#%d %s" % (ix, dbt, sp["ix"], sp["tip"]), r, ix)
                    ck.nontrivial(("restore", b["id"], sp["ix"], ix))
                elif sp["dup"]:
                    in_domain = False     # a stored transaction was reused: the freshness hypothesis is violated from here on
    ra = ck.coq_eval(IMPORTS, "apply_case", "check_apply", apply_terms, shard=40, tag="apply")
    rd = ck.coq_eval(IMPORTS, "delete_case", "check_delete", delete_terms, shard=40, tag="delete")
    rr = ck.coq_eval(IMPORTS, "restore_case", "check_restore", restore_terms, shard=40, tag="restore")
    for name, res, ctx in (("apply", ra, apply_ctx), ("delete", rd, delete_ctx)):
        if res is None:
            continue
        for code, (r, ix) in zip(res, ctx):
            if code != 0:
                spec_bad = code >= 2
                fail("c05:%s:%s" % (name, "spec" if spec_bad else "model"),
                     "%s step #%d: the database after the step %s" % (
                         name, ix, "violates the step oracle (state part = staged store, block records present/absent, temp block)"
                         if spec_bad else "differs from the batch computed by the proved model"), r, ix, spec=spec_bad,
                     corr="Corr.C05.check_%s vs Chain.%s" % (name, "AddBlock" if name == "apply" else "RemoveBlock"))
    if rr is not None:
        for code, (r, ix, aix) in zip(rr, restore_ctx):
            if code != 0:
                pre = dict(map(tuple, r["steps"][aix]["pre"]))
                post = dict(map(tuple, r["steps"][ix]["post"]))
                diffk = sorted(k for k in set(pre) | set(post) if pre.get(k) != post.get(k) and k[:2] not in ("1b", "07"))
                fail("c05:restore:prefix-%s" % (diffk[0][:2] if diffk else "??"),
                     "delete step #%d does not restore the database of before apply step #%d: keys %s differ" % (ix, aix, diffk[:6]),
                     r, ix, observed=diffk[:20], corr="Corr.C05.check_restore (C05_delete_inverts_apply)")
    ck.extra["restore_checks"] = len(restore_terms)
    return ra, rd, rr


def run(ck):
    ck.prove(extra_targets=["Corr/C05.vo"])
    binp = ck.go_build("c05")
    if not binp:
        return
    n = "120" if ck.tier == "quick" else "1500"
    recs = ck.run_harness(binp, ["-n", n])
    if recs is None:
        return
    corpus = os.path.join(ROOT, "corpus", "C05")
    if os.path.isdir(corpus):
        for f in sorted(os.listdir(corpus)):
            if f.endswith(".jsonl"):
                extra = ck.run_harness(binp, ["-in", os.path.join(corpus, f)], out_name="corpus_%s" % f)
                if extra:
                    recs = extra + recs
    evaluate(ck, recs)
    for r in recs[:3]:
        ck.sample({"keep": r["keep"], "maxcache": r["maxcache"], "genesis_height": r["genesis_height"],
                   "steps": [[s["op"], s.get("err"), s.get("height", s.get("blk", {}).get("height"))] for s in r["steps"]]})
    ck.cov["rule"] = ("histories of 4-12 apply/delete steps on the real Chain/DataAccess + diffdb consensus-store batch (blocks with "
                      "0-3 txs, 0-2 assets, 0-3 events, 0-6 staged set/del ops incl. create+overwrite+delete of one key, finality "
                      "advances, removeTemp/saveTemp, reorgs, re-applies, keepEvents in {-1,0,1,2,300}, block cache 2..515); one "
                      "evaluation = one step; non-trivial = an apply with content, or a delete checked against the dump before its "
                      "apply; distinct by block id / step pair")
    ck.extra["traces_validated_against_impl"] = len(recs)
    ck.assume += ["transaction ids of an applied block are not already stored (application layer nonce check); histories that "
                  "reuse one are model-checked only",
                  "deletes at or below the finalized height are refused by Executer.deleteBlock (outside the property)",
                  "diff codec round trip (C08) — also observed on every apply (diff_enc_roundtrip)",
                  "pebble Apply(batch) is atomic (C13)"]
    if ck.tier == "thorough":
        ck.coqchk(["LE.Properties.C05"])


def replay(ck, path):
    if path.endswith(".jsonl"):
        inp = os.path.abspath(path)
    else:
        doc = json.load(open(path))
        case = doc.get("input")
        if not case:
            print("replay names a broken obligation, no input: %s" % doc.get("what"))
            run(ck)
            return ck.finish(LEVEL)
        inp = os.path.join(ck.work, "replay_in.jsonl")
        open(inp, "w").write(json.dumps(case["history"]) + "\n")
    binp = ck.go_build("c05")
    if not binp:
        return ck.finish(LEVEL)
    recs = ck.run_harness(binp, ["-in", inp], out_name="replay.jsonl")
    if recs is not None:
        evaluate(ck, recs)
        print("replayed %d histories: %s" % (len(recs), json.dumps([[(s["op"], s.get("err"), s.get("panic")) for s in r["steps"]] for r in recs])[:2000]))
    return ck.finish(LEVEL)
