"""C05 — deleting the tip block restores the exact previous node state (real Executer + blockchain/diffdb level)."""
import json
import os
from core import cbytes, cbool, ROOT
from props.c12 import kvs, zlit

LEVEL = "proof"
READY = True
MANIFEST = {
    "technique": "Coq proof on Gallina models of diffdb commit/RevertDiff and of saveBlock/removeBlock write sets + differential "
                 "correspondence on the real Chain/DataAccess/diffdb over in-memory pebble, evaluated in Coq",
    "text": "Theorems: for every database and every staged operation sequence the batch written by Commit followed by the batch "
            "of RevertDiff(decode(encode(diff))) is the identity on the database, as a list (byte for byte; keys created, "
            "overwritten and deleted in one block included; the codec round trip is a section hypothesis discharged under C08); "
            "the returned diff classifies exactly the changed keys (added/updated/deleted, previous values); removeBlock inverts "
            "saveBlock and the whole deleteBlock batch inverts the whole processBlock batch on every key outside the enumerated "
            "exceptions (finalized-height marker, temp-block records, event records pruned by saveBlock, diff records pruned on "
            "finalisation), for fresh block/transaction ids, and so does every well-bracketed history of any number of apply/remove "
            "steps whose finalized heights and prune bounds are inputs and which does not prune the diff record of a block still to "
            "be deleted (side conditions assumed, the Executer's guard and marker monotonicity are checked by the harness only; "
            "each delete decodes the diff record found in the current database); a removed block is stored as temp block; reorg confluence with block "
            "execution as an adaptive program: apply B, delete B, execute+apply B' reads the same values and ends in the same "
            "database outside B's exceptions as executing B' directly; the cached tip equals the database tip after each single "
            "add / remove / PrepareCache step of the cache model (the refill entry is the chain head by definition of the model). Tie: random histories of apply/delete (blocks with/without txs, assets, events, staged "
            "consensus-store ops, finality advances, temp flags, reorgs, re-applies) on the real code; every step's full DB dump is "
            "compared in Coq with the model batch, every delete with the dump before the matching apply (oracle).",
    "note": "Two ties: harness/cmd/c05e drives the REAL consensus.Executer (processValidated/deleteBlock of valid blocks with txs, "
            "events, validator changes, finality advances; twin-node reorg probe; restart) and harness/cmd/c05 the Chain/DataAccess "
            "+ diffdb batch level with arbitrary staged ops; both are compared in Coq with the same BlockStore model. KNOWN FINDING "
            "c05:dup-tx: a block repeating a stored transaction id is accepted and its deletion removes the earlier record "
            "(theorems carrying the freshness hypothesis are named _partial, witness C05_remove_inverts_save_refuted). Hypotheses made explicit: transaction ids of the block are fresh (removeBlock deletes "
            "txID->tx unconditionally; histories that reuse a stored transaction are excluded from the oracle and only "
            "model-checked), deletes at or below the finalized height are outside the property. Fixed in /repo: block cache ran "
            "empty after more removals than cached blocks (nil tip, nil dereference). Opaque encodings are interned injectively "
            "before evaluation in Coq.",
}
IMPORTS = ("From LE Require Import Base.Lex Store.SMap Store.PebbleIter Store.DiffDB Store.DiffDBSpec Chain.BlockStore "
           "Corr.C12 Corr.C05.")

OPAQUE_PREFIXES = ("03", "06", "07", "08", "09", "33")
DUP_KEY = "c05:dup-tx:earlier-block-tx-record-removed"


class Interner:
    def __init__(self):
        self.t = {}

    def v(self, hexval):
        if hexval not in self.t:
            self.t[hexval] = len(self.t)
        return "[%d]" % self.t[hexval]


def dump_term(it, d):
    out = []
    for k, v in d:
        out.append("(%s, %s)" % (cbytes(k), it.v(v) if k[:2] in OPAQUE_PREFIXES else cbytes(v)))
    return "[" + "; ".join(out) + "]"


def blk_term(it, b):
    txs = "[" + "; ".join("(%s, %s)" % (cbytes(t[0]), it.v(t[1])) for t in b["txs"]) + "]"
    assets = "None" if b["assets"] is None else "(Some %s)" % it.v(b["assets"])
    return "(Build_blk %s %d %s %s %s %s)" % (cbytes(b["id"]), b["height"], it.v(b["header"]), txs, assets, it.v(b["block"]))


def optN(x):
    return "None" if x is None else "(Some %d)" % x


def diff_term(d):
    return "(%s, %s, %s)" % ("[" + "; ".join(cbytes(k) for k in d["added"]) + "]", kvs(d["updated"]), kvs(d["deleted"]))


def varint(b, i):
    sh = 0
    n = 0
    while True:
        c = b[i]
        i += 1
        n |= (c & 0x7f) << sh
        sh += 7
        if c < 0x80:
            return n, i


def fields(b):
    i = 0
    out = []
    while i < len(b):
        tag, i = varint(b, i)
        ln, i = varint(b, i)
        out.append((tag >> 3, b[i:i + ln]))
        i += ln
    return out


def decode_diff(hexval):
    """independent decoder of diffdb.Diff (lisk codec = protobuf wire format, length-delimited fields only)"""
    d = {"added": [], "updated": [], "deleted": []}
    for fn, data in fields(bytes.fromhex(hexval)):
        if fn == 1:
            d["added"].append(data.hex())
        else:
            kv = dict(fields(data))
            d["updated" if fn == 2 else "deleted"].append([kv.get(1, b"").hex(), kv.get(2, b"").hex()])
    return d


def marker(dump):
    for k, v in dump:
        if k == "1b":
            return int(v, 16)
    return None


def run_harness_retry(ck, binp, args, **kw):
    """a watchdog exit (code 3) on a loaded machine is retried once with six times the time limits"""
    n = len(ck.failures)
    recs = ck.run_harness(binp, args, **kw)
    if recs is None and len(ck.failures) > n and "exited 3" in ck.failures[-1]["what"]:
        del ck.failures[n:]
        ck.notes.append("harness %s hit its watchdog once; retried with longer limits" % os.path.basename(binp))
        recs = ck.run_harness(binp, args, env_extra={"VERIF_WATCHDOG_X": "6"}, **kw)
    return recs


def tip_key(t):
    return None if t is None else (t.get("id"), t.get("height"))


def db_tip(dump):
    best = None
    for k, v in dump:
        if k[:2] == "04" and len(k) == 10:
            best = (int(k[2:], 16), v)
    return best


def min_event_delete(fh, h, keep):
    if keep <= -1:
        return None
    m = min(fh, max(0, h - keep))
    return m if m > 0 else None


def step_inputs(st):
    """what a replay needs"""
    s = {k: v for k, v in st.items() if k not in ("pre", "post")}
    return s


def hist_inputs(r):
    r = json.loads(json.dumps(r))
    r["steps"] = [step_inputs(s) for s in r["steps"]]
    return r


def evaluate(ck, recs):
    apply_terms, delete_terms, restore_terms = [], [], []
    apply_ctx, delete_ctx, restore_ctx = [], [], []
    stats = ck.extra.setdefault("step_kinds", {})
    floors = ck.extra.setdefault("floor_counts", {})

    def bump(k):
        stats[k] = stats.get(k, 0) + 1

    def fail(key, what, r, ix, spec=True, observed=None, corr="C05 oracle"):
        f = dict(kind="history", key=key, what=what, case={"history": hist_inputs(r), "step": ix}, observed=observed,
                 theorem_or_correspondence=corr)
        f["spec_violated"] = spec
        ck.failures.append(f)

    for r in recs:
        it = Interner()
        keep = r["keep"]
        spans = []      # open applies: dict(pre, tip, ev, dfb, temps, dup, ix)
        blocks = []     # mirror of the harness' applied stack (without genesis)
        # known finding c05:dup-tx, kept NARROW: [lost] = transaction ids whose record 06|id was removed by deleting a block that
        # reused them while an earlier block still owns them.  Only two consequences are filed under the known key: the record
        # itself (excepted from the restore oracle) and getBlock of an owner block failing (cached-body check of an owner tip, the
        # cache refill from an owner parent, PrepareCache over an owner).  Everything else stays an ordinary failure.
        lost = set()

        def owner_missing(blk, dump):
            """blk stores a transaction whose record is absent from dump (getBlock(blk) fails)"""
            have = {k for k, _ in dump}
            return any(("06" + t[0]) not in have for t in blk["txs"])

        if r.get("close_err"):
            fail("c05:close:%s" % r["close_err"], "DB.Close after the history reported %s" % r["close_err"], r, -1)
        if r.get("scripted"):
            floors["scripted blockchain-level history"] = floors.get("scripted blockchain-level history", 0) + 1
        if r.get("drain"):
            floors["drain histories"] = floors.get("drain histories", 0) + 1
        floors["histories with a final flush comparison"] = floors.get("histories with a final flush comparison", 0) + (
            1 if r.get("final_flush_diff") is not None else 0)
        for ix, st in enumerate(r["steps"]):
            ck.count()
            op = st["op"]
            ok = st.get("err") is None and not st.get("panic")
            bump("%s:%s" % (op, "ok" if ok else (st.get("panic") and "panic:" + st["panic"]) or st.get("err")))
            if op == "restart":
                # fresh Chain + PrepareCache over the same database: must succeed, change nothing, expose the DB tip with its body
                tip = st.get("tip_after")
                dbt = db_tip(st["post"])
                excused = bool(lost) and any(owner_missing(x, st["post"]) for x in blocks)
                if st.get("panic") or st.get("err") is not None:
                    fail(DUP_KEY if (excused and not st.get("panic")) else "c05:restart:prepare-cache-failed",
                         "restart step #%d: PrepareCache failed (%s%s)" % (ix, st.get("panic") or st.get("err"),
                                                                         "; getBlock of a block whose transaction record was removed" if excused else ""),
                         r, ix, observed=st.get("err"))
                    if st.get("panic"):
                        break
                    continue
                if st["pre"] != st["post"]:
                    fail("c05:restart:changed-db", "restart step #%d changed the database" % ix, r, ix)
                if dbt is not None and tip is None and excused:
                    fail(DUP_KEY, "restart step #%d: PrepareCache could not read the last block (getBlock of a block whose transaction "
                         "record was removed) and left the block cache empty" % ix, r, ix, observed=None)
                elif dbt is not None and (tip is None or tip["height"] != dbt[0] or tip["id"] != dbt[1]):
                    fail("c05:restart:cached-tip-differs", "after restart step #%d the cached tip %s differs from the database tip %s" % (
                        ix, json.dumps(tip), dbt), r, ix, observed=tip)
                elif tip is not None and tip.get("body_ok") is not True and not excused:
                    fail("c05:tip:cached-body-differs", "after restart step #%d the cached tip block does not encode to the stored block" % ix,
                         r, ix, observed=tip)
                after = 0
                for nxt in r["steps"][ix + 1:]:
                    if nxt["op"] == "delete" and nxt.get("err") is None and not nxt.get("panic"):
                        after += 1
                    else:
                        break
                if after >= 2:
                    floors["restarts followed by at least two deletes"] = floors.get("restarts followed by at least two deletes", 0) + 1
                    if r.get("scripted"):
                        floors["scripted restart followed by at least two deletes"] = floors.get("scripted restart followed by at least two deletes", 0) + 1
                continue
            if st.get("panic"):
                fail("c05:panic:%s:%s" % (op, st["panic"]), "%s step #%d panicked at %s" % (op, ix, st["panic"]), r, ix, observed=st["panic"])
                bump("history abandoned after a panic")
                break   # the shadow stacks cannot be trusted after a panic: the rest of the history is not evaluated
            if op == "delete" and ok and spans and blocks:
                gone = {k for k, _ in st["pre"]} - {k for k, _ in st["post"]}
                for t in spans[-1]["reused"]:
                    if ("06" + t) in gone and any(t == x[0] for blk0 in blocks[:-1] for x in blk0["txs"]):
                        lost.add(t)
            tip = st.get("tip_after")
            dbt = db_tip(st["post"])
            if dbt is not None and (tip is None or tip["height"] != dbt[0] or tip["id"] != dbt[1]):
                fail("c05:tip:%s" % ("cache-empty" if tip is None else "cache-differs"),
                     "after %s step #%d the cached tip %s differs from the database tip %s" % (op, ix, json.dumps(tip), dbt), r, ix, observed=tip)
            elif tip is not None and tip.get("body_ok") is not True:
                tb = next((x for x in blocks if x["id"] == tip["id"]), None)
                if op == "apply" and ok and st["blk"]["id"] == tip["id"]:
                    tb = st["blk"]
                if tb is not None and lost and owner_missing(tb, st["post"]):
                    fail(DUP_KEY, "getBlock of block %s fails after step #%d: its transaction record was removed by deleting a later block "
                         "that reused the id" % (tip["id"][:16], ix), r, ix, observed=tip)
                else:
                    fail("c05:tip:cached-body-differs", "after %s step #%d the cached tip block %s (transactions, assets) does not encode to "
                         "the block stored under its id (body_ok=%s)" % (op, ix, tip["id"][:16], tip.get("body_ok")), r, ix, observed=tip)
            m0, m1 = marker(st["pre"]), marker(st["post"])
            if m0 is not None and (m1 is None or m1 < m0):
                fail("c05:marker:lowered", "%s step #%d lowered the finalized-height marker from %s to %s" % (op, ix, m0, m1), r, ix, observed=m1)
            if st.get("flush_diff") is not None:
                floors["deletes followed by a flush comparison"] = floors.get("deletes followed by a flush comparison", 0) + 1
            if st.get("flush_diff"):
                fail("c05:flush:reads-differ-after-flush", "after %s step #%d a memtable flush (what a restart does) changes what is read at "
                     "keys %s" % (op, ix, st["flush_diff"][:6]), r, ix, observed=st["flush_diff"][:20])
            if not ok:
                if st["pre"] != st["post"]:
                    fail("c05:%s:failed-step-changed-db:%s" % (op, st.get("err")),
                         "%s step #%d returned %s but changed the database" % (op, ix, st.get("err")), r, ix)
                if op == "apply":
                    fail("c05:apply:failed:%s" % st.get("err"), "apply step #%d failed: %s" % (ix, st.get("err")), r, ix)
                else:
                    # a delete of the cached tip above the finalized height must succeed
                    err = st.get("err")
                    expected = (err == "finalized" and st.get("finalized_guard")) or (err == "genesis" and not blocks) or (
                        err == "no-diff" and (st.get("finalized_guard") or not blocks))
                    parent = blocks[-2] if len(blocks) >= 2 else None
                    if expected:
                        pass
                    elif lost and parent is not None and owner_missing(parent, st["pre"]):
                        fail(DUP_KEY, "delete step #%d fails (%s): the cache refill needs getBlock of the parent, whose transaction record "
                             "was removed by deleting a later block that reused the id" % (ix, err), r, ix, observed=err)
                    else:
                        fail("c05:delete:failed-above-finality:%s" % err, "delete step #%d of the tip (height %s, finalized guard %s) failed: %s"
                             % (ix, st.get("height"), st.get("finalized_guard"), err), r, ix, observed=err)
                continue
            if op == "apply":
                b = st["blk"]
                h = b["height"]
                pre_keys = {k for k, _ in st["pre"]}
                reused = {t[0] for t in b["txs"] if ("06" + t[0]) in pre_keys}
                denc = dict(map(tuple, st["post"])).get("33%08x" % h, "")
                staged = []
                for o in st["staged"]:
                    if o[0] == "set":
                        staged.append("OSet 0%%nat %s %s" % (cbytes(o[1][2:]), cbytes(o[2])))
                    elif o[0] == "del":
                        staged.append("ODel 0%%nat %s" % cbytes(o[1][2:]))
                    elif o[0] == "get":
                        staged.append("OGet 0%%nat %s" % cbytes(o[1][2:]))
                    elif o[0] == "snap":
                        staged.append("OSnapshot 0%nat")
                    elif o[0] == "restore":
                        staged.append("ORestore 0%%nat %d" % int(o[1]))
                    else:
                        raise ValueError(o[0])
                ev = "None" if b["events"] is None else "(Some %s)" % it.v(b["events"])
                apply_terms.append("(%s, %s, %s, %d, %s, %s, [%s], %s, %s, %s, %s)" % (
                    dump_term(it, st["pre"]), blk_term(it, b), ev, st["fh"], cbool(st["remove_temp"]), zlit(keep),
                    "; ".join(staged), it.v(denc), optN(st.get("pruned_diff_below")), diff_term(st["diff"]),
                    dump_term(it, st["post"])))
                apply_ctx.append((r, ix))
                if not st.get("diff_enc_roundtrip", True):
                    fail("c05:diff-codec-roundtrip", "Decode(Encode(diff)) differs from the diff at step #%d" % ix, r, ix)
                spans.append(dict(pre=st["pre"], ev=None, dfb=None, temps=set(), dup=bool(reused), reused=reused, ix=ix,
                                  tip=db_tip(st["pre"])))
                blocks.append(b)
                m = min_event_delete(st["fh"], h, keep)
                for sp in spans:
                    if m is not None:
                        sp["ev"] = max(sp["ev"] or 0, m)
                    if st.get("pruned_diff_below") is not None:
                        sp["dfb"] = max(sp["dfb"] or 0, st["pruned_diff_below"])
                    sp["temps"].add(h)
                if st["staged"] or b["txs"] or b["events"] or b["assets"]:
                    ck.nontrivial(("apply", b["id"], json.dumps(st["staged"])))
            else:
                h = st["height"]
                if not blocks or blocks[-1]["id"] != st["id"]:
                    fail("c05:delete:unexpected-success", "delete step #%d succeeded on a block the history did not apply" % ix, r, ix)
                    break
                b = blocks.pop()
                sp = spans.pop()
                for s2 in spans + [sp]:
                    s2["temps"].add(h)
                pre_map = dict(map(tuple, st["pre"]))
                df = decode_diff(pre_map.get("33%08x" % h, ""))
                delete_terms.append("(%s, %s, %s, %s, %s)" % (dump_term(it, st["pre"]), diff_term(df), blk_term(it, b),
                                                            cbool(st["save_temp"]), dump_term(it, st["post"])))
                delete_ctx.append((r, ix))
                if st.get("finalized_guard"):
                    # Executer.deleteBlock refuses this delete (the harness lets a few through to observe no-diff): the block and
                    # everything below it is finalized, so the spans open now are outside the property; spans opened by later
                    # applies are inside again
                    sp["taint"] = True
                    for s2 in spans:
                        s2["taint"] = True
                    bump("delete below finality let through")
                if st["save_temp"] and st.get("temp_ok") is not True:
                    fail("c05:temp-block-not-retrievable", "delete step #%d with saveTemp: the removed block is not returned by "
                         "GetTempBlocks byte-identically" % ix, r, ix, observed=st.get("temp_ids"))
                # the known finding itself: the record of a reused transaction id, still owned by an earlier block, is gone
                post_keys = {k for k, _ in st["post"]}
                for t in sorted(sp["reused"]):
                    if ("06" + t) not in post_keys and any(t == x[0] for blk0 in blocks for x in blk0["txs"]):
                        lost.add(t)
                        fail(DUP_KEY, "delete step #%d removed the record 06|%s that an earlier, still applied block owns (block #%d reused "
                             "the transaction id)" % (ix, t[:16], sp["ix"]), r, ix, observed="06" + t)
                if not sp.get("taint"):
                    # restore oracle, with ONLY the lost records excepted
                    exc = {"06" + t for t in lost}
                    fpre = [kv for kv in sp["pre"] if kv[0] not in exc]
                    fpost = [kv for kv in st["post"] if kv[0] not in exc]
                    restore_terms.append("(%s, %s, %s, %s, [%s])" % (dump_term(it, fpre), dump_term(it, fpost),
                                                                    optN(sp["ev"]), optN(sp["dfb"]),
                                                                    "; ".join(str(x) for x in sorted(sp["temps"]))))
                    restore_ctx.append((r, ix, sp["ix"]))
                    dbt = db_tip(st["post"])
                    if sp["tip"] != dbt:
                        fail("c05:restore:db-tip", "delete step #%d: database tip %s differs from the tip before the matching apply "
                             "#%d %s" % (ix, dbt, sp["ix"], sp["tip"]), r, ix)
                    ck.nontrivial(("restore", b["id"], sp["ix"], ix))
                    if r.get("scripted"):
                        floors["restore checks in the scripted history"] = floors.get("restore checks in the scripted history", 0) + 1
                else:
                    bump("restore oracle skipped (below finality)")
        if r.get("final_flush_diff"):
            fail("c05:flush:reads-differ-after-flush", "at the end of the history a memtable flush (what a restart does) changes what is read "
                 "at keys %s" % r["final_flush_diff"][:6], r, -1, observed=r["final_flush_diff"][:20])
        if "prepare_cache_err" in r and r["steps"] and "post" in r["steps"][-1]:
            # restart view: a fresh Chain + PrepareCache over the final database must succeed and expose the DB tip
            want = r.get("final_last_block_db")
            final = r["steps"][-1]["post"]
            excused = bool(lost) and any(owner_missing(x, final) for x in blocks)
            if r["prepare_cache_err"] is not None or (want is None and db_tip(final) is not None):
                fail(DUP_KEY if excused else "c05:restart:prepare-cache-failed",
                     "PrepareCache / GetLastBlockHeader on a fresh Chain over the final database failed (%s / %s); genesis height %d, "
                     "maxBlockCache %d%s" % (r["prepare_cache_err"], r.get("final_last_block_db_err"), r["genesis_height"], r["maxcache"],
                                            "; getBlock of a block whose transaction record was removed" if excused else ""), r, -1,
                     observed=r["prepare_cache_err"])
            elif want is not None and tip_key(r.get("prepare_cache_tip")) != tip_key(want):
                fail("c05:restart:cached-tip-differs", "after PrepareCache the cached tip %s differs from the database tip %s" % (
                    json.dumps(r.get("prepare_cache_tip")), json.dumps(want)), r, -1, observed=r.get("prepare_cache_tip"))
    ra = ck.coq_eval(IMPORTS, "apply_case", "check_apply", apply_terms, shard=40, tag="apply")
    rd = ck.coq_eval(IMPORTS, "delete_case", "check_delete", delete_terms, shard=40, tag="delete")
    rr = ck.coq_eval(IMPORTS, "restore_case", "check_restore", restore_terms, shard=40, tag="restore")
    for name, res, ctx in (("apply", ra, apply_ctx), ("delete", rd, delete_ctx)):
        if res is None:
            continue
        for code, (r, ix) in zip(res, ctx):
            if code != 0:
                spec_bad = code >= 2
                fail("c05:%s:%s" % (name, "spec" if spec_bad else "model"),
                     "%s step #%d: the database after the step %s" % (
                         name, ix, "violates the step oracle (state part = staged store, block records present/absent, temp block)"
                         if spec_bad else "differs from the batch computed by the proved model"), r, ix, spec=spec_bad,
                     corr="Corr.C05.check_%s vs Chain.%s" % (name, "AddBlock" if name == "apply" else "RemoveBlock"))
    if rr is not None:
        for code, (r, ix, aix) in zip(rr, restore_ctx):
            if code != 0:
                pre = dict(map(tuple, r["steps"][aix]["pre"]))
                post = dict(map(tuple, r["steps"][ix]["post"]))
                diffk = sorted(k for k in set(pre) | set(post) if pre.get(k) != post.get(k) and k[:2] not in ("1b", "07"))
                fail("c05:restore:prefix-%s" % (diffk[0][:2] if diffk else "??"),
                     "delete step #%d does not restore the database of before apply step #%d: keys %s differ" % (ix, aix, diffk[:6]),
                     r, ix, observed=diffk[:20], corr="Corr.C05.check_restore (C05_delete_inverts_apply)")
    ck.extra["restore_checks"] = len(restore_terms)
    return ra, rd, rr


def evaluate_e(ck, recs):
    """Executer-level histories (harness/cmd/c05e through harness/internal/exh)."""
    ea_terms, de_terms, re_terms, tw_terms = [], [], [], []
    ea_ctx, de_ctx, re_ctx, tw_ctx = [], [], [], []
    stats = ck.extra.setdefault("executer_step_kinds", {})
    floors = ck.extra.setdefault("floor_counts", {})

    def floor(k, n=1):
        floors[k] = floors.get(k, 0) + n

    def bump(k):
        stats[k] = stats.get(k, 0) + 1

    def inp(r):
        return {"k": r["k"], "seed": r["seed"], "idx": r["idx"], "genesis_time": r["genesis_time"]}

    def fail(key, what, r, ix, spec=True, observed=None, corr="C05 oracle (Executer level)"):
        f = dict(kind="history", key=key, what=what, case={"ehistory": inp(r), "step": ix}, observed=observed,
                 theorem_or_correspondence=corr)
        f["spec_violated"] = spec
        ck.failures.append(f)

    def apply_term(it, st, keep):
        b = st["blk"]
        h = b["height"]
        post = dict(map(tuple, st["post"]))
        denc = post.get("33%08x" % h, "")
        evb = post.get("09%08x" % h)
        prune = st["fh_post"] if st["fh_post"] > st["fh_pre"] else None
        return "(%s, %s, %s, %d, %s, %s, %s, %s, %s, %s)" % (
            dump_term(it, st["pre"]), blk_term(it, b), "None" if evb is None else "(Some %s)" % it.v(evb), st["fh_post"],
            cbool(st["remove_temp"]), zlit(keep), it.v(denc), optN(prune), diff_term(decode_diff(denc)), dump_term(it, st["post"])), evb, prune

    for r in recs:
        if r["k"] == "edup":
            ck.count()
            bump("dup-tx scenario")
            floor("dup-tx scenario evaluated")
            if r.get("accepted") and (not r.get("tx_record_present") or r.get("get_b1_fresh") != "ok"):
                fail("c05:dup-tx:earlier-block-tx-record-removed",
                     "Executer accepted block B2 repeating transaction %s of its parent B1; deleting B2 removed the record 06|txid of "
                     "B1 (tx_record_present=%s), a fresh DataAccess.GetBlock(B1) answers %s, after restart the cached tip is %s while "
                     "the database tip is %s" % (r["t"], r.get("tx_record_present"), r.get("get_b1_fresh"),
                                                 json.dumps(r.get("restart_tip")), json.dumps(r.get("db_tip"))), r, -1,
                     observed={"tx_record_present": r.get("tx_record_present"), "get_b1_fresh": r.get("get_b1_fresh"),
                               "restart_tip": r.get("restart_tip")})
            continue
        it = Interner()
        keep = r["keep"]
        spans = []
        all_ev, all_dfb, all_temps = None, None, set()
        for ix, st in enumerate(r["steps"]):
            ck.count()
            op = st["op"]
            ok = st.get("err") == "ok" and not st.get("panic")
            bump("%s:%s" % (op, st.get("err") if not st.get("panic") else "panic"))
            if op == "restart":
                # process restart in the middle of the history: Init incl. PrepareCache must succeed, change nothing (33|h records
                # are compared canonicalised) and expose the database tip with its full body
                tip = st.get("tip_after")
                dbt = db_tip(st["post"])
                if st.get("panic") or st.get("err") != "ok":
                    fail("c05:executer:restart-step", "restart step #%d failed: %s" % (ix, st.get("panic") or st.get("err")), r, ix)
                    break
                if st["pre"] != st["post"]:
                    fail("c05:executer:restart-step:changed-db", "restart step #%d changed the database" % ix, r, ix)
                if dbt is not None and (tip is None or tip["height"] != dbt[0] or tip["id"] != dbt[1]):
                    fail("c05:executer:restart-step:tip", "after restart step #%d the cached tip %s differs from the database tip %s" % (
                        ix, json.dumps(tip), dbt), r, ix, observed=tip)
                elif tip is not None and tip.get("body_ok") is not True:
                    fail("c05:executer:tip:cached-body-differs", "after restart step #%d the cached tip block does not encode to the stored "
                         "block" % ix, r, ix, observed=tip)
                after = 0
                for nxt in r["steps"][ix + 1:]:
                    if nxt["op"] == "delete" and nxt.get("err") == "ok":
                        after += 1
                    else:
                        break
                if after >= 2 and r["idx"] == 0:
                    floor("executer scripted restart followed by at least two deletes")
                continue
            if st.get("panic"):
                fail("c05:executer:panic:%s" % op, "Executer %s step #%d panicked: %s" % (op, ix, st["panic"]), r, ix, observed=st["panic"])
                continue
            tip = st.get("tip_after")
            dbt = db_tip(st["post"])
            if dbt is not None and (tip is None or tip["height"] != dbt[0] or tip["id"] != dbt[1]):
                fail("c05:executer:tip", "after %s step #%d the cached tip %s differs from the database tip %s" % (
                    op, ix, json.dumps(tip), dbt), r, ix, observed=tip)
            if tip is not None and tip.get("body_ok") is not True:
                fail("c05:executer:tip:cached-body-differs", "after %s step #%d the cached tip block (transactions, assets) does not encode to "
                     "the block stored under its id" % (op, ix), r, ix, observed=tip)
            m0, m1 = marker(st["pre"]), marker(st["post"])
            if m0 is not None and (m1 is None or m1 < m0 or (op == "apply" and ok and (st["fh_post"] != m1 or st["fh_pre"] != m0))):
                fail("c05:executer:marker", "%s step #%d: finalized-height marker %s -> %s (reported %s -> %s): the marker must never be "
                     "lowered and must be what GetFinalizedHeight reports" % (op, ix, m0, m1, st.get("fh_pre"), st.get("fh_post")), r, ix,
                     observed=m1)
            if st.get("flush_diff") is not None:
                floor("executer deletes followed by a flush comparison")
            if st.get("flush_diff"):
                fail("c05:executer:flush:reads-differ-after-flush", "after %s step #%d a memtable flush (what a restart does) changes what is "
                     "read at keys %s" % (op, ix, st["flush_diff"][:6]), r, ix, observed=st["flush_diff"][:20])
            if not ok:
                if st["pre"] != st["post"]:
                    fail("c05:executer:%s:failed-step-changed-db:%s" % (op, st.get("err")),
                         "%s step #%d returned %s but changed the database" % (op, ix, st.get("err")), r, ix)
                if op == "delete" and st.get("below_finalized") and st.get("err") != "finalized":
                    fail("c05:executer:delete-below-finalized", "delete of a block at or below the finalized height answered %s" % st.get("err"), r, ix)
                if op == "delete" and not st.get("below_finalized"):
                    # Executer.deleteBlock of the cached tip above the finalized height must succeed
                    fail("c05:executer:delete:failed-above-finality:%s" % st.get("err"), "deleteBlock of the tip (height %s, finalized %s) "
                         "failed: %s" % (st.get("height"), st.get("fh_pre"), st.get("err")), r, ix, observed=st.get("err"))
                if op == "apply":
                    fail("c05:executer:valid-block-rejected:%s" % st.get("err"), "valid block rejected at step #%d: %s" % (ix, st.get("err")), r, ix)
                continue
            if op == "apply":
                b = st["blk"]
                h = b["height"]
                term, evb, prune = apply_term(it, st, keep)
                ea_terms.append(term)
                ea_ctx.append((r, ix))
                if (st["n_events"] > 0) != (evb is not None):
                    fail("c05:executer:events-record", "apply step #%d: %d events produced but events record %s" % (
                        ix, st["n_events"], "absent" if evb is None else "present"), r, ix)
                spans.append(dict(pre=st["pre"], ev=None, dfb=None, temps=set(), ix=ix, tip=db_tip(st["pre"]), votes=st["votes_pre"],
                                  raised=st["fh_post"] > st["fh_pre"], sibling=False))
                m = min_event_delete(st["fh_post"], h, keep)
                for sp in spans:
                    if m is not None:
                        sp["ev"] = max(sp["ev"] or 0, m)
                    if prune is not None:
                        sp["dfb"] = max(sp["dfb"] or 0, prune)
                    sp["temps"].add(h)
                if m is not None:
                    all_ev = max(all_ev or 0, m)
                if prune is not None:
                    all_dfb = max(all_dfb or 0, prune)
                all_temps.add(h)
                ck.nontrivial(("eapply", b["id"]))
            else:
                h = st["height"]
                if not spans:
                    fail("c05:executer:delete:unexpected-success", "delete step #%d succeeded below the history" % ix, r, ix)
                    continue
                sp = spans.pop()
                if sp["raised"]:
                    bump("finality-raising block deleted")
                for s2 in spans + [sp]:
                    s2["temps"].add(h)
                all_temps.add(h)
                pre_map = dict(map(tuple, st["pre"]))
                df = decode_diff(pre_map.get("33%08x" % h, ""))
                de_terms.append("(%s, %s, %s, %s, %s)" % (dump_term(it, st["pre"]), diff_term(df), blk_term(it, st["blk"]),
                                                        cbool(st["save_temp"]), dump_term(it, st["post"])))
                de_ctx.append((r, ix))
                if st["save_temp"] and st.get("temp_ok") is not True:
                    fail("c05:executer:temp-block-not-retrievable", "delete step #%d with saveTemp: removed block not returned by GetTempBlocks" % ix, r, ix)
                if st.get("votes_post") != sp["votes"]:
                    fail("c05:executer:bft-store-not-restored", "delete step #%d: the BFT store (VerifC02DumpVotes digest) differs from the one "
                         "before apply step #%d" % (ix, sp["ix"]), r, ix, observed=st.get("votes_post"))
                re_terms.append("(%s, %s, %s, %s, [%s])" % (dump_term(it, sp["pre"]), dump_term(it, st["post"]), optN(sp["ev"]),
                                                            optN(sp["dfb"]), "; ".join(str(x) for x in sorted(sp["temps"]))))
                re_ctx.append((r, ix, sp["ix"]))
                if r["idx"] == 0:
                    floor("executer restore checks in the scripted history")
                if sp["tip"] != db_tip(st["post"]):
                    fail("c05:executer:restore:db-tip", "delete step #%d: database tip differs from the tip before apply #%d" % (ix, sp["ix"]), r, ix)
                ck.nontrivial(("erestore", st["id"], sp["ix"], ix))
        if r.get("final_flush_diff"):
            fail("c05:executer:flush:reads-differ-after-flush", "at the end of the history a memtable flush changes what is read at keys %s" %
                 r["final_flush_diff"][:6], r, -1, observed=r["final_flush_diff"][:20])
        rs = r.get("restart")
        if rs is not None:
            if rs.get("err") is not None or tip_key(rs.get("tip")) != tip_key(rs.get("db_tip")) or (rs.get("tip") or {}).get("body_ok") is False:
                fail("c05:executer:restart", "after Restart (Init incl. PrepareCache) err=%s cached tip %s database tip %s" % (
                    rs.get("err"), json.dumps(rs.get("tip")), json.dumps(rs.get("db_tip"))), r, -1, observed=rs)
        tw = r.get("twin")
        if r["idx"] == 0 and tw is None:
            fail("c05:executer:twin:missing-in-scripted-history", "the scripted history ended with its tip at or below the finalized "
                 "height: no reorg probe", r, -2)
        if tw is not None and (tw.get("a") is None or tw.get("t") is None):
            fail("c05:executer:twin:incomplete", "reorg probe stopped early: apply B / delete B / apply B' answered %s, replay on the twin %s"
                 % (tw.get("err_a"), tw.get("err_t")), r, -2, observed=tw.get("err_a"))
        if tw is not None and tw.get("a") is not None and tw.get("t") is not None:
            ck.count()
            bump("twin")
            if any(e != "ok" for e in tw["err_a"] + tw["err_t"]):
                fail("c05:executer:twin:step-failed", "reorg probe: a step failed: %s / %s" % (tw["err_a"], tw["err_t"]), r, -2)
            else:
                # exceptions of B's own span only (computed from the recorded finalized heights, not from the dumps); what
                # differed between the node and the twin BEFORE B (leftovers of the node's earlier history: temp records,
                # pruned records, the marker) is excluded key by key from the observed dumps a0/t0
                hb = tw["b"]["height"]
                ev = min_event_delete(tw["fh_b_post"], hb, keep)
                dfb = tw["fh_b_post"] if tw["fh_b_post"] > tw["fh_b_pre"] else None
                temps = {hb}
                a0 = dict(map(tuple, tw["a0"]))
                t0 = dict(map(tuple, tw["t0"]))
                predif = {k for k in set(a0) | set(t0) if a0.get(k) != t0.get(k)}
                bump("twin keys differing before B: %s" % ("none" if not predif else "some"))
                if tw["fh_b_post"] > tw["fh_b_pre"]:
                    bump("twin with B raising finality")
                fa = [kv for kv in tw["a"] if kv[0] not in predif]
                ft = [kv for kv in tw["t"] if kv[0] not in predif]
                tw_terms.append("(%s, %s, %s, %s, [%s])" % (dump_term(it, ft), dump_term(it, fa), optN(ev), optN(dfb),
                                                            "; ".join(str(x) for x in sorted(temps))))
                tw_ctx.append(r)
                floor("executer twin probes evaluated")
                if tip_key(tw["tip_a"]) != tip_key(tw["tip_t"]) or tw["votes_a"] != tw["votes_t"]:
                    fail("c05:executer:twin:tip-or-bft-store", "reorg probe: node (apply B, delete B, apply B') and twin (apply B') differ in "
                         "tip or BFT store digest", r, -2, observed={"tip_a": tw["tip_a"], "tip_t": tw["tip_t"]})
                ck.nontrivial(("twin", tw["b2"]["id"]))
    ra = ck.coq_eval(IMPORTS, "eapply_case", "check_eapply", ea_terms, shard=25, tag="eapply")
    rd = ck.coq_eval(IMPORTS, "delete_case", "check_delete", de_terms, shard=25, tag="edelete")
    rr = ck.coq_eval(IMPORTS, "restore_case", "check_restore", re_terms, shard=25, tag="erestore")
    rt = ck.coq_eval(IMPORTS, "restore_case", "check_restore", tw_terms, shard=10, tag="etwin")
    for name, res, ctx in (("apply", ra, ea_ctx), ("delete", rd, de_ctx)):
        if res is None:
            continue
        for code, (r, ix) in zip(res, ctx):
            if code != 0:
                spec_bad = code >= 2
                fail("c05:executer:%s:%s" % (name, "spec" if spec_bad else "model"),
                     "Executer %s step #%d: the database after the step %s" % (
                         name, ix, "violates the step oracle (stored diff classifies exactly the changed consensus-store keys / block "
                         "records present or absent / temp block)" if spec_bad else "differs from the batch computed by the proved model"),
                     r, ix, spec=spec_bad, corr="Corr.C05.check_%s vs consensus.Executer" % ("eapply" if name == "apply" else "delete"))
    if rr is not None:
        for code, (r, ix, aix) in zip(rr, re_ctx):
            if code != 0:
                pre = dict(map(tuple, r["steps"][aix]["pre"]))
                post = dict(map(tuple, r["steps"][ix]["post"]))
                diffk = sorted(k for k in set(pre) | set(post) if pre.get(k) != post.get(k) and k[:2] not in ("1b", "07"))
                fail("c05:executer:restore:prefix-%s" % (diffk[0][:2] if diffk else "??"),
                     "Executer.deleteBlock at step #%d does not restore the database of before processValidated step #%d: keys %s differ" % (
                         ix, aix, diffk[:6]), r, ix, observed=diffk[:20], corr="Corr.C05.check_restore (C05_delete_inverts_apply_partial)")
    if rt is not None:
        for code, r in zip(rt, tw_ctx):
            if code != 0:
                a = dict(map(tuple, r["twin"]["a"]))
                t = dict(map(tuple, r["twin"]["t"]))
                diffk = sorted(k for k in set(a) | set(t) if a.get(k) != t.get(k) and k[:2] not in ("1b", "07"))
                fail("c05:executer:twin:prefix-%s" % (diffk[0][:2] if diffk else "??"),
                     "reorg confluence: apply B, delete B, apply B' differs from apply B' on a twin node at keys %s" % diffk[:6], r, -2,
                     observed=diffk[:20], corr="Corr.C05.check_restore (C05_reorg_confluence_partial)")
    ck.extra["executer_restore_checks"] = len(re_terms)
    ck.extra["executer_twin_checks"] = len(tw_terms)


def run(ck):
    ck.prove(extra_targets=["Corr/C05.vo"])
    binp = ck.go_build("c05")
    if not binp:
        return
    n = "80" if ck.tier == "quick" else "1500"
    recs = run_harness_retry(ck, binp, ["-n", n])
    if recs is None:
        return
    corpus = os.path.join(ROOT, "corpus", "C05")
    if os.path.isdir(corpus):
        for f in sorted(os.listdir(corpus)):
            if f.endswith(".jsonl"):
                extra = ck.run_harness(binp, ["-in", os.path.join(corpus, f)], out_name="corpus_%s" % f)
                if extra:
                    recs = extra + recs
    evaluate(ck, recs)
    bine = ck.go_build("c05e")
    if bine:
        erecs = run_harness_retry(ck, bine, ["-n", "14" if ck.tier == "quick" else "150"], out_name="ecases.jsonl")
        if erecs is not None:
            evaluate_e(ck, erecs)
            ck.extra["executer_histories"] = len(erecs)
    # count floors: met by construction (the first history of each driver is scripted, the dup-tx record is always emitted),
    # so they cannot fail by chance; they fail when a change makes deletes / probes stop happening
    fc = ck.extra.get("floor_counts", {})
    for name, least in (("scripted blockchain-level history", 1), ("drain histories", 1), ("restore checks in the scripted history", 3),
                        ("deletes followed by a flush comparison", 3), ("histories with a final flush comparison", 1),
                        ("scripted restart followed by at least two deletes", 1), ("dup-tx scenario evaluated", 1), ("executer restore checks in the scripted history", 2),
                        ("executer deletes followed by a flush comparison", 2), ("executer twin probes evaluated", 1),
                        ("executer scripted restart followed by at least two deletes", 1)):
        ck.obligations += 1
        if fc.get(name, 0) >= least:
            ck.discharged += 1
        else:
            ck.fail_obligation("floor:" + name, "coverage floor not met: %s = %d, at least %d expected by construction" % (
                name, fc.get(name, 0), least))
    for r in recs[:3]:
        ck.sample({"keep": r["keep"], "maxcache": r["maxcache"], "genesis_height": r["genesis_height"],
                   "steps": [[s["op"], s.get("err"), s.get("height", s.get("blk", {}).get("height"))] for s in r["steps"]]})
    ck.cov["rule"] = ("histories of 4-12 apply/delete steps on the real Chain/DataAccess + diffdb consensus-store batch (blocks with "
                      "0-3 txs, 0-2 assets, 0-3 events, 0-6 staged set/del ops incl. create+overwrite+delete of one key, finality "
                      "advances, removeTemp/saveTemp, reorgs, re-applies, keepEvents in {-1,0,1,2,300}, block cache 2..515); one "
                      "evaluation = one step; non-trivial = an apply with content, or a delete checked against the dump before its "
                      "apply; distinct by block id / step pair")
    ck.extra["traces_validated_against_impl"] = len(recs)
    ck.assume += ["transaction ids of an applied block are not already stored (application layer nonce check); histories that "
                  "reuse one are model-checked only",
                  "deletes at or below the finalized height are refused by Executer.deleteBlock (outside the property)",
                  "diff codec round trip (C08) — also observed on every apply (diff_enc_roundtrip)",
                  "pebble Apply(batch) is atomic (C13)"]
    if ck.tier == "thorough":
        ck.coqchk(["LE.Properties.C05"])


def replay(ck, path):
    if path.endswith(".jsonl"):
        inp = os.path.abspath(path)
    else:
        doc = json.load(open(path))
        case = doc.get("input")
        if not case:
            print("replay names a broken obligation, no input: %s" % doc.get("what"))
            run(ck)
            return ck.finish(LEVEL)
        if "ehistory" in case:
            inp = os.path.join(ck.work, "replay_in.jsonl")
            open(inp, "w").write(json.dumps(case["ehistory"]) + "\n")
            bine = ck.go_build("c05e")
            if bine:
                erecs = ck.run_harness(bine, ["-in", inp], out_name="replay.jsonl")
                if erecs is not None:
                    evaluate_e(ck, erecs)
                    print("replayed %d executer-level records" % len(erecs))
            return ck.finish(LEVEL)
        inp = os.path.join(ck.work, "replay_in.jsonl")
        open(inp, "w").write(json.dumps(case["history"]) + "\n")
    binp = ck.go_build("c05")
    if not binp:
        return ck.finish(LEVEL)
    recs = ck.run_harness(binp, ["-in", inp], out_name="replay.jsonl")
    if recs is not None:
        evaluate(ck, recs)
        print("replayed %d histories: %s" % (len(recs), json.dumps([[(s["op"], s.get("err"), s.get("panic")) for s in r["steps"]] for r in recs])[:2000]))
    return ck.finish(LEVEL)
