"""C10 — sparse Merkle trie (pkg/trie/smt): root commits to exactly the map; proofs sound and complete."""
import glob
import json
import os
from core import cbool, clist, cbytes

LEVEL = "proof"
READY = True
MANIFEST = {
    "technique": "Coq proof on Gallina model (parametric hash) + differential correspondence evaluated in Coq with an in-Coq SHA-256",
    "text": "ROOT clauses: (1) a REFERENCE trie (textbook insert-with-split / delete-with-leaf-lifting over bit keys, batches with "
            "first-occurrence-wins de-duplication, empty value = delete; SMT/Tree.v): for every key length and batch sequence its hash "
            "equals the LIP-0039 root of the resulting map, histories with the same final map give the same root, the empty map gives "
            "the empty hash. (2) a LAYERED model of the Go update path and node store (SMT/Layered.v: sub-trees of height h stored under "
            "their root hash as (structure, nodes), stubs, getSubtree, updateSubtree/updateNode with the direct cases, Del of the old "
            "lower sub-tree before and Set of every new sub-tree after the recursive update, calculateSubTree's collapsing, Update's "
            "de-duplication; state = (store, root hash), which is all a trie object holds) is PROVED to refine the reference trie for "
            "every h > 0 (so 4 and 8), under an injective, domain-separated hash: from the empty trie every history runs without error, "
            "the layered root is the LIP-0039 root of the map = the reference hash (hence independent of order / batching / overwrites / "
            "deletions / sub-tree height), the store holds every sub-tree reachable from the current root (reading back through the "
            "store yields a well-formed trie with exactly that map), and continuing from a re-opened (store, root) is the "
            "uninterrupted run (C10_layered_refines, _reopen_continues, _layout_independent, _root_is_function_of_map). The layered "
            "model is TIED to the code by store dumps: after every Update of small histories the real DB contents (sub-tree root hash "
            "-> encoded sub-tree bytes) must equal the model's store entry by entry, and must contain every sub-tree reachable from "
            "the root. Modelling abstractions that remain TESTED only: key bins read as key bits, left/right goroutines run left "
            "first, byte encoding, batchdb read semantics (differential runs on batchdb over pebble); the level-by-level loops of "
            "calculateSubTree (temp-holder queue) and treeHasher are transcribed on the flat lists (SMT/LayeredFlat.v) and PROVED "
            "equal to the tree-recursive norm/shash used by the model (C10_layered_calculateSubTree_is_norm, _treeHasher_is_shash), "
            "and the variant of the model calling them is PROVED equal to the model (C10_layered_update_flat_is_layered). The sub-tree "
            "byte encoding is a Gallina codec (SMT/LayeredCodec.v) with a PROVED round trip under explicit side conditions (1..256 "
            "bottom nodes, key length, 32-byte values and stub hashes) and is tied to subtree.go by the dumps, including two "
            "scripted full 256-node sub-trees (length byte 255). trie.Prove THROUGH THE STORE is modelled (SMT/LayeredProve.v: "
            "generateQueryProof reading sub-trees and recursing through stubs, then the same merge) and PROVED to return exactly "
            "the proof of the reference-trie prover for every key list after every history (C10_layered_prove_refines), and is "
            "compared with the real Prove on two thirds of the proof cases plus every height-4 case in the quick tier, on all of "
            "them in thorough. PROOF clauses: smt.Verify is modelled "
            "faithfully (Verify+CalculateRoot byte level) and proved SOUND for any number of queries under an injective, domain-separated "
            "hash, end to end against the map (a non-empty value is in the map, an empty value or a different query key means the "
            "requested key is absent); completeness is proved only for the canonical proof of one key; MULTI-KEY COMPLETENESS (a proof "
            "generated for any set of query keys verifies) is NOT proved - proved stepping stones: distinct nodes of a well-formed trie "
            "have distinct hashes (C10_node_hash_distinct), honest bitmaps have a true bottom bit and survive the wire "
            "(C10_honest_bitmap_bottom_bit, C10_bitmap_wire_roundtrip); missing: the lock-step simulation of calculateSiblingHashes "
            "(multiset work list with twins, dedup by hash) with CalculateRoot's work list, stated precisely in docs/C10.md - so it rests on the test "
            "(every honest multi-key proof must verify in Go and in the model). Verify/CalculateRoot/Prove models are tied to the Go code on every case: Go proofs must equal model proofs "
            "and verify in both, every tampered proof gets the same verdict in both and, if accepted, must state only true claims.",
    "note": "Trusted: Coq kernel + vm_compute, in-Coq SHA-256 (checked on FIPS vectors), Go harness and Python glue. The refinement "
            "theorems are about the layered Gallina model; its agreement with smt.go (bins, goroutine order, encoding) is "
            "checked by store-dump correspondence, not proved. Of the anchored callers only blockchain.CalculateEventRoot "
            "(pkg/blockchain/event.go) is driven; pkg/framework/handler.go (Commit/Revert/Init calling NewTrie/Update) is NOT driven by "
            "this check - its use of the trie (keys, 32-byte value hashes, root passed to NewTrie) enters as declared assumptions, and a "
            "defect there (e.g. seed C10-w3-2 in ABIHandler.Init) is caught by C16, not by C10. Per-kind floors are obligations: a run "
            "that evaluates fewer root / proof / store-dump / production-store / store-prover cases than the floor fails.",
}
# minimum number of evaluated cases per kind (root histories, proof cases, store-dump histories, production-store root / proof
# comparisons, store-prover comparisons); quick tier seen: 74 / 34 / 30 / 64 / 34 / 32
FLOORS = {
    "quick": dict(root=60, proof=25, stores=20, prodroots=50, prodproofs=25, lprove=20),
    "thorough": dict(root=1600, proof=700, stores=300, prodroots=1500, prodproofs=700, lprove=700),
}
IMPORTS = "From LE Require Import SMT.Spec SMT.Tree SMT.Verify SMT.Prove SMT.Layered Corr.C10."


def hb(h):
    return cbytes(h)


def wop(o):
    return "(%s, %s)" % (hb(o[0]), hb(o[1]))


def batches(bs):
    return clist(bs, lambda b: clist(b, wop))


def root_term(r):
    return "(%d, %s, %s)" % (r["kl"], batches(r["batches"]), clist(r["roots"], hb))


def wq(q):
    return "(%s, %s, %s)" % (hb(q[0]), hb(q[1]), hb(q[2]))


def obs_term(o):
    return "(%s, %s, %s, %d, %d, %s)" % (clist(o["keys"], hb), clist(o["sibs"], hb), clist(o["qs"], wq), o["rsel"], o["v"],
                                      cbool(o["must"]))


def proof_term(r):
    return "(%d, %s, %s, %s, %s, %s)" % (r["kl"], batches(r["batches"]), clist(r["keys"], hb), clist(r["sibs"], hb),
                                      clist(r["qs"], wq), clist(r["obs"], obs_term))


def store_term(r):
    """layered-model tie: per batch (operations, implementation root, dump of the node store after the Update)"""
    steps = ["(%s, %s, %s)" % (clist(b, wop), hb(root), clist(d, lambda e: "(%s, %s)" % (hb(e[0]), hb(e[1]))))
             for b, root, d in zip(r["batches"], r["roots"], r["stores"])]
    return "(%d, %d, [%s])" % (r["kl"], r.get("sh") or 8, "; ".join(steps))


def lprove_term(r):
    """trie.Prove through the store: (key length, sub-tree height, batches, query keys, implementation sibling hashes, queries)"""
    return "(%d, %d, %s, %s, %s, %s)" % (r["kl"], r.get("sh") or 8, batches(r["batches"]), clist(r["keys"], hb), clist(r["sibs"], hb),
                                      clist(r["qs"], wq))


def balance(rs, cost, shard):
    """reorder so that the contiguous shards cut by coq_eval get an even mix of cheap and expensive cases"""
    rs = sorted(rs, key=cost, reverse=True)
    ns = max(1, (len(rs) + shard - 1) // shard)
    out = []
    for j in range(ns):
        out.extend(rs[j::ns])
    return out


def evaluate(ck, recs):
    roots = [r for r in recs if r["k"] == "root"]
    proofs = [r for r in recs if r["k"] == "proof"]
    # behaviour outside the declared assumptions (documented, never a violation)
    notes = [r for r in recs if r["k"] == "note"]
    if notes:
        ck.extra["outside_assumptions_observed"] = [
            "%s: update=%s prove=%s verify=%s" % (x["what"], x["upderr"] or x["updpanic"] or "ok", x["proveerr"] or x["provepanic"] or "ok",
                                                  {1: "true", 0: "false", 2: "error", -1: "-"}[x["verdict"]]) for x in notes]
    recs = [r for r in recs if r["k"] in ("root", "proof")]
    for r in recs:
        if r.get("panic") or r.get("err"):
            ck.count()
            f = dict(kind="input", key="c10:%s:%s" % (r["k"], "panic" if r.get("panic") else "error"),
                     what="smt %s: implementation %s on %s" % (r["k"], r.get("panic") or r.get("err"), json.dumps(r)[:600]), case=r,
                     theorem_or_correspondence="harness c10 vs pkg/trie/smt")
            f["spec_violated"] = True
            ck.failures.append(f)
    # production store (batchdb over pebble, reads never see the running batch): must give the same roots / proofs
    for r in recs:
        if r.get("panic") or r.get("err"):
            continue
        bad = None
        if r["k"] == "root" and r.get("prodroots") is not None and (r.get("proderr") or r.get("prodroots") != r["roots"]):
            bad = "roots on the production store differ: %s vs %s %s" % (r.get("prodroots"), r["roots"], r.get("proderr", ""))
        if r["k"] == "proof" and r.get("prodsibs") is not None and (r.get("proderr") or r["prodsibs"] != r["sibs"] or r["prodqs"] != r["qs"]):
            bad = "proof generated on the production store differs or fails: %s" % r.get("proderr", "other sibling hashes / queries")
        if bad:
            ck.count()
            f = dict(kind="input", key="c10:%s:production-store" % r["k"], case=r,
                     what="smt %s (%s, key length %d): with batchdb over pebble (Get never sees the batch of the running Update, batch "
                          "written between Updates, trie re-created from the root) %s; input %s" % (
                              r["k"], r["gen"], r["kl"], bad[:400], json.dumps({k: v for k, v in r.items() if k in ("kl", "gen", "batches", "reopen", "keys", "sh")})[:500]),
                     theorem_or_correspondence="harness c10 (production store semantics) vs pkg/trie/smt + pkg/db/batchdb")
            f["spec_violated"] = True
            ck.failures.append(f)
    roots = [r for r in roots if not (r.get("panic") or r.get("err"))]
    proofs = [r for r in proofs if not (r.get("panic") or r.get("err"))]
    kinds = ck.extra.setdefault("kind_counts", dict(root=0, proof=0, stores=0, prodroots=0, prodproofs=0, lprove=0))
    kinds["root"] += len(roots)
    kinds["proof"] += len(proofs)
    kinds["prodroots"] += sum(1 for r in roots if r.get("prodroots") is not None)
    kinds["prodproofs"] += sum(1 for r in proofs if r.get("prodsibs") is not None)
    roots = balance(roots, lambda r: r["kl"] * (1 + sum(len(b) for b in r["batches"])), 6)
    proofs = balance(proofs, lambda r: r["kl"] * ((1 + len(r["obs"])) * (1 + len(r["keys"])) + 4 * sum(len(b) for b in r["batches"])), 3)
    # node-store dumps (small histories): the layered model must produce the same store after every Update
    stores = [r for r in roots if r.get("stores") and len(r["stores"]) == len(r["batches"]) == len(r["roots"])]
    stores = balance(stores, lambda r: r["kl"] * (1 + sum(len(b) for b in r["batches"])) * len(r["batches"]), 3)
    rr = ck.coq_eval(IMPORTS, "root_case", "check_root", [root_term(r) for r in roots], shard=6, tag="root", timeout=1700)
    rp = ck.coq_eval(IMPORTS, "proof_case", "check_proof", [proof_term(r) for r in proofs], shard=3, tag="proof", timeout=1700)
    rs_ = ck.coq_eval(IMPORTS, "store_case", "check_store", [store_term(r) for r in stores], shard=3, tag="store", timeout=1700)
    # trie.Prove through the store: the layered prover on the layered store must return the implementation's proof
    lproofs = list(proofs) if ck.tier != "quick" else [r for i, r in enumerate(proofs) if i % 3 != 2 or r.get("sh")]
    lproofs = balance(lproofs, lambda r: r["kl"] * (1 + len(r["keys"]) + 2 * sum(len(b) for b in r["batches"])), 6)
    rl = ck.coq_eval(IMPORTS, "lprove_case", "check_lprove", [lprove_term(r) for r in lproofs], shard=6, tag="lprove", timeout=1700)
    if rl is not None:
        kinds["lprove"] += len(lproofs)
        for r, code in zip(lproofs, rl):
            ck.count()
            ck.extra["store_provers_compared"] = ck.extra.get("store_provers_compared", 0) + 1
            if code != 0:
                f = dict(kind="input", key="c10:lprove:%s%s:model" % (r["gen"], ":subtree-height-%d" % r["sh"] if r.get("sh") else ""),
                         what="smt Prove through the store (%s, key length %d, sub-tree height %d): the proof of the implementation differs "
                              "from the layered prover (generateQueryProof model on the layered store) on %s" % (
                                  r["gen"], r["kl"], r.get("sh") or 8, json.dumps({k: v for k, v in r.items() if k != "obs"})[:600]),
                         case=r, theorem_or_correspondence="Corr.C10.check_lprove (SMT/LayeredProve.v) vs pkg/trie/smt Prove")
                f["spec_violated"] = False
                ck.failures.append(f)
    if rs_ is not None:
        kinds["stores"] += len(stores)
        for r, code in zip(stores, rs_):
            ck.count(len(r["stores"]))
            ck.nontrivial(("store", r["kl"], r.get("sh", 0), json.dumps(r["batches"])))
            ck.extra["store_dumps_compared"] = ck.extra.get("store_dumps_compared", 0) + len(r["stores"])
            ck.extra["store_entries_compared"] = ck.extra.get("store_entries_compared", 0) + sum(len(d) for d in r["stores"])
            if code != 0:
                spec_bad = code >= 2
                what = ("smt node store (%s, key length %d, sub-tree height %d): %s (code %d) on %s" % (
                    r["gen"], r["kl"], r.get("sh") or 8,
                    "the store of the implementation misses a sub-tree reachable from its root, or the trie read back through "
                    "the store does not hash to the root" if spec_bad else
                    "the store after an Update (set of (sub-tree root hash, encoded sub-tree)) or the root differs from the layered model",
                    code, json.dumps({k: v for k, v in r.items() if k in ("kl", "gen", "batches", "reopen", "sh")})[:600]))
                f = dict(kind="input", key="c10:store:%s%s:%s" % (r["gen"], ":subtree-height-%d" % r["sh"] if r.get("sh") else "",
                                                                "spec" if spec_bad else "model"),
                         what=what, case={k: v for k, v in r.items() if k != "stores"},
                         theorem_or_correspondence="Corr.C10.check_store (SMT/Layered.v) vs pkg/trie/smt")
                f["spec_violated"] = spec_bad
                ck.failures.append(f)
    for rs, res, fn in ((roots, rr, "check_root"), (proofs, rp, "check_proof")):
        if res is None:
            continue
        for r, code in zip(rs, res):
            if r["k"] == "root":
                ck.count(len(r["roots"]))
                ck.nontrivial(("root", r["kl"], r["gen"], r.get("sh", 0), json.dumps(r["batches"])))
            else:
                ck.count(len(r["obs"]))
                for o in r["obs"]:
                    ck.nontrivial(("obs", json.dumps(o["keys"]), json.dumps(o["qs"]), json.dumps(o["sibs"]), o["rsel"]))
            if code != 0:
                spec_bad = code >= 2
                detail = ""
                if r["k"] == "proof":
                    detail = " accepted-tamperings=%s" % [o["what"] for o in r["obs"] if o["v"] == 1 and not o["must"]]
                what = "smt %s (%s, key length %d%s): implementation %s (code %d)%s on %s" % (
                    r["k"], r["gen"], r["kl"], ", sub-tree height %d" % r["sh"] if r.get("sh") else "", "violates the C10 oracle" if spec_bad else "differs from the proved model", code, detail,
                    json.dumps({k: v for k, v in r.items() if k != "obs"})[:600])
                f = dict(kind="input", key="c10:%s:%s%s:%s" % (r["k"], r["gen"] if r["k"] == "root" else "verify",
                                                               ":subtree-height-%d" % r["sh"] if r.get("sh") else "", "spec" if spec_bad else "model"),
                         what=what, case=r, theorem_or_correspondence="Corr.C10.%s vs pkg/trie/smt" % fn)
                f["spec_violated"] = spec_bad
                ck.failures.append(f)


def run_capture(ck, binp, args, out_name="cases.jsonl"):
    """run the harness; if it dies (a panic inside a goroutine spawned by the code under test cannot be recovered) report the
    case that was running (its input is in <out>.pending) as a concrete failing input"""
    n_before = len(ck.failures)
    pend = os.path.join(ck.work, out_name + ".pending")
    if os.path.exists(pend):  # left over by an earlier crashed run: must not be blamed on this one
        os.remove(pend)
    recs = ck.run_harness(binp, args, out_name=out_name)
    if recs is None:
        if os.path.exists(pend):
            case = json.load(open(pend))
            why = ck.failures[-1]["what"][:500] if len(ck.failures) > n_before else "harness died"
            f = dict(kind="input", key="c10:%s:crash" % case.get("k"), case=case,
                     what="smt %s (%s, key length %s): the implementation crashed the process (%s) on %s" % (
                         case.get("k"), case.get("gen"), case.get("kl"), " ".join(why.split())[:300], json.dumps(case)[:500]),
                     theorem_or_correspondence="harness c10 vs pkg/trie/smt (unrecoverable panic)")
            f["spec_violated"] = True
            ck.failures.append(f)
    return recs


def corpus(ck, binp):
    out = []
    root = os.path.dirname(os.path.dirname(os.path.dirname(os.path.abspath(__file__))))
    for p in sorted(glob.glob(os.path.join(root, "corpus", "C10", "*.jsonl"))):
        recs = run_capture(ck, binp, ["-in", p], out_name="corpus_%s" % os.path.basename(p))
        if recs:
            out.extend(recs)
    return out


def run(ck):
    ck.prove(extra_targets=["Corr/C10.vo"])
    binp = ck.go_build("c10")
    if not binp:
        return
    if ck.tier == "quick":
        args = ["-nroot", "28", "-nproof", "30", "-nev", "10", "-maxobs", "28", "-nfull", "2", "-fullkl", "4", "-ndump", "28"]
    else:
        args = ["-nroot", "800", "-nproof", "800", "-nev", "200", "-maxobs", "60", "-nfull", "12", "-ndump", "400"]
    recs = corpus(ck, binp)
    main = run_capture(ck, binp, args)
    if main is None:
        return
    recs = recs + main
    evaluate(ck, recs)
    # per-kind FLOORS: every tie must really have been evaluated (a flag or generator that emits nothing of a kind, e.g. a broken
    # dump path, would otherwise drop that tie with exit 0); the flags above meet them by construction at every seed
    floors = FLOORS["quick" if ck.tier == "quick" else "thorough"]
    seen = ck.extra.get("kind_counts", {})
    for kind, need in floors.items():
        ck.obligations += 1
        if seen.get(kind, 0) >= need:
            ck.discharged += 1
        else:
            ck.fail_obligation("floor:" + kind, "only %d cases of kind %s were evaluated (floor %d): the %s tie did not run as intended" % (
                seen.get(kind, 0), kind, need, kind))
    full = [r for r in recs if r["k"] == "root" and r.get("gen") == "full-dump" and r.get("stores") and len(r["stores"]) == 2
            and not (r.get("err") or r.get("panic"))]
    ck.obligations += 1
    if len(full) >= 2:
        ck.discharged += 1
    else:
        ck.fail_obligation("floor:full-dump", "the two scripted full 256-node sub-tree histories with store dumps were not both produced (%d)" % len(full))
    for k in ("root", "proof"):
        xs = [x for x in recs if x["k"] == k and x["batches"] and len(json.dumps(x)) < 6000]
        if xs:
            s = dict(xs[0])
            if "obs" in s:
                s["obs"] = s["obs"][:2]
            ck.sample(s, limit=3)
    ck.cov["rule"] = ("histories of 1..8 batches of 0..10 operations (insert, overwrite, delete present/absent, duplicate key inside a "
                      "batch, empty batch, same-value rewrites, deletes of absent neighbours, whole no-op batches) over random, clustered "
                      "(shared prefix up to the last 12 bits), prefix (shared first 1..3 bytes) and subtree-crossing keys of "
                      "1, 2, 4 and 32 bytes; trie re-created from its root (NewTrie(root)) before random batches; each final map also "
                      "inserted as one shuffled batch into a fresh trie; CalculateEventRoot on random events; proofs for 1..5 query keys "
                      "(present, absent neighbours, absent random, duplicates), each with up to 30 (quick) / 60 (thorough) tamperings (root, value, query key bits, one byte moved between key and "
                      "value in both directions, bitmap, requested key, each sibling hash changed/removed/added, query dropped, forged extra "
                      "and forged deeper queries with F>T and F<T); full 8-bit sub-trees (256 keys differing in one byte, then reopen/update/"
                      "no-op/prove); tries created and re-opened with keyLength 0; node-store dumps after every Update of the histories with at most 30 "
                      "operations (layered model, tree and flat variants, vs real store: entries equal, reachable sub-trees present). "
                      "Evaluations = roots compared + verification observations + store dumps compared; distinct = by full input.")
    ck.extra["traces_validated_against_impl"] = len(recs)
    ck.assume += ["SHA-256 has no collisions on the values met (hypothesis of the soundness and layered refinement theorems)",
                  "values are 32-byte hashes or empty (= delete): Update accepts any value length, but a stored sub-tree with another "
                  "value length cannot be decoded again (newSubTree mis-cuts / panics); callers: framework stateSMTBatch hashes every value; "
                  "CalculateEventRoot stores raw encoded events but builds a one-shot in-memory trie that is never re-opened",
                  "all keys of a trie have the trie's key length (keys_ok): a shorter key panics in getBinIndex inside an updateNode "
                  "goroutine (process crash); callers build keys as 6-byte prefix + 32-byte hash (getTreeKey) or 8-byte topic hash + 4-byte "
                  "index (events), never from unchecked external input",
                  "a trie is re-opened with the SAME configuration: NewTrie resets the sub-tree height to 8, the layout is a property of "
                  "the opener and is not stored; SetSubtreeHeight(4) is used by no non-test caller"]
    if ck.tier == "thorough":
        ck.coqchk(["LE.Properties.C10"])


def replay(ck, path):
    doc = json.load(open(path))
    case = doc.get("input")
    if not case:
        print("replay names a broken obligation, no input: %s" % doc.get("what"))
        run(ck)
        return ck.finish(LEVEL)
    binp = ck.go_build("c10")
    inp = ck.work + "/replay_in.jsonl"
    open(inp, "w").write(json.dumps({k: v for k, v in case.items() if k not in ("obs", "roots", "sibs", "qs", "prodroots", "prodsibs", "prodqs", "proderr", "stores")}) + "\n")
    recs = run_capture(ck, binp, ["-in", inp], out_name="replay.jsonl")
    if recs is not None:
        ck.prove(extra_targets=["Corr/C10.vo"])
        evaluate(ck, recs)
        print("replayed %d case(s)" % len(recs))
    return ck.finish(LEVEL)
