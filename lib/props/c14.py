"""C14 — transaction pool indexes consistent, bounded, live."""
import json
import os
import re
import subprocess
from core import cN, cbool, clist, ROOT, REPO, COQ, GOENV, sh

LEVEL = "proof"
READY = True
MANIFEST = {
    "technique": "Coq proof on a Gallina model of txpool.go/txlist.go (invariant over all atomic-operation sequences) + lock "
                 "skeleton regenerated from the source (progress theorem) + differential correspondence on random op sequences "
                 "with tiny limits evaluated in Coq",
    "text": "Theorems (all sequences of Add / Remove / reorg-spawn / single reorg-goroutine actions - every interleaving at the granularity "
            "of the POOL lock; see the note for the list-lock granularity that is not covered; all "
            "verifier answers, Publish results and eviction tie-breaks; limits >= 1): the three indexes agree (ids unique, fee "
            "queue = allTransactions, every pooled tx in exactly its sender's list at its nonce and vice versa), size <= "
            "MaxTransactions, per-sender size <= limit, one tx per (sender, nonce), a replacement needs fee >= old + "
            "MinReplacementFeeDifference (no uint64 wrap; also read off the states: a pooled newcomer of an occupied (sender, nonce) slot always "
            "pays the increase, whichever path - list replacement or full-pool eviction - removed the occupant) and the dropped tx leaves every index, eviction always finds a victim, "
            "processables are a gap-free ascending run of stored nonces whose txs passed verification in a reorg and are exactly "
            "the sender's lowest pooled nonces (never a run above a pooled, unprocessed lower nonce). Blocking: "
            "the lock skeletons of txpool.go/txlist.go/event.go, regenerated from /repo on every run, are safe programs, hence "
            "(Conc/Progress.v) no pool operation can wait for a lock forever, including when the pool is full; every method of the pool "
            "and of the sender list takes its own lock exactly once on every path in the mode pinned for it (W for Add/Remove/list "
            "operations, R for the getters; generated Conc/Atomic.v obligations locking_table_ok, atomic_ops_single_section), which "
            "is what makes the single-step model the implementation's state machine; the harness is built with -race and keeps a "
            "reader calling the read API during every overlapped pair. The model is tied to "
            "the Go code by replaying random operation sequences (limits 1..3, evictions, replacements, reorgs interleaved with "
            "Add/Remove at the verifier call, Adds parked at their own verifier call overlapped with a second Add / Remove / reorg) "
            "on the real pool through a verif-tagged snapshot hook, each call under a watchdog; "
            "every snapshot is compared with the model and checked against the declarative oracle.",
    "note": "Partial on the liveness half: the theorem is deadlock-freedom of the lock/blocking skeleton (some goroutine can always "
            "step; lock waiters are never stuck), not termination under an unfair scheduler; opaque calls made under the pool lock "
            "(ABI VerifyTransaction, conn.Publish) are assumed to return. The invariant theorems are about the state machine whose atomic "
            "steps are Add, Remove, reorg spawn and single reorg-goroutine actions; a method split into several critical sections "
            "would be a different machine - excluded by the generated single-critical-section obligation. Harness interleavings are "
            "controlled at the verifier calls (reorg goroutines, and Add itself). NOT covered, neither by the theorem nor by the harness: interleavings at LIST-lock granularity - Add is one section of the pool lock but takes the sender-list lock several times (GetUnprocessables, list.Remove, RejectsReplacement, list.Add) and reorg goroutines call GetPromotable/GetProcessables/Promote holding only the list lock, so a Promote falling between two list-lock sections of one Add is not an operation sequence of the model; the list-level invariants hold per list operation and Promote re-validates under the list lock, but PoolInv is not proved for an Add split that way and the harness has no gate at list.Promote. 'passed verification' = the verifier did not answer Invalid (verifyTransactions treats "
            "Pending as a pass; the Pending branch of reorg is dead code). Trusted: Coq kernel + vm_compute, translate/skeletons, "
            "Go harness, Python glue, container/heap keeping the minimum at index 0.",
}
IMPORTS = "From LE Require Import Pool.Assoc Pool.TxList Pool.TxPool Corr.C14."
SKEL_OUT = os.path.join(COQ, "Gen", "Skeletons.v")


def run_translator(ck):
    """regenerate coq/Gen/Skeletons.v from /repo; returns summary dict or None (obligation failure recorded)"""
    tdir = os.path.join(ROOT, "translate", "skeletons")
    binp = os.path.join(ck.work, "skeletons")
    rc, out = sh(["go", "build", "-o", binp, "."], cwd=tdir, env=GOENV, timeout=600)
    ck.obligations += 1
    if rc != 0:
        ck.fail_obligation("translator-build", "translate/skeletons does not build: " + out[-800:])
        return None
    p = subprocess.run([binp, "-repo", REPO, "-out", SKEL_OUT], stdout=subprocess.PIPE, stderr=subprocess.PIPE, text=True)
    ck.checker_cmds.append("translate/skeletons -repo %s -out coq/Gen/Skeletons.v" % REPO)
    if p.returncode != 0:
        ck.fail_obligation("translator:skeletons", "lock skeleton extraction failed closed (unrecognised lock idiom or "
                           "construct in the listed files): " + p.stderr[-1500:])
        return None
    ck.discharged += 1
    try:
        return json.loads(p.stdout)
    except ValueError:
        return {}


def count_generated(ck):
    """each generated `Lemma safe_X` / fanouts_ok is a side condition compiled in this run"""
    try:
        src = open(SKEL_OUT).read()
    except OSError:
        return 0
    return len(re.findall(r"^Lemma ", src, re.M))


def tx_term(a):
    return "(mkTx %d %d %d %d %d)" % (a[1], a[2], a[3], a[4], a[5])


def op_term(op):
    k = op[0]
    if k == "add":
        return "(XAdd %s %d %s)" % (tx_term(op), op[6], cbool(op[7]))
    if k == "rm":
        return "(XRm %d)" % op[1]
    if k == "begin":
        return "XBegin"
    if k == "finish":
        return "(XFinish [%s])" % "; ".join("(%d, %d)" % (x[0], x[1]) for x in op[1])
    raise ValueError("unknown op %r" % (op,))


def snap_term(s):
    lists = "; ".join("(%d, %s, %s, %s, %s)" % (l[0], clist(l[1]), clist(l[2]), clist(l[3]), clist(l[4])) for l in s["lists"])
    qh = "None" if s["qhead"] < 0 else "(Some %d)" % s["qhead"]
    return "(mkSnap %s %s %s [%s])" % (clist(s["all"]), clist(s["queue"]), qh, lists)


def step_term(st):
    return "(%s, mkObs %s %s %s %s %s %s %s)" % (op_term(st["op"]), cbool(st["ret"]), cbool(st["hang"]), cbool(bool(st["panic"])),
                                              cbool(st["api"]), clist(st["gone"]), snap_term(st["snap"]), cbool(st.get("skip", False)))


def case_term(r):
    c = r["cfg"]
    return "(mkCfg %d%%nat %d%%nat %d %d, [%s])" % (c[0], c[1], c[2], c[3], ";\n ".join(step_term(s) for s in r["steps"]))


def has_negative(x):
    if isinstance(x, bool):
        return False
    if isinstance(x, int):
        return x < 0
    if isinstance(x, list):
        return any(has_negative(y) for y in x)
    if isinstance(x, dict):
        return any(has_negative(v) for k, v in x.items() if k != "qhead")
    return False


def classify(r, where):
    """(key, what) for a failing case; where = 1000*first model diff + first oracle violation (step indexes from 1)"""
    bad = where % 1000
    diff = where // 1000
    ix = bad or diff
    st = r["steps"][ix - 1] if 0 < ix <= len(r["steps"]) else None
    opk = st["op"][0] if st else "?"
    if st and st["hang"]:
        return "c14:%s:hang" % opk, "pool operation %s did not return within the watchdog (step %d); goroutines inside pkg/txpool: %s" % (
            opk, ix, " | ".join(l for l in st.get("dump", "").splitlines() if l.startswith("goroutine") or "txpool." in l)[:900])
    if st and st["panic"]:
        return "c14:%s:panic" % opk, "pool operation %s panicked: %s (step %d)" % (opk, st["panic"], ix)
    if bad:
        s = st["snap"]
        if len(s["all"]) > r["cfg"][0]:
            return "c14:%s:size" % opk, "pool holds %d transactions with MaxTransactions=%d after step %d" % (len(s["all"]), r["cfg"][0], ix)
        if s["queue"] != s["all"]:
            return "c14:%s:index-queue" % opk, "fee priority queue and allTransactions disagree after step %d" % ix
        for l in s["lists"]:
            ps = l[4]
            if any(b != a + 1 for a, b in zip(ps, ps[1:])):
                return "c14:%s:processables-gap" % opk, "sender %d has processables %s (not a gap-free run) after step %d" % (l[0], ps, ix)
            if ps != l[1][:len(ps)]:
                return "c14:%s:processables-not-lowest" % opk, "sender %d has processables %s but pooled nonces %s (run starts above a pooled lower nonce) after step %d" % (l[0], ps, l[1], ix)
            if len(l[1]) > r["cfg"][1]:
                return "c14:%s:per-sender-size" % opk, "sender %d holds %d transactions with limit %d after step %d" % (l[0], len(l[1]), r["cfg"][1], ix)
        listed = sorted(i for l in s["lists"] for i in l[2])
        if listed != sorted(s["all"]):
            return "c14:%s:index-lists" % opk, "allTransactions %s but sender lists hold %s after step %d" % (s["all"], listed, ix)
        if opk == "add" and st["op"][1] in s["all"]:
            t = st["op"]
            prev = r["steps"][ix - 2]["snap"]["all"] if ix >= 2 else []
            tab = {x["op"][1]: x["op"] for x in r["steps"] if x["op"][0] == "add"}
            for oid in prev:
                o = tab.get(oid)
                if o and oid != t[1] and o[2] == t[2] and o[3] == t[3] and (o[4] + r["cfg"][3] > t[4] or oid in s["all"]):
                    return "c14:add:replacement-without-fee-increase", ("tx %d (fee %d) took the (sender %d, nonce %d) slot of tx %d (fee %d) "
                            "with MinReplacementFeeDifference %d after step %d" % (t[1], t[4], t[2], t[3], oid, o[4], r["cfg"][3], ix))
        if not st["api"]:
            return "c14:%s:api" % opk, "Get/GetAll/GetProcessable disagree with the indexes after step %d" % ix
        return "c14:%s:oracle" % opk, "implementation snapshot violates the index oracle after step %d" % ix
    return "c14:%s:model" % opk, "implementation differs from the proved model at step %d (%s)" % (diff, opk)


def evaluate(ck, recs):
    good, terms = [], []
    for r in recs:
        if has_negative(r["steps"]):
            ck.count()
            f = dict(kind="history", key="c14:unmapped-id", what="snapshot contains an id/address the harness never created: " + json.dumps(r)[:600],
                     case=r, theorem_or_correspondence="Corr.C14.check_seq")
            f["spec_violated"] = True
            ck.failures.append(f)
            continue
        good.append(r)
        terms.append(case_term(r))
    codes = ck.coq_eval(IMPORTS, "seq_case", "check_seq", terms, shard=max(20, len(terms) // 16 + 1), tag="seq")
    if codes is None:
        return
    badix = [i for i, c in enumerate(codes) if c != 0]
    wh = ck.coq_eval(IMPORTS, "seq_case", "where_seq", [terms[i] for i in badix], shard=50, tag="where") if badix else []
    where = dict(zip(badix, wh or []))
    for i, (r, code) in enumerate(zip(good, codes)):
        ck.count()
        kinds = tuple((s["op"][0], s["ret"], len(s["gone"])) for s in r["steps"])
        interesting = any(s["gone"] and s["op"][0] == "add" for s in r["steps"]) or any(
            l[4] for s in r["steps"] for l in s["snap"]["lists"])
        if interesting:
            ck.nontrivial((tuple(r["cfg"]), kinds))
        if code != 0:
            key, what = classify(r, where.get(i, 0))
            f = dict(kind="history", key=key, what=what, case=r, expected="model state / index oracle (Corr.C14)",
                     observed="see steps[].snap", theorem_or_correspondence="Corr.C14.check_seq vs pkg/txpool")
            f["spec_violated"] = code >= 2
            ck.failures.append(f)


BLOCKED = re.compile(r"goroutine \d+ \[(semacquire|sync\.Mutex\.Lock|sync\.RWMutex\.R?Lock|chan receive|chan send|select|sync\.WaitGroup\.Wait|sync\.Cond\.Wait)")


def harness_cases(ck, binp, args, tag):
    """run the harness; a hang is neither erased nor reported from load alone: every hung case is re-run (same input,
    15 s watchdog). The original stays a failure unless the re-run completes AND, in the first run's goroutine dump, no
    goroutine of pkg/txpool was blocked on a lock/channel other than through a call the harness itself was holding."""
    env = {"GORACE": "log_path=%s exitcode=0 halt_on_error=0" % os.path.join(ck.work, "race_c14")}
    recs = ck.run_harness(binp, args, out_name=tag + ".jsonl", env_extra=env)
    if recs is None:
        return None
    hung_all = [r for r in recs if any(s["hang"] for s in r["steps"])]
    if not hung_all:
        return recs
    # load can stall a handful of cases, not dozens: only the first few are re-run (bounded time), the others stay failures
    hung = hung_all[:3]
    inp = os.path.join(ck.work, tag + "_rerun_in.jsonl")
    open(inp, "w").write("".join(json.dumps(r) + "\n" for r in hung))
    n_obl = ck.obligations
    # a hang while the harness itself held a call (interleaved / overlapped steps) may be a schedule-dependent deadlock that one
    # clean sequential re-run erases: every hung case is re-run THREE times (the input file lists each case three times)
    open(inp, "w").write("".join(json.dumps(r) + "\n" for r in hung for _ in range(3)))
    again = ck.run_harness(binp, ["-in", inp, "-n", "0"], out_name=tag + "_rerun.jsonl", timeout=900,
                           env_extra=dict(env, VERIF_WATCHDOG_MS="15000"))
    if again is None:
        # the re-run itself did not finish: the hung cases stay failures; do not add a second (harness) failure for it
        ck.failures = [f for f in ck.failures if not str(f.get("key", "")).startswith("obligation:harness-run")]
        ck.obligations = n_obl
    again = (again or [])[-3 * len(hung):]
    replaced, kept = {}, 0
    for i, orig in enumerate(hung):
        st = next(s for s in orig["steps"] if s["hang"])
        trio = again[3 * i:3 * i + 3] if len(again) == 3 * len(hung) else []
        re_ok = len(trio) == 3 and not any(s["hang"] or s["panic"] for t in trio for s in t["steps"])
        again_i = trio[0] if trio else None
        blocked = bool(BLOCKED.search(st.get("dump", "")))
        if re_ok and (st.get("held") or not blocked):
            replaced[id(orig)] = again_i
        else:
            kept += 1
    kept += len(hung_all) - len(hung)
    # hangs that three longer re-runs did not reproduce are kept visible in the evidence, not only in a note
    ck.extra["hang_unreproduced"] = ck.extra.get("hang_unreproduced", 0) + len(replaced)
    ck.extra["hang_kept_as_failure"] = ck.extra.get("hang_kept_as_failure", 0) + kept
    ck.notes.append("%s: %d case(s) did not return within the watchdog; %d re-run three times with 15 s: %d completed and showed no pool goroutine "
                    "blocked (treated as load), %d kept as failures (dump in the replay)" % (tag, len(hung_all), len(hung), len(replaced), kept))
    return [replaced.get(id(r), r) for r in recs]


def race_reports(ck):
    import glob
    seen = set()
    for f in sorted(glob.glob(os.path.join(ck.work, "race_c14.*"))):
        for txt in [x for x in open(f, errors="replace").read().split("==================") if "DATA RACE" in x]:
            m = re.search(r"lisk-engine/(pkg/\S+?)\(\)", txt)
            site = m.group(1) if m else None
            if site is None:
                ck.fail_obligation("harness-race", "race report without a frame of the code under test (harness-internal): inconclusive: " + txt[:600])
                continue
            if site in seen:
                continue
            seen.add(site)
            fl = dict(kind="schedule", key="c14:race:" + site, what="Go race detector: data race at %s while pool operations overlapped" % site,
                      case={"race_report": txt[:6000]}, expected="every access to the pool indexes under the pool mutex", observed="WARNING: DATA RACE",
                      theorem_or_correspondence="harness/cmd/c14 built with -race (overlapped operations)")
            fl["spec_violated"] = True
            ck.failures.append(fl)
        os.remove(f)


def run(ck):
    import glob
    for f in glob.glob(os.path.join(ck.work, "race_c14.*")):
        os.remove(f)  # stale race logs of an earlier (aborted) run must not be attributed to this one
    summ = run_translator(ck)
    ngen = count_generated(ck)
    ck.obligations += ngen
    ok = ck.prove(extra_targets=["Corr/C14.vo"])
    if ok:
        ck.discharged += ngen
    binp = ck.go_build("c14", race=True)   # -race: an unlocked reader or mutator overlapping an Add is reported
    if not binp:
        return
    args = ["-n", "400", "-len", "14"] if ck.tier == "quick" else ["-n", "6000", "-len", "18"]
    recs = harness_cases(ck, binp, args, "cases")
    if recs is None:
        return
    evaluate(ck, recs)
    # one shard with equal fee priorities across senders (eviction victim chosen by map order: the evaluator searches
    # the choice among the ids that disappeared); not reproducible byte for byte, the verdict is
    ties = harness_cases(ck, binp, ["-ties", "-n", "120" if ck.tier == "quick" else "1500", "-len", "14"], "ties")
    if ties is not None:
        evaluate(ck, ties)
        ck.extra["ties_shard_cases"] = len(ties)
    race_reports(ck)
    # floors, by construction of the generator: a run that did not exercise these is inconclusive, not a pass
    allsteps = [s for r in recs + (ties or []) for s in r["steps"]]
    have = {
        "cases": len(recs),
        "steps": sum(len(r["steps"]) for r in recs),
        "overlapped adds": sum(1 for s in allsteps if s.get("par")),
        "adds dropping a pooled tx (eviction/replacement)": sum(1 for s in allsteps if s["op"][0] == "add" and s["gone"]),
        "adds for an occupied (sender, nonce) slot": sum(1 for r in recs + (ties or []) for i, s in enumerate(r["steps"]) if s["op"][0] == "add" and i > 0
                                                     and any(l[0] == s["op"][2] and s["op"][3] in l[1] for l in r["steps"][i - 1]["snap"]["lists"])),
        "fees or nonces at the uint64 edge": sum(1 for s in allsteps if s["op"][0] == "add" and (s["op"][3] >= 2 ** 63 or s["op"][4] >= 2 ** 63)),
        "ties-shard cases": len(ties or []),
    }
    q = ck.tier == "quick"
    need = {"cases": 300 if q else 4000, "steps": 1500 if q else 20000, "overlapped adds": 60 if q else 800,
            "adds dropping a pooled tx (eviction/replacement)": 40 if q else 500, "adds for an occupied (sender, nonce) slot": 30 if q else 400,
            "fees or nonces at the uint64 edge": 5 if q else 60, "ties-shard cases": 100 if q else 1000}
    ck.obligations += 1
    short = ["%s: %d < %d" % (k, have[k], need[k]) for k in need if have[k] < need[k]]
    if short:
        ck.fail_obligation("harness-volume", "harness/cmd/c14 ran below its floors (" + "; ".join(short) + "): inconclusive, not a pass")
    else:
        ck.discharged += 1
    ck.extra["floors"] = {k: [have[k], need[k]] for k in need}
    steps = [s for r in recs for s in r["steps"]]
    dist = {}
    for s in steps:
        dist[s["op"][0]] = dist.get(s["op"][0], 0) + 1
    ck.extra["distribution"] = {
        "cases": len(recs), "steps": len(steps), "ops": dist,
        "adds_accepted": sum(1 for s in steps if s["op"][0] == "add" and s["ret"]),
        "adds_evicting_or_replacing": sum(1 for s in steps if s["op"][0] == "add" and s["gone"]),
        "steps_with_processables": sum(1 for s in steps if any(l[4] for l in s["snap"]["lists"])),
        "overlapped_adds": sum(1 for s in steps if s.get("par")),
        "interleaved_reorgs": sum(1 for r in recs for a, b in zip(r["steps"], r["steps"][1:]) if a["op"][0] == "begin" and b["op"][0] != "finish"),
        "limits": "MaxTransactions %d..%d, MaxTransactionsPerAccount %d..%d" % (min(r["cfg"][0] for r in recs), max(r["cfg"][0] for r in recs), min(r["cfg"][1] for r in recs), max(r["cfg"][1] for r in recs)),
    }
    for r in recs[:2] + [x for x in recs if any(s["gone"] for s in x["steps"])][:1]:
        ck.sample({"cfg": r["cfg"], "ops": [s["op"] for s in r["steps"]]})
    ck.cov["rule"] = ("random operation sequences on the real pool (corpus of minimised earlier failures first): add (fresh / "
                      "replacement around the fee threshold / re-add / duplicate; verifier ok, pending, invalid; Publish failing), "
                      "remove, reorg, reorg held at the verifier call with Add/Remove interleaved; limits 1..3. Every step's "
                      "snapshot of the three indexes and all sender lists is compared with the model and with the oracle. "
                      "Non-trivial/distinct: cases with an eviction/replacement or a non-empty processable set, distinct by "
                      "(config, op kinds, results, number of dropped ids)")
    ck.extra["traces_validated_against_impl"] = len(recs)
    if summ:
        ck.extra["skeleton_translator"] = {k: summ.get(k) for k in ("functions", "lock_order", "nesting", "guarded_selects", "go_sites")}
    ck.assume += ["opaque calls under the pool lock (ABI.VerifyTransaction, p2pConnection.Publish, logger) return",
                  "Go's sync.RWMutex is writer-preferring (a waiting Lock blocks new RLocks); container/heap keeps a minimum at index 0",
                  "harness interleavings are controlled at the verifier calls (reorg goroutines, and Add overlapped with Add/Remove/reorg)"]
    if ck.tier == "thorough":
        ck.coqchk(["LE.Properties.C14"])


def replay(ck, path):
    doc = json.load(open(path))
    case = doc.get("input")
    if not case:
        print("replay names a broken obligation, no input: %s" % doc.get("what"))
        run(ck)
        return ck.finish(LEVEL)
    run_translator(ck)
    ck.prove(extra_targets=["Corr/C14.vo"])
    binp = ck.go_build("c14", race=True)
    if binp:
        inp = os.path.join(ck.work, "replay_in.jsonl")
        open(inp, "w").write(json.dumps(case) + "\n")
        recs = harness_cases(ck, binp, ["-in", inp, "-n", "0"], "replay")
        if recs is not None:
            recs = [r for r in recs if [s["op"] for s in r["steps"]][:len(case["steps"])] == [s["op"] for s in case["steps"]]] or recs
            evaluate(ck, recs[-1:])
            print("replayed: %s" % json.dumps(recs[-1])[:3000])
    return ck.finish(LEVEL)
