"""C18 — peer penalties accumulate into bans that are enforced and expire; rate limits."""
import glob
import json
import os
from core import cbool, clist, ROOT

LEVEL = "proof"
READY = True
MANIFEST = {
    "technique": "Coq proof on Gallina models of the connection gater / peer penalties / rate limiter over all event sequences "
                 "+ correspondence (real-time gater scripts, limiter scripts, loopback libp2p hosts) evaluated in Coq",
    "text": "Models: connectionGater (scores and expiry per IP key, blacklist, addPenalty, periodic sweep, the Intercept* gates), "
            "Peer.addPenalty/banPeer/ApplyPenalty/BanPeer with the connection set, the message-protocol ban sites, the RPC "
            "rate limiter (counters per procedure/peer/interval). Time and sweep/reset ticks are explicit events. Theorems over "
            "ALL event sequences: penalties accumulate per IP; with non-negative penalties an IP is banned iff its score is "
            ">= MaxPenaltyScore (and for arbitrary amounts a ban appears exactly by a penalty reaching the threshold); a banned "
            "or blacklisted IP is refused by AddrDial, Accept and Secured(inbound), i.e. on the outbound and the inbound path, "
            "and only such IPs are; a ban persists through every event sequence until a sweep after its expiration, which "
            "removes the entry: accepted again with a clean score; the peer reaching the threshold is disconnected and cannot "
            "reconnect while refused; malformed envelopes / unknown procedures ban and disconnect; the message following "
            "`limit` messages of one procedure and peer in an interval is penalised with the configured amount; traffic within "
            "the limits is never penalised and changes nothing. The model of the code before the fix commit shows the skipped "
            "Disconnect. Tie: harness/cmd/c18 drives real gaters in real time (IPv4/IPv6 spellings, expiry 1 s), the real "
            "limiter with its reset goroutine, and loopback hosts for malformed/unknown/rate-excess/ApplyPenalty/BanPeer/"
            "blacklist/legal-traffic scenarios incl. refusal in both directions and acceptance after expiry.",
    "note": "Trusted: Coq kernel + vm_compute; Go maps as finite partial functions; IP canonicalisation = net.IP.String(); "
            "scores are Z (no int64 overflow); libp2p calls the gates on every dial/accept (sampled by the host scenarios); the "
            "sweep is assumed to have run within the first 300 ms of each second (interval 50 ms). 'Invalid sync requests lead "
            "to BanPeer' is by reading pkg/consensus/sync (call sites listed in docs/C18.md), BanPeer itself is modelled and driven.",
}
IMPORTS = "From LE Require Import P2P.Gater P2P.RateLimit Corr.C18."
SCEN = {"malformed_request": 0, "malformed_response": 1, "unknown_procedure_request": 2, "unknown_procedure_response": 3,
        "rate_excess": 4, "apply_penalty": 5, "ban_peer": 6, "legal_traffic": 7, "blacklisted": 8, "malformed_request_ip6": 0}


def cz(x):
    return "(%d)%%Z" % int(x)


def bl(xs):
    return clist(xs, cbool)


def gater_term(r):
    steps = []
    for s in r["steps"]:
        op = s["op"]
        if op == "pen":
            if s.get("err"):
                return None
            steps.append("SPen %d%%N %s %s %s" % (s["ip"], cz(s["amt"]), cz(s["now"]), cz(s["ret"])))
        elif op == "noip":
            steps.append("SNoIp %s %s %s" % (cz(s["amt"]), cz(s["ret"]), cbool(bool(s.get("err")))))
        elif op == "block":
            steps.append("SBlock %d%%N" % s["ip"])
        elif op == "unblock":
            steps.append("SUnblock %d%%N" % s["ip"])
        elif op == "obs":
            gates = "[" + "; ".join(bl(g) for g in s["gates"]) + "]"
            scores = "[" + "; ".join("(%s, %s, %s)" % (cz(a), cz(b), cbool(bool(c))) for a, b, c in s["scores"]) + "]"
            steps.append("SObs %s %s %s %s %s %s" % (cz(s["now"]), clist(s["banned"], lambda x: "%d%%N" % x),
                                                  clist(s["blocked"], lambda x: "%d%%N" % x), gates, scores, bl(s["noip_gates"])))
        elif op == "wait":
            continue
        else:
            return None
    return "(%s, %s, %d%%nat, [%s])" % (cz(r["exp"]), clist(r["blacklist"], lambda x: "%d%%N" % x), len(r["ips"]),
                                       ";\n ".join(steps))


def limiter_term(r):
    ips = sorted(set(p["ip"] for p in r["peers"]))
    steps = []
    for s in r["steps"]:
        if s["op"] == "reset":
            steps.append("LReset")
        else:
            ip = ips.index(r["peers"][s["peer"]]["ip"])
            steps.append("LMsg %d%%N %d%%N %d%%N %s %s %s %s %s" % (s["proc"], s["peer"], ip, cbool(bool(s["err"])), cz(s["counter_after"]),
                                                        cz(s["score_after"]), cz(s["exp_after"]), cbool(s["has_entry"])))
    lims = "[" + "; ".join("(%s, %s)" % (cz(p["limit"]), cz(p["penalty"])) for p in r["procs"]) + "]"
    return "(%s, %d%%nat, [%s])" % (lims, len(r["peers"]), ";\n ".join(steps))


def hosts_term(r):
    o = r["obs"]
    sc = SCEN[r["scenario"]]

    def b(k, d=False):
        v = o.get(k)
        return d if v is None else bool(v)
    vec = [b("connected_before"), b("banned_after"), b("connected_after"), b("dial_in_refused"), b("dial_out_refused"),
           b("banned_after_expiry"), b("dial_in_ok_after_expiry") and b("fresh_dial_in_ok_after_expiry"),
           b("dial_out_ok_after_expiry")]
    has = o.get("score_after", -1) != -1
    has_after = o.get("score_after_expiry", -1) not in (-1, None)
    return "(%d%%N, %s, %s, %s, %s)" % (sc, bl(vec), cbool(has), cz(o.get("score_after", 0) if has else 0), cbool(has_after))


def extra_hosts_checks(r):
    """Observations of the host scenarios that are not part of the Coq vector (gate vectors, traces)."""
    o = r["obs"]
    bad = []
    refused = [True, False, False, False, True, True]
    free = [True] * 6
    if r["scenario"] == "legal_traffic":
        if o.get("replies_ok") != 12:
            bad.append("legal traffic: %s of 12 requests answered" % o.get("replies_ok"))
        if o.get("gates") != free:
            bad.append("legal traffic: gates %s" % o.get("gates"))
    else:
        if o.get("gates") != refused:
            bad.append("gates while refused: %s" % o.get("gates"))
        if r["scenario"] != "blacklisted" and o.get("gates_after_expiry") != free:
            bad.append("gates after expiry: %s" % o.get("gates_after_expiry"))
    if r["scenario"] == "apply_penalty" and (o.get("scores") != [40, 80, 120] or o.get("connected_trace") != [True, True, False]):
        bad.append("ApplyPenalty 3x40: scores %s connected %s" % (o.get("scores"), o.get("connected_trace")))
    if r["scenario"] == "rate_excess" and o.get("replies_ok") != 3:
        bad.append("rate excess: %s replies before the ban (limit 3)" % o.get("replies_ok"))
    if r["scenario"] == "blacklisted" and o.get("blocked") != [o.get("ip")]:
        bad.append("blacklist listing %s" % o.get("blocked"))
    return bad


def evaluate(ck, recs, tag=""):
    groups = (("gater", "gater_case", "check_gater", gater_term, 4),
              ("limiter", "limiter_case", "check_limiter", limiter_term, 4),
              ("hosts", "hosts_case", "check_hosts", hosts_term, 16))
    for kind, typ, fn, mk, shard in groups:
        rs = [r for r in recs if r["k"] == kind]
        usable, terms = [], []
        for r in rs:
            if r.get("panic") or r.get("unstable") or r.get("err") or any(st.get("timeout") for st in r.get("steps", [])):
                what = "harness could not complete the %s case: %s" % (kind, r.get("panic") or r.get("err") or "unstable timing")
                if r.get("panic"):
                    f = dict(kind="input", key="c18:%s:panic" % kind, what=what, case=r, theorem_or_correspondence="harness/cmd/c18")
                    f["spec_violated"] = True
                    ck.failures.append(f)
                else:
                    ck.notes.append(what)
                continue
            t = mk(r)
            if t is None:
                ck.fail_obligation("harness-format:" + kind, "unexpected step in %s record %s" % (kind, r.get("id")))
                continue
            usable.append(r)
            terms.append(t)
        res = ck.coq_eval(IMPORTS, typ, fn, terms, shard=shard, tag=tag + kind)
        if res is None:
            continue
        for r, code in zip(usable, res):
            if kind == "gater":
                n = sum(1 for s in r["steps"] if s["op"] != "wait")
                ck.count(n)
                for s in r["steps"]:
                    if s["op"] == "obs":
                        ck.nontrivial(("g", len(s["banned"]), len(s["blocked"]), tuple(tuple(g) for g in s["gates"]),
                                       tuple((x[0], x[1] != -1 and x[2] == 1, x[2]) for x in s["scores"])))
                    elif s["op"] == "pen":
                        ck.nontrivial(("p", s["amt"], s["ret"], ":" in r["ips"][s["ip"]]))
            elif kind == "limiter":
                ck.count(len(r["steps"]))
                lims = r["procs"]
                for s in r["steps"]:
                    if s["op"] == "msg":
                        ck.nontrivial(("l", lims[s["proc"]]["limit"], lims[s["proc"]]["penalty"], s["counter_after"], s["score_after"],
                                       s["has_entry"] and s["exp_after"] != -1))
            else:
                ck.count()
                ck.nontrivial(("h", r["scenario"]))
            extra = extra_hosts_checks(r) if kind == "hosts" else []
            if code != 0 or extra:
                spec_bad = code >= 2 or bool(extra)
                ident = r.get("scenario") if kind == "hosts" else ""
                what = "%s %s: %s%s" % (kind, "case violates the penalty/ban oracle" if spec_bad else "case differs from the proved model",
                                        (ident + " ") if ident else "", "; ".join(extra) or json.dumps(r)[:600])
                f = dict(kind="input", key="c18:%s:%s%s" % (kind, "spec" if spec_bad else "model", (":" + ident) if ident else ""),
                         what=what, case=r, theorem_or_correspondence="Corr.C18.%s vs pkg/p2p" % fn)
                f["spec_violated"] = spec_bad
                ck.failures.append(f)


def run(ck):
    ck.prove(extra_targets=["Corr/C18.vo"])
    binp = ck.go_build("c18")
    if not binp:
        return
    for path in sorted(glob.glob(os.path.join(ROOT, "corpus", "C18", "*.jsonl"))):
        recs = ck.run_harness(binp, ["-in", path], out_name="corpus.jsonl")
        if recs is None:
            return
        evaluate(ck, recs, tag="corpus_")
    args = ["-gaters", "24", "-limiters", "12"] if ck.tier == "quick" else ["-gaters", "300", "-limiters", "60"]
    recs = ck.run_harness(binp, args)
    if recs is None:
        return
    before = len(ck.failures)
    evaluate(ck, recs)
    n0 = None
    for k in range(2):
        fresh = [f for f in ck.failures[before:] if f.get("kind") == "input" and f.get("case")]
        if not fresh:
            break
        if n0 is None:
            n0 = len(fresh)
        # real-time observations: a deviation is reported only if it reproduces when the same script/scenario is re-run alone
        inp = os.path.join(ck.work, "confirm_in.jsonl")
        with open(inp, "w") as fh:
            for f in fresh:
                fh.write(json.dumps(f["case"]) + "\n")
        again = ck.run_harness(binp, ["-in", inp], out_name="confirm.jsonl")
        if again is None:
            break
        ev, nt = ck.cov["evaluations"], set(ck._distinct)
        ck.failures = ck.failures[:before] + [f for f in ck.failures[before:] if f not in fresh]
        evaluate(ck, again, tag="confirm%d_" % k)
        ck.cov["evaluations"], ck._distinct = ev, nt
    if n0:
        ck.notes.append("%d case(s) off the oracle/model in the main run were re-run alone (up to twice): %d reproduced" % (
            n0, len([f for f in ck.failures[before:] if f.get("kind") == "input"])))
    for k in ("gater", "limiter", "hosts"):
        for r in [x for x in recs if x["k"] == k][:1]:
            s = dict(r)
            if "steps" in s:
                s["steps"] = s["steps"][:6]
            ck.sample(s)
    ck.cov["rule"] = ("evaluations = executed steps (gater: penalties on IPv4/IPv6 addresses in several spellings, amounts incl. 0 and "
                      "negative, address without IP, block/unblock, full observation of every IP's gates/score/ban listing after "
                      "every step and after waits crossing the 1 s expiry, in real time; limiter: messages per procedure/peer around "
                      "the limit across observed reset ticks, peers sharing an IP) + one per loopback host scenario (malformed / "
                      "unknown procedure request and response, rate excess, ApplyPenalty, BanPeer, legal traffic, blacklist, IPv6 "
                      "loopback: connected/banned/refused in/out/after expiry). Distinct = distinct observation vectors")
    ck.extra["traces_validated_against_impl"] = len(recs)
    ck.assume += ["the gater's sweep goroutine (interval 50 ms) has run within the first 300 ms of a wall-clock second",
                  "penalty scores stay far from the int64 range", "time.Now().Unix() is non-decreasing",
                  "a deviation in the real-time part is reported only if it reproduces when the same script/scenario is re-run alone"]
    if ck.tier == "thorough":
        ck.coqchk(["LE.Properties.C18"])


def replay(ck, path):
    doc = json.load(open(path))
    case = doc.get("input")
    if not case:
        print("replay names a broken obligation, no input: %s" % doc.get("what"))
        run(ck)
        return ck.finish(LEVEL)
    ck.prove(extra_targets=["Corr/C18.vo"])
    binp = ck.go_build("c18")
    if not binp:
        return ck.finish(LEVEL)
    inp = os.path.join(ck.work, "replay_in.jsonl")
    open(inp, "w").write(json.dumps(case) + "\n")
    recs = ck.run_harness(binp, ["-in", inp], out_name="replay.jsonl")
    if recs is not None:
        evaluate(ck, recs, tag="replay_")
        print("replayed %d record(s)" % len(recs))
    return ck.finish(LEVEL)
