"""C17 — P2P request/response: correlation, no lost reply, no deadlock, no leak."""
import glob
import json
import os
from core import cbool, ROOT

LEVEL = "proof"
READY = True
MANIFEST = {
    "technique": "Coq proof by invariant on a labelled transition system (all interleavings, unbounded request IDs) + go/ast "
                 "skeleton translator with vm_compute obligation + correspondence on real loopback libp2p hosts evaluated in Coq",
    "text": "Model: per-attempt requester states, the shared table resCh, the mutex resMu, one goroutine per received response, "
            "timers, cancellations, retries, send failures; responses may be early, late, duplicated or carry any ID. Theorems for "
            "every configuration with the skeleton facts of the repaired code (register before send, buffered channel, "
            "non-blocking delivery under resMu, drain after deregistration): correlation (delivered response carries the request's "
            "own ID and was really received), no lost reply (a response that reached the lookup before the timer fired is "
            "returned), the holder of resMu is never blocked, every unfinished attempt can be completed from ANY reachable state "
            "in at most 6 steps without anybody else moving, resCh holds exactly the registered unfinished attempts (empty when "
            "all ended, no duplicates), at most messageMaxRetries+1 distinct attempts per call (as a count) and 4 own steps per attempt. For the code before "
            "the fix commit the model yields the two defect schedules (early reply lost; permanent deadlock, proved permanent "
            "for all continuations), and a buffered channel alone is shown insufficient. Tie: translate/reqresp regenerates "
            "the skeleton of sendRequestMessage/onResponse/request and the constants from the Go source (fail-closed) and Coq "
            "checks it equals the modelled one; harness/cmd/c17 drives two real loopback hosts through early/late/duplicate/"
            "wrong-ID/stale replies, cancellations and latencies racing the timeout, each call is replayed on the model and "
            "checked against the declarative oracle; len(resCh) and a watchdog are checked per batch. The narrow races are forced "
            "by holding resMu from outside across the deadline / the cancellation (verif hook), and the requester's logger records "
            "per attempt whether a response was accepted into its channel: an accepted response must be returned, each follow-up "
            "call must get the payload tagged with its own call.",
    "note": "Trusted: Coq kernel + vm_compute; fidelity of the hand model at the granularity stated in coq/P2P/ReqResp.v "
            "(requester critical sections atomic - the translator checks they contain one map operation only; Go select and "
            "channel semantics; libp2p streams deliver or fail); the translator (skeleton, pinned statement lists of RequestFrom / "
            "request / respond / constructors / the locked part of onResponse, pinned early returns before the lock); harness and glue. "
            "Real time is not modelled: 'before the deadline' = before the attempt's timer fired; bounded completion is in steps and "
            "timer periods. Real-time handling of the check: the driver measures a load factor at start and multiplies every margin "
            "(watchdogs, lock probes, statistics quiescence = three equal snapshots, timeouts of the margin-based batches) by it; "
            "deviations that cannot come from load (payload of another call, wrong-ID delivery, truncated payload, panic, an accepted "
            "response not returned or two attempts of a call with accepted responses, more attempts than the budget, a timeout before "
            "the budget is used, leaked entries, a blocked layer, shutdown ending with neither response nor error) are reported at "
            "once; only timing-dependent deviations of margin-based plans are re-run in isolation (margins x2, then x4, the batch's own "
            "rate limit, whole batch for forced schedules and limit batches) and dropped if a usable re-run is clean. Obligations: "
            ">= 90 % of calls with usable acceptance statistics, >= 2 usable shutdown scenarios.",
}
IMPORTS = "From LE Require Import P2P.ReqResp Corr.C17."
KIND = {"N": 1, "E": 2, "D": 3, "W": 4}
CLS = {"ok": 0, "timeout": 1, "cancelled": 2, "other": 3, "hang": 3}


def plan_flags(a, timeout_ms):
    late_lat = a["lat"] >= timeout_ms  # the generator uses lat = 2*timeout for late replies
    norm_in = not late_lat
    return dict(in_time=(a["early"] or norm_in), early=a["early"], dups=a["dups"], norm_in=norm_in, wrong=a["wrong"])


def schedule(r):
    """Model event schedule realising the observed call on the repaired configuration. The model's attempt k (ID k) is the k-th
    attempt in SENDING order; the responder numbers the attempts in the order in which their requests reach its handler, which under
    load (8 ms timeouts) need not be the same. The sending order is reconstructed as far as it is determined: the attempt whose
    response was delivered / accepted is the LAST one sent; the others keep their relative order (they all timed out)."""
    plan, strict = r["plan"], r["plan"]["strict"]
    n_att = max(1, r["attempts"])
    evs = ["NewCall 1"]
    tid = [100]
    order = list(range(1, n_att + 1))   # order[k-1] = the responder's number of the k-th attempt sent
    acc0 = r.get("accepted") or []
    final = None
    if r["class"] == "ok" and 1 <= r["pay_att"] <= n_att:
        final = r["pay_att"]
    elif have_stats(r) and sum(1 for x in acc0 if x >= 1) == 1:
        final = [i + 1 for i, x in enumerate(acc0) if x >= 1][0]
    if final is not None and final != n_att:
        order.remove(final)
        order.append(final)

    def arrive(rid, att, kind):
        t = tid[0]
        tid[0] += 1
        return ["Respond %d (mkResp %d %d)" % (t, rid, att * 10 + KIND[kind]), "Lock %d" % t, "Deliver %d" % t]

    for k in range(1, n_att + 1):
        ri = order[k - 1]
        a = plan["attempts"][min(ri, len(plan["attempts"])) - 1]
        f = plan_flags(a, r["timeout_ms"])
        last = k == n_att
        if k > 1:
            evs.append("Retry %d %d" % (k - 1, k))
        if a.get("badre") and last and r["class"] == "other":
            # the requester has banned and disconnected the responder meanwhile: the send of this attempt fails
            evs += ["Register %d" % k, "SendFail %d" % k]
            continue
        evs += ["Register %d" % k, "Send %d" % k]
        if a.get("badre"):
            t = tid[0]
            tid[0] += 1
            evs += ["RespondBad %d (mkResp %d %d)" % (t, k, k * 10 + 5), "Drop %d" % t]
        in_time, late = [], []
        if f["wrong"]:
            in_time.append((9000 + k, "W"))
        normal = [(k, "N")] + [(k, "D")] * f["dups"]
        if strict:
            if f["early"]:
                in_time.append((k, "E"))
            (in_time if f["norm_in"] else late).extend(normal)
        else:
            # latency around the timeout / the cancellation: what was in time is read off the observation (the delivered
            # response, or a response the requester's onResponse accepted into this attempt's channel)
            acc = r.get("accepted") or []
            if (last and r["class"] == "ok") or (have_stats(r) and ri <= len(acc) and acc[ri - 1] >= 1):
                if f["early"]:
                    in_time.append((k, "E"))
                in_time.extend(normal)
            else:
                late.extend(normal)
        if last and r["class"] == "ok" and r["pay_kind"] in KIND:
            # the delivered kind arrived first among the right-ID replies
            for i, x in enumerate(in_time):
                if x[0] == k and x[1] == r["pay_kind"]:
                    in_time.insert(0, in_time.pop(i))
                    break
        got = any(x[0] == k for x in in_time)
        for rid, kind in in_time:
            evs += arrive(rid, ri, kind)
        if plan["cancel"] > 0 and last and r["class"] == "cancelled":
            evs += ["Cancel 1", "SelCancel %d" % k, "Dereg %d" % k]
        elif got:
            evs += ["SelRecv %d" % k, "Dereg %d" % k]
        elif plan["cancel"] > 0 and k == 1 and strict:
            evs += ["Cancel 1", "SelCancel %d" % k, "Dereg %d" % k]
        else:
            evs += ["Fire %d" % k, "SelTimeout %d" % k, "Dereg %d" % k]
        for rid, kind in late:
            evs += arrive(rid, ri, kind)
    return evs


def have_stats(r):
    """The per-attempt acceptance statistics are usable: one entry per attempt and the delivered response was seen."""
    acc, seen = r.get("accepted"), r.get("seen")
    if acc is None or seen is None or len(acc) != r["attempts"] or len(seen) != r["attempts"]:
        return False
    if r["class"] == "ok" and r["attempts"] >= 1 and seen[-1] < 1:
        return False  # the logger did not recognise the messages (log texts changed?)
    return True


def call_term(r):
    pl = []
    for a in r["plan"]["attempts"]:
        f = plan_flags(a, r["timeout_ms"])
        pl.append("(mkPlan %s %s %d %s)" % (cbool(f["in_time"]), cbool(f["early"]), f["dups"], cbool(f["norm_in"])))
    mine = 1 if r["pay_call"] == r["plan"]["call"] else 0
    o = "(%d, %d, %d, %d, %d)" % (CLS.get(r["class"], 3), r["pay_att"], KIND.get(r["pay_kind"], 0), r["attempts"], mine)
    hs = have_stats(r)
    stats = "(%s, [%s])" % (cbool(hs), "; ".join(str(max(0, a)) for a in (r.get("accepted") or [])) if hs else "")
    return "([%s], %s, %s, %s, %s, [%s])" % ("; ".join(pl), cbool(r["plan"]["cancel"] > 0), cbool(r["plan"]["strict"]), o, stats,
                                             "; ".join(schedule(r)))


def shape(r):
    p = r["plan"]
    return (p["strict"], r["class"], r["pay_kind"], r["attempts"], p["cancel"] > 0, tuple(min(a, 1) for a in (r.get("accepted") or [])),
            tuple((a["lat"] >= r["timeout_ms"], a["early"], min(a["dups"], 1), a["wrong"]) for a in p["attempts"][:max(1, r["attempts"])]))


def evaluate(ck, recs, tag="calls", count=True):
    """Returns list of (record, code) for call records with code != 0, and batch failures."""
    calls = [r for r in recs if r["k"] == "call"]
    for r in recs:
        if r["k"] == "env":
            SCALE[0] = max(1.0, float(r.get("scale", 1.0)))
            ck.extra["load_scale"] = round(SCALE[0], 2)
    res = ck.coq_eval(IMPORTS, "c17_case", "check_call", [call_term(r) for r in calls], shard=40, tag=tag)
    bad = []
    if res is not None:
        for r, code in zip(calls, res):
            if count:
                ck.count()
                ck.nontrivial(shape(r))
            if r.get("bkind") == "bad-responses":
                # a response for a procedure nobody registered is dropped before the lookup: never delivered, whatever else happens
                code = 2 if (r["class"] == "ok" or r.get("pay_kind") == "B") else (0 if code in (0, 2, 3) and r["class"] in ("timeout", "other") else code)
            if r["class"] == "ok" and truncated(r):
                code = max(code, 2)  # truncated / altered payload
            if over_budget(r):
                code = max(code, 2)  # "within its timeout and retry budget"
            if code != 0 or r.get("panic"):
                bad.append((r, code))
    batches = [r for r in recs if r["k"] == "batch"]
    badb = [b for b in batches if b["hang"] or b["pending"] != 0 or b["pending_resp"] != 0 or b["completed"] != b["calls"]]
    if count:
        for b in batches:
            ck.count()
            ck.nontrivial(("batch", b["kind"], b["calls"]))
    return bad, badb


SHUT = {"ok": 0, "err": 1, "neither": 2, "panic": 3, "hang": 4}


def evaluate_shutdown(ck, recs, tag="shutdown", count=True):
    rs = [r for r in recs if r["k"] == "shutdown"]
    usable = [r for r in rs if not r.get("setup")]
    for r in rs:
        if r.get("setup"):
            ck.notes.append("shutdown scenario could not be set up: " + r["setup"])
    terms = ["([%s], %s, %s, %d)" % ("; ".join(str(SHUT.get(c["class"], 4)) for c in r["calls"]), cbool(r["stop_hang"] or bool(r.get("panic"))),
                                     cbool(r["pending"] < 0), max(0, r["pending"])) for r in usable]
    res = ck.coq_eval(IMPORTS, "shut_case", "check_shutdown", terms, shard=16, tag=tag)
    out = []
    if res is not None:
        for r, code in zip(usable, res):
            if count:
                ck.count(len(r["calls"]))
                ck.nontrivial(("shutdown", r["scenario"], tuple(sorted(set(c["class"] for c in r["calls"])))))
            if code != 0:
                out.append((r, code))
    return out


def report_shutdown(ck, bad):
    for r, code in bad:
        spec_bad = code >= 2
        worst = [c for c in r["calls"] if c["class"] not in ("ok", "err")]
        what = ("Connection.Stop() with requests in flight (%s): %s; calls=%s stop_hang=%s pending=%d" % (
            r["scenario"], "a request ended with neither a response nor an error / panicked / hung" if spec_bad
            else "differs from the proved model", json.dumps(worst[:2] or r["calls"][:2]), r["stop_hang"], r["pending"]))
        f = dict(kind="schedule", key="c17:shutdown:%s:%s" % ("spec" if spec_bad else "model", r["scenario"]), what=what, case=r,
                 theorem_or_correspondence="Corr.C17.check_shutdown vs Connection.RequestFrom/Stop on loopback hosts")
        f["spec_violated"] = spec_bad
        ck.failures.append(f)


def report(ck, bad, badb):
    for r, code in bad:
        spec_bad = code >= 2 or bool(r.get("panic"))
        what = ("request() call %s: plan %s, observed class=%s attempts=%d delivered=(call %d, attempt %d, kind %s) "
                "responses accepted per attempt=%s%s" % (
            "violates the request/response oracle" if spec_bad else "differs from the proved model",
            json.dumps(r["plan"]), r["class"], r["attempts"], r["pay_call"], r["pay_att"], r["pay_kind"] or "-", r.get("accepted"),
            (" panic=" + r["panic"]) if r.get("panic") else ""))
        cls = "panic" if r.get("panic") else ("%s-%s" % ("strict" if r["plan"]["strict"] else "race", r["class"]))
        f = dict(kind="input", key="c17:call:%s:%s" % ("spec" if spec_bad else "model", cls), what=what, case=r,
                 theorem_or_correspondence="Corr.C17.check_call vs MessageProtocol.request on loopback hosts")
        f["spec_violated"] = spec_bad
        ck.failures.append(f)
    for b in badb:
        if b["hang"]:
            key, what = "c17:batch:hang", ("request/response layer blocked: %d of %d calls completed, len(resCh) probe=%d (-1 = resMu "
                                            "held forever) in a %s batch" % (b["completed"], b["calls"], b["pending"], b["kind"]))
        else:
            key, what = "c17:batch:leak", ("pending entries left in resCh after all calls ended: requester %d, responder %d" % (
                b["pending"], b["pending_resp"]))
        f = dict(kind="schedule", key=key, what=what, case=b,
                 theorem_or_correspondence="C17_no_leak / C17_no_stuck_state vs len(resCh) and watchdog on loopback hosts")
        f["spec_violated"] = True
        ck.failures.append(f)


SCALE = [1.0]   # load factor reported by the harness (env record)


def truncated(r):
    pa = r["plan"]["attempts"]
    a = pa[min(len(pa), max(1, r["attempts"])) - 1] if pa else {}
    if a.get("pad") and r.get("pay_len", 0) < a["pad"]:
        return True
    if a.get("padto") and r.get("pay_len", 0) != a["padto"] and r.get("err") != "apperr":
        return True
    return False


def over_budget(r):
    """The call took longer than (retries+1) timeouts plus generous slack (handler latencies, scheduling): timing-dependent."""
    n = len(r["plan"]["attempts"])
    lat = max([a.get("lat", 0) for a in r["plan"]["attempts"]] + [0])
    return r["class"] != "hang" and r.get("elapsed_ms", 0) > r["plan"].get("start", 0) + n * r["timeout_ms"] + lat + 2500 * SCALE[0]


def intrinsic(r):
    """Reason why an off-oracle call is reported AT ONCE (no re-run): these observations cannot be produced by load or timing on
    code that has the property (argued one by one in docs/C17.md), so seeing one once is a violation. None = timing-dependent."""
    if r.get("panic"):
        return "panic in the request path"
    budget = len(r["plan"]["attempts"])
    if r["attempts"] > budget:
        return "the remote handler ran %d times for one call, the retry budget is %d" % (r["attempts"], budget)
    if r["class"] == "timeout" and r["attempts"] < budget and r["plan"]["strict"] and r.get("bkind") != "bad-responses":
        # (only for strict plans, whose timeouts are generous: in the racing batches a request can time out before it even
        # reaches the remote handler, so the responder-side count may legitimately stay below the budget)
        return "the call ended with a timeout after %d attempts, the retry budget is %d" % (r["attempts"], budget)
    if r.get("bkind") == "bad-responses" and (r["class"] == "ok" or r.get("pay_kind") == "B"):
        return "a response for a procedure without a registered handler was delivered"
    if r["class"] == "ok":
        if r["pay_call"] != r["plan"]["call"]:
            return "the caller received the payload produced for another call"
        if r["pay_kind"] == "W":
            return "a response carrying a different request ID was delivered"
        if truncated(r):
            return "truncated payload"
    if have_stats(r) and r["plan"]["strict"] and r["class"] == "timeout" and r["attempts"] == len(r["plan"]["attempts"]) and \
            all(plan_flags(a, r["timeout_ms"])["norm_in"] for a in r["plan"]["attempts"]) and not any(r["seen"]):
        return ("every attempt was answered at once by the remote handler, yet none of the %d responses was ever decoded by the "
                "requester's onResponse (seen=0 after quiescence): the replies are lost before the lookup" % r["attempts"])
    if have_stats(r):
        # (attempts are numbered by the responder in arrival order, which under load need not be the sending order: the clause
        # does not assume that the accepted attempt is the last one in that numbering)
        acc = [k + 1 for k, a in enumerate(r["accepted"]) if a >= 1]
        if len(acc) > 1:
            return "responses were accepted into the channels of %d attempts %s of one call: an accepted response was not returned" % (len(acc), acc)
        if acc and r["class"] not in ("ok", "cancelled"):
            return "a response accepted into the channel of attempt %d was not returned (class %s)" % (acc[0], r["class"])
        if acc and r["class"] == "ok" and r["pay_att"] != acc[0]:
            return "the caller received the reply of attempt %d although the accepted response is the one of attempt %d" % (r["pay_att"], acc[0])
    return None


def confirm(ck, binp, recs, bad, badb, rounds=2):
    """Selective confirmation. Reported at once: intrinsic violations (see [intrinsic]), a blocked layer, leaked entries, calls
    that did not complete. Only the remaining, timing-dependent deviations (a strict plan whose latency margins were missed:
    outcome class / number of attempts / model schedule) are re-run in isolation, up to `rounds` times, and dropped if a re-run
    is clean."""
    now_bad = [(r, c) for r, c in bad if intrinsic(r)]
    timing = [(r, c) for r, c in bad if not intrinsic(r)]
    now_badb, n0 = list(badb), len(timing)
    kinds0 = sorted(set("%s/%s/%s" % (r.get("bkind", "?"), "strict" if r["plan"]["strict"] else "race", r["class"]) for r, _ in timing))
    for k in range(rounds):
        if not timing:
            break
        inp = os.path.join(ck.work, "confirm_in.jsonl")
        with open(inp, "w") as f:
            whole = set()
            for r, _ in timing:
                if str(r.get("bkind", "")).startswith("held") or r.get("bkind") in ("default-limit", "limit5-penalty0", "bad-responses"):
                    # a forced schedule / a rate limit involves the whole batch (the calls that set the stage, the message count)
                    whole.add(r["batch"])
                else:
                    f.write(json.dumps(r) + "\n")
            for r in recs:
                if r["k"] == "call" and r["batch"] in whole:
                    f.write(json.dumps(r) + "\n")
        # the re-run gets margins twice (then four times) as wide, on top of the load factor the harness measures itself
        again = ck.run_harness(binp, ["-in", inp, "-rescale", str(2 << k)], out_name="confirm.jsonl")
        if again is None:
            break  # an unusable re-run never removes a failure
        recs = again
        bad2, badb2 = evaluate(ck, again, tag="confirm%d" % k, count=False)
        now_bad += [(r, c) for r, c in bad2 if intrinsic(r)]
        now_badb += badb2
        timing = [(r, c) for r, c in bad2 if not intrinsic(r)]
    if n0:
        ck.notes.append("%d timing-dependent call deviation(s) %s in the main run were re-run in isolation: %d reproduced" % (
            n0, kinds0, len(timing)))
    return now_bad + timing, now_badb


def stats_floor(ck, recs):
    """The acceptance statistics (oracle clause acc_ok) must be available for nearly all calls."""
    calls = [r for r in recs if r["k"] == "call" and r["attempts"] >= 1 and r["class"] != "hang" and r.get("bkind") != "bad-responses"]
    ok = sum(1 for r in calls if have_stats(r))
    ck.extra["calls_with_acceptance_stats"] = "%d/%d" % (ok, len(calls))
    ck.obligations += 1
    if calls and ok * 10 < len(calls) * 9:
        ck.fail_obligation("acceptance-stats", "only %d of %d calls carry usable per-attempt acceptance statistics (the oracle clause "
                           "'an accepted response is returned' would be skipped): the recorder of the verif hook no longer recognises "
                           "what onResponse reports, or the statistics never became quiescent" % (ok, len(calls)))
    else:
        ck.discharged += 1


def run(ck):
    ck.translate("reqresp", "Gen/ReqResp.v")
    ck.prove(extra_targets=["Corr/C17.vo"])
    binp = ck.go_build("c17")
    if not binp:
        return
    # earlier failures first
    for path in sorted(glob.glob(os.path.join(ROOT, "corpus", "C17", "*.jsonl"))):
        recs = ck.run_harness(binp, ["-in", path], out_name="corpus.jsonl")
        if recs is None:
            return
        bad, badb = evaluate(ck, recs, tag="corpus")
        bad, badb = confirm(ck, binp, recs, bad, badb)
        report(ck, bad, badb)
    if ck.tier == "quick":
        args = ["-det", "40", "-rounds", "2", "-race", "20", "-racecalls", "16", "-held", "3", "-deadline", "6", "-cancelrace", "4"]
    else:
        args = ["-det", "80", "-rounds", "6", "-race", "200", "-racecalls", "24", "-held", "12", "-deadline", "60", "-dlcalls", "96",
                "-cancelrace", "40"]
    recs = ck.run_harness(binp, args)
    if recs is None:
        return
    bad, badb = evaluate(ck, recs)
    stats_floor(ck, recs)
    bad, badb = confirm(ck, binp, recs, bad, badb)
    report(ck, bad, badb)
    sbad = evaluate_shutdown(ck, recs)
    if sbad and not any(c["class"] in ("panic", "neither") for r, _ in sbad for c in r["calls"]) and \
            not any(r["pending"] != 0 for r, _ in sbad):
        # a slow shutdown can be a timing artefact; a request that ends with neither response nor error is not
        again = ck.run_harness(binp, ["-det", "0", "-rounds", "0", "-race", "0", "-held", "0", "-deadline", "0", "-cancelrace", "0",
                                      "-large=false"], out_name="confirm_shutdown.jsonl")
        if again is not None and [r for r in again if r["k"] == "shutdown" and not r.get("setup")]:
            sbad = evaluate_shutdown(ck, again, tag="shutdown_confirm", count=False)  # (a usable re-run only)
    report_shutdown(ck, sbad)
    ck.obligations += 1
    shut_ok = [r for r in recs if r["k"] == "shutdown" and not r.get("setup")]
    ck.extra["shutdown_records_usable"] = len(shut_ok)
    if len(shut_ok) < 2 or len(set(r["scenario"] for r in shut_ok)) < 2:
        ck.fail_obligation("shutdown-floor", "only %d shutdown scenario(s) could be run (%s): at least one plain and one race-timeout "
                           "record are required; set-up errors: %s" % (len(shut_ok), sorted(set(r["scenario"] for r in shut_ok)),
                                                                       [r.get("setup") for r in recs if r["k"] == "shutdown" and r.get("setup")][:2]))
    else:
        ck.discharged += 1
    calls = [r for r in recs if r["k"] == "call"]
    for r in calls[:1] + [x for x in calls if x["class"] == "timeout"][:1] + [x for x in calls if not x["plan"]["strict"]][:1] + \
            [x for x in recs if x["k"] == "batch"][:1]:
        ck.sample(r)
    ck.cov["rule"] = ("one case = one MessageProtocol.request call between two real loopback libp2p hosts (or one batch of concurrent "
                      "calls: len(resCh) on both sides afterwards + watchdog). Deterministic batches: per-attempt reply latency well "
                      "before / well after the timeout (timeout 300 ms, margins >= 250 ms), early crafted reply, duplicates racing or "
                      "following the normal reply, wrong-ID replies, stale replies of earlier attempts arriving during later waits, "
                      "cancellation while waiting, all calls concurrent. Racing batches: latency = timeout +-3 ms with duplicates, "
                      "16-24 concurrent calls per round on one long-lived host pair; held-lock batches: resMu held across the deadline "
                      "(with surplus duplicates) or across a cancellation followed by fresh calls; deadline / cancel-race batches: replies "
                      "timed with microsecond offsets around the timer / the cancellation. Every call also carries, per attempt, whether "
                      "the requester accepted a response into the attempt's channel. Distinct = (strict, class, delivered kind, "
                      "attempts, cancel, accepted vector, per-attempt plan shape)")
    ck.extra["traces_validated_against_impl"] = len(calls)
    ck.assume += ["libp2p streams deliver or fail; Go select/channel semantics as modelled; the watchdog budget "
                  "(retries+1)*(timeout+400ms)+3s is enough for a live layer",
                  "an observation off the oracle in the timing-dependent part is reported only if it reproduces when the same plans "
                  "are re-run in isolation (a blocked layer is reported at once)"]
    if ck.tier == "thorough":
        ck.coqchk(["LE.Properties.C17"])


def replay(ck, path):
    doc = json.load(open(path))
    case = doc.get("input")
    if not case:
        print("replay names a broken obligation, no input: %s" % doc.get("what"))
        run(ck)
        return ck.finish(LEVEL)
    ck.translate("reqresp", "Gen/ReqResp.v")
    ck.prove(extra_targets=["Corr/C17.vo"])
    binp = ck.go_build("c17")
    if not binp:
        return ck.finish(LEVEL)
    inp = os.path.join(ck.work, "replay_in.jsonl")
    only = ["-det", "0", "-rounds", "0", "-race", "0", "-deadline", "0", "-cancelrace", "0", "-large=false", "-shutdown=false", "-held", "0"]
    if case.get("k") == "call" and str(case.get("bkind", "")).startswith("held"):
        # a forced schedule needs the whole batch (the calls that set the stage): re-run the held-lock batches
        recs = ck.run_harness(binp, only[:-1] + ["3"], out_name="replay.jsonl")
    elif case.get("k") == "shutdown":
        recs = ck.run_harness(binp, [a for a in only if a != "-shutdown=false"], out_name="replay.jsonl")
    elif case.get("k") == "call":
        open(inp, "w").write(json.dumps(case) + "\n")
        recs = ck.run_harness(binp, ["-in", inp], out_name="replay.jsonl")
    else:
        # a batch: re-run a batch of the same kind
        args = ["-det", "0", "-rounds", "0", "-race", "40", "-racecalls", str(max(16, case.get("calls", 16)))] \
            if case.get("kind") == "race" else ["-det", str(case.get("calls", 40)), "-rounds", "1", "-race", "0"]
        recs = ck.run_harness(binp, args, out_name="replay.jsonl")
    if recs is not None:
        bad, badb = evaluate(ck, recs, tag="replay")
        report(ck, bad, badb)
        sbad = evaluate_shutdown(ck, recs, tag="replay_shutdown")
        report_shutdown(ck, sbad)
        print("replayed %d record(s): %d call(s) off, %d batch(es) off, %d shutdown scenario(s) off" % (
            len(recs), len(bad), len(badb), len(sbad)))
    return ck.finish(LEVEL)
