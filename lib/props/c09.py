"""C09 — untrusted input never crashes or hangs the node (decoders, verifiers)."""
import json
import os

import core
from core import cbool, cbytes
from props import c08

LEVEL = "proof"
READY = True
MANIFEST = {
    "technique": "Coq proof of totality (explicit Panic / OutOfFuel outcomes) for the decoding layer and the rmt proof index "
                 "arithmetic + schema translator; everything else: differential/robustness TESTING with outcome classes "
                 "{ok, error, PANIC(recovered), TIMEOUT, goroutine still in handler, allocation}",
    "text": "PROVED (Coq, all inputs): (1) readUint, every Reader.Read* primitive in every reader state (index <= len(data), "
            "arbitrary end) and the generated Decode/DecodeStrict of EVERY schema environment return a value or an error on EVERY "
            "byte string: no out-of-range index/slice, no negative make, loop fuel never exhausted (one byte consumed per "
            "iteration), readBytes allocates at most the remaining input; instantiated on all translated structs and named for the "
            "payload decoders of every network entry point (p2p Message/Request/responseMsg, RawBlock/Block/BlockHeader/"
            "Transaction/BlockAsset/AggregateCommit, EventPostBlock/EventPostSingleCommits/SingleCommit/Certificate, the sync "
            "RPC payloads, txpool response, smt/rmt Proof). (2) Bits.read under the bitmap length check and the weighted key "
            "selection of BLSVerify(Weighted)AggSig never index out of range. (3) rmt calculatePathNodes / VerifyProof index "
            "arithmetic (newNodeLocation string indexing and ParseInt, getRightSiblingInfo structure[...] loop, "
            "nodeLocation.index padding loop, binary-search insert, queryHashes[i], sortedIndexes[0], copiedSiblings[0]) never "
            "panics and its loops terminate within 65 iterations per proof index, for every input and every (getHeight, "
            "getLayerStructure) with one entry per layer. TESTED ONLY (recover + 3 s watchdog, concrete input on failure): "
            "the logic after decoding in blockValidator/onBlockReceived/process, verifyBlock, verifyAggregateCommit, "
            "singleCommitValidator, transactionValidator/onTransactionAnnouncement, the sync and txpool RPC handlers, the libp2p "
            "request/response stream handlers (also: no goroutine left inside a handler after 2 s, allocation <= 32*len+1MiB per "
            "stream), smt.Verify/CalculateRoot, rmt root/witness functions, blst BLS verification (incl. nil / infinity / "
            "off-subgroup points at every position) and Ed25519, sync.Downloader. Tie of the proved models: translator (schemas), "
            "in-Coq comparison of decoder outcomes, Bits pre-check and rmt ok/error/true/false on the harness streams; allocation "
            "per decode on length-prefix bombs measured against the proved bound.",
    "note": "SCOPE GAP: 'RPC' here means the p2p sync/txpool RPC endpoints only; the RPC-CLIENT half of the statement (pkg/rpc "
            "http/ws JSON-RPC server, pkg/engine/endpoint handlers, IPC) is NOT exercised and not modelled (DESIGN lists pkg/rpc as "
            "not modelled); only the codec.Lisk32 / Hex JSON members such requests carry are driven. "
            "smt.Verify/CalculateRoot index arithmetic is NOT modelled with panic outcomes yet (tested only; C10 owns a functional "
            "model). getHeight/getLayerStructure are floating-point code: the rmt theorem takes them as parameters with the "
            "hypothesis len(structure) = height <= 4096. Time: model step bounds + watchdog; memory: proved readBytes bound + measured "
            "TotalAlloc per call (minimum of 3 runs, measured before any Executer/libp2p host exists in the process).",
}
IMPORTS = c08.IMPORTS + "\nFrom LE Require Import Codec.Bits Safe.RmtIndex Corr.C09."


def site(r):
    p = r.get("panic") or ""
    return p.split("@")[-1].strip() if "@" in p else p[:40]


def bits_term(r):
    a = r["a"]
    nkeys = len([x for x in a["keys"].split(",") if x != ""]) if a["keys"] != "" else 0
    if r["f"] == "BLSVerifyAggSig":
        nw = nkeys
    else:
        nw = len([x for x in a["weights"].split(",") if x != ""]) if a["weights"] != "" else 0
    return "(%d%%nat, %s, %d%%nat, %d, %s)" % (nkeys, cbytes(a["bits"]), nw, r["st"], cbool(r["res"] == "true"))


HARNESS_EXIT = 3
P2P_ALLOC_FACTOR, P2P_ALLOC_CONST = 32, 1 << 20   # whole-process TotalAlloc while one stream is handled
# smallest number of cases of each record kind a (non-replay) run must contain: met by construction, a generator that silently
# produces nothing fails the check instead of passing it
FLOORS = {"s": 5000, "v": 2000, "n": 3000, "m": 1000, "p": 50, "bits": 100, "rmt": 100}
ALLOC_FACTOR, ALLOC_CONST = 64, 32768   # bytes allocated by one decode <= 64 * len(input) + 32 KiB


def run_p2p(ck, binp, scale, replay_in=None, background=False, prestarted=None, retried=False):
    """Raw bytes on the request/response streams of a loopback MessageProtocol. The receiver lives in the harness process: a
    panic in its stream goroutine kills the process; the cases still pending then are the violating inputs."""
    import subprocess
    outp = os.path.join(ck.work, "p2p.jsonl")
    if os.path.exists(outp) and prestarted is None:
        os.remove(outp)
    env = dict(core.GOENV, VERIF_SEED=str(ck.seed), VERIF_TIER=ck.tier)
    args = [binp, "-out", outp, "-parts", "p2p", "-net", str(scale)]
    if replay_in:
        args += ["-in", replay_in]
    def execute():
        try:
            p = subprocess.run(args, cwd=ck.work, env=env, stdout=subprocess.DEVNULL, stderr=subprocess.PIPE, timeout=900, text=True)
            return p.returncode, p.stderr[-1500:]
        except subprocess.TimeoutExpired:
            return -1, "timeout after 900 s"
    if background:   # started now, finished later: finish_p2p(ck, future, ...)
        from concurrent.futures import ThreadPoolExecutor
        return ThreadPoolExecutor(max_workers=1).submit(execute)
    rc, err = prestarted.result() if prestarted is not None else execute()
    if rc == HARNESS_EXIT:   # the driver's own setup failed (listen / connect / first ping): one retry, never a property violation
        ck.notes.append("p2p driver setup failed once (%s); retried" % err[-200:])
        if os.path.exists(outp):
            os.remove(outp)
        rc, err = execute()
        if rc == HARNESS_EXIT:
            why = ""
            if os.path.exists(outp):
                for line in open(outp):
                    if '"phase":"harness"' in line:
                        why = json.loads(line).get("gen", "")
            ck.fail_obligation("harness-run:p2p", "p2p stream driver could not set up its loopback hosts (twice): %s %s" % (why, err[-300:]))
            return
    pending, done, ended, recent = {}, 0, False, []
    found = []   # failures of this pass; committed only if the pass is complete
    per_class = {False: 0, True: 0}
    if os.path.exists(outp):
        for line in open(outp):
            line = line.strip()
            if not line:
                continue
            try:
                r = json.loads(line)
            except ValueError:
                continue
            if r["phase"] == "pending":
                pending[r["i"]] = r
            elif r["phase"] == "done":
                recent = (recent + [r])[-3:]
                pending.pop(r["i"], None)
                done += 1
                per_class[bool(r["resp"])] += 1
                ck.count()
                ck.nontrivial(("p", r["resp"], r["gen"], r.get("send", ""), r["d"][:32], len(r["d"])))
                # hang / memory oracle per stream: the receiver's stream goroutine is gone within the deadline, and the process
                # allocated at most P2P_ALLOC_FACTOR * len + P2P_ALLOC_CONST bytes meanwhile
                n = len(r["d"]) // 2
                ck.extra["p2p_max_settle_ms"] = max(ck.extra.get("p2p_max_settle_ms", 0), r.get("settle_ms", 0))
                ck.extra["p2p_max_alloc"] = max(ck.extra.get("p2p_max_alloc", 0), r.get("alloc", 0))
                why = None
                if "unresponsive" in r.get("send", ""):
                    why = "the receiver stopped answering requests although its gater holds no penalty or ban for the sender"
                elif r.get("gleak", 0) > 0:
                    why = "%d goroutine(s) still alive %d ms after the stream was closed (handler blocked)" % (r["gleak"], r.get("settle_ms", 0))
                elif r.get("alloc", 0) > P2P_ALLOC_FACTOR * n + P2P_ALLOC_CONST:
                    why = "%d bytes allocated for a %d-byte message (> %d*len+%d)" % (r["alloc"], n, P2P_ALLOC_FACTOR, P2P_ALLOC_CONST)
                if why:
                    name = "onResponse" if r["resp"] else "onRequest"
                    cls = "unresponsive" if "unresponsive" in r.get("send", "") else "hang" if r.get("gleak", 0) > 0 else "alloc"
                    f = dict(kind="input", key="c09:p:%s:%s" % (name, cls), case=r,
                             what="p2p MessageProtocol %s: %s on raw stream bytes %s" % (name, why, r["d"][:200]))
                    f["spec_violated"] = True
                    f["theorem_or_correspondence"] = "C09 oracle: stream handlers terminate, memory bounded by the message size"
                    found.append(f)
            elif r["phase"] == "late":
                name = "onResponse" if r["resp"] else "onRequest"
                f = dict(kind="input", key="c09:p:%s:hang" % name, case=dict(r, phase="pending"),
                         what="p2p MessageProtocol %s: %d goroutine(s) found inside a stream handler after the case had been judged "
                              "(handler started late and never returned) on raw stream bytes %s" % (name, r.get("gleak", 0), r["d"][:200]))
                f["spec_violated"] = True
                f["theorem_or_correspondence"] = "C09 oracle: stream handlers terminate"
                found.append(f)
            elif r["phase"] == "harness":
                continue
            elif r["phase"] == "end":
                ended = True
                if not r.get("alive", True):
                    ck.fail_obligation("harness-run:p2p", "the last loopback pair did not answer the final ping")
    ck.extra["p2p_stream_cases"] = done
    if rc == 0 and ended and not replay_in and min(per_class.values()) < FLOORS["p"]:
        ck.fail_obligation("harness-run:p2p", "p2p stream driver ran only %d request-stream and %d response-stream cases (floor %d each)" % (
            per_class[False], per_class[True], FLOORS["p"]))
    if rc == 0 and not ended:
        # the driver exited normally but its output has no end record: the file was disturbed (e.g. two runs sharing one work
        # directory) - an orchestration problem, not a crash of the node: one retry, then an obligation failure
        if not retried and not replay_in:
            ck.notes.append("p2p driver output incomplete although it exited 0; retried")
            return run_p2p(ck, binp, scale, retried=True)
        ck.fail_obligation("harness-run:p2p", "p2p stream driver exited 0 but its output is incomplete (twice)")
        return
    ck.failures.extend(found)
    found = ck.failures
    if rc != 0 or not ended:
        if pending:
            for i, r in sorted(pending.items())[-1:]:
                # stream handlers run asynchronously: the culprit is the pending message or one of the few sent just before
                r = dict(r, also=[dict(x, phase="pending") for x in recent])
                f = dict(kind="input", key="c09:p:%s:crash" % ("onResponse" if r["resp"] else "onRequest"), case=r,
                         what="p2p MessageProtocol: the node process died (exit %s) while handling raw stream bytes (one of) %s: %s" % (
                             rc, ", ".join([x["d"][:120] for x in recent] + [r["d"][:120]]), err[-400:]))
                f["spec_violated"] = True
                f["theorem_or_correspondence"] = "C09 oracle: p2p stream handlers survive any byte string"
                found.append(f)
        else:
            ck.fail_obligation("harness-run:p2p", "p2p stream driver exited %s without a pending case: %s" % (rc, err))


def rmt_term(r):
    a, o = r["a"], r["obs"]
    hl = lambda x: "[" + "; ".join(cbytes(h) for h in x.split(",") if x != "") + "]" if x != "" else "[]"
    idxs = "[" + "; ".join(v for v in o["idxs"].split(",") if o["idxs"] != "") + "]"
    ok = (r["res"] == "true") if r["f"] == "rmt.VerifyProof" else (r["res"] == "ok")
    return "(%s, %s, %s, %s, %s, %s, %d, %s)" % (cbool(r["f"] != "rmt.VerifyProof"), hl(a["hashes"]), o["size"], idxs,
                                             hl(o["sibs"]), cbytes(o.get("root", "") if r["f"] != "rmt.VerifyProof" else a["root"]), r["st"], cbool(ok))


def evaluate(ck, recs, sample_cap, floors=False):
    # 1. the property oracle on every record: no recovered panic, no timeout
    for r in recs:
        ck.count()
        if r["k"] == "v" and r.get("st") == 5:   # the driver could not set the scenario up: not a verdict about the code
            ck.fail_obligation("harness-run:%s" % r["f"], "harness setup of %s failed: %s" % (r["f"], r.get("res")))
            continue
        if r["k"] in ("n", "v") and "ms" in r:
            # informative only: wall time and process-wide allocation per call (the enforced time bound is the 3 s watchdog)
            ck.extra["max_call_ms"] = max(ck.extra.get("max_call_ms", 0), r["ms"])
            ck.extra["max_call_alloc"] = max(ck.extra.get("max_call_alloc", 0), r.get("alloc", 0))
        if r["k"] == "n":
            ck.nontrivial(("n", r["f"], r["gen"], r["res"], r["d"][:32], len(r["d"])))
            if r["st"] in (2, 3):
                cls = "times out" if r["st"] == 3 else "panics"
                f = dict(kind="input", key="c09:n:%s:%s:%s" % (r["f"], cls.split()[0], site(r)), case=r,
                         what="%s %s on untrusted input (%s): %s" % (r["f"], cls, r.get("panic"), json.dumps(r)[:500]))
                f["spec_violated"] = True
                f["theorem_or_correspondence"] = "C09 oracle: outcome class of %s must be a verdict/error" % r["f"]
                ck.failures.append(f)
            continue
        if r["k"] == "m":
            ck.nontrivial(("m", r["f"], r["claimed"]))
            bound = ALLOC_FACTOR * r["len"] + ALLOC_CONST
            ck.extra["max_alloc_per_call"] = max(ck.extra.get("max_alloc_per_call", 0), r["alloc"])
            if r["st"] != 0 or r["alloc"] > bound:
                f = dict(kind="input", key="c09:m:%s:%s" % (r["f"], "panics" if r["st"] else "alloc"), case=r,
                         what="%s on a %d-byte input claiming a length of %s %s" % (
                             r["f"], r["len"], r["claimed"],
                             "panics (%s)" % r.get("panic") if r["st"] else
                             "allocates %d bytes > %d*len+%d: memory not bounded by the input size" % (r["alloc"], ALLOC_FACTOR, ALLOC_CONST)))
                f["spec_violated"] = True
                f["theorem_or_correspondence"] = "C09_read_bytes_alloc_bounded (allocation <= remaining input) vs runtime.MemStats.TotalAlloc"
                ck.failures.append(f)
            continue
        if r["k"] == "v" and (r["f"].startswith("BLS") or r["f"] == "CertVerifyAggregate") and r.get("a", {}).get("gen") \
                and r["st"] == 0 and r["res"] == "true" and \
                r["a"]["gen"] not in ("valid", "valid-key/valid-sig"):
            f = dict(kind="input", key="c09:v:%s:accepts-invalid-point" % r["f"], case=r,
                     what="%s accepts a key list / signature containing an invalid point (%s)" % (r["f"], r["a"]["gen"]))
            f["spec_violated"] = True
            f["theorem_or_correspondence"] = "C09 oracle: nil / infinity / off-subgroup points make BLS verification fail"
            ck.failures.append(f)
        if r["k"] == "v" and r["f"] in ("BLSVerifyAggSig", "BLSVerifyWeightedAggSig") and r.get("a", {}).get("gen") == "valid" \
                and r["st"] == 0 and r["res"] != "true":
            f = dict(kind="input", key="c09:v:%s:rejects-valid" % r["f"], case=r,
                     what="%s rejects a list of valid keys with the aggregate signature of all of them" % r["f"])
            f["spec_violated"] = True
            f["theorem_or_correspondence"] = "C09 oracle: genuine aggregate signatures verify"
            ck.failures.append(f)
        if r["k"] == "v" and r.get("a", {}).get("gen") in ("accepting", "wrong-root", "bad-sibling") and r["st"] == 0:
            g = r["a"]["gen"]
            want = {"rmt.VerifyProof": "true" if g == "accepting" else "false", "rmt.CalculateRootFromUpdateData": "ok"}[r["f"]]
            okroot = r["f"] == "rmt.VerifyProof" or r.get("obs", {}).get("root") == r["a"]["root"]
            if r["res"] != want or not okroot:
                f = dict(kind="input", key="c09:v:%s:%s" % (r["f"], g), case=r,
                         what="%s on a genuine proof (%s): result %s, expected %s%s" % (r["f"], g, r["res"], want,
                                                                                    "" if okroot else "; recomputed root differs from the tree root"))
                f["spec_violated"] = True
                f["theorem_or_correspondence"] = "C09/C11 oracle: genuine rmt proofs verify, a wrong root / sibling does not"
                ck.failures.append(f)
        if r["k"] == "s":
            bad = r["st"] in (2, 3) or r["sst"] in (2, 3)
            name = r["name"]
            ck.nontrivial(("s", name, r["gen"], r["st"], r["ec"], r["sst"], r["sec"], len(r["d"]) // 2 if r["gen"] != "exh" else r["d"]))
        else:
            bad = r["st"] in (2, 3)
            name = r["f"]
            ck.nontrivial(("v", name, r["res"], json.dumps(r["a"], sort_keys=True)[:200]))
        if bad:
            cls = "times out" if 3 in (r.get("st"), r.get("sst")) else "panics"
            f = dict(kind="input", key="c09:%s:%s:%s:%s" % (r["k"], name, cls.split()[0], site(r)),
                     what="%s %s on untrusted input (%s): %s" % (name, cls, r.get("panic"), json.dumps(r)[:500]), case=r)
            f["spec_violated"] = True
            f["theorem_or_correspondence"] = "C09 oracle: outcome class of %s must be ok/error" % name
            ck.failures.append(f)
    # 2. model agreement (in Coq) on a deterministic sample of the decode cases + all bitmap cases
    srecs = [r for r in recs if r["k"] == "s"]
    if len(srecs) > sample_cap:
        stride = len(srecs) / float(sample_cap)
        srecs = [srecs[int(i * stride)] for i in range(sample_cap)]
    res = ck.coq_eval(IMPORTS, "struct_case", "check_struct", [c08.struct_term(r) for r in srecs], shard=400, tag="c09s")
    skipped = 0
    if res is not None:
        for r, code in zip(srecs, res):
            if code == 100:
                skipped += 1
            elif code != 0:
                spec_bad = code >= 2
                f = dict(kind="input", key="c09:s:%s:%s" % (r["name"], "spec" if spec_bad else "model"),
                         what="decoder of %s %s on %s" % (r["name"], "violates the codec oracle" if spec_bad else
                                                         "differs from the proved total model (outcome/error class/bytes)",
                                                         json.dumps(r)[:500]), case=r)
                f["spec_violated"] = spec_bad
                f["theorem_or_correspondence"] = "Corr.C08.check_struct"
                ck.failures.append(f)
    brecs = [r for r in recs if r["k"] == "v" and r["f"] in ("BLSVerifyWeightedAggSig", "BLSVerifyAggSig")]
    res = ck.coq_eval(IMPORTS, "bits_case", "check_bits", [bits_term(r) for r in brecs], shard=400, tag="c09b")
    if res is not None:
        for r, code in zip(brecs, res):
            if code != 0:
                spec_bad = code >= 2
                f = dict(kind="input", key="c09:v:%s:%s" % (r["f"], "spec" if spec_bad else "model"),
                         what="%s %s on %s" % (r["f"], "accepts a bitmap of the wrong length or panics" if spec_bad else
                                               "differs from the Bits model", json.dumps(r)[:500]), case=r)
                f["spec_violated"] = spec_bad
                f["theorem_or_correspondence"] = "Corr.C09.check_bits"
                ck.failures.append(f)
    rrecs = [r for r in recs if r["k"] == "v" and r["f"] in ("rmt.VerifyProof", "rmt.CalculateRootFromUpdateData") and r.get("obs")
             and r["st"] in (0, 2, 3)]
    res = ck.coq_eval(IMPORTS, "rmt_case", "check_rmt", [rmt_term(r) for r in rrecs], shard=60, tag="c09r")
    skipped_big = 0
    if res is not None:
        for r, code in zip(rrecs, res):
            if code == 100:
                skipped_big += 1
            elif code != 0:
                spec_bad = code >= 2
                f = dict(kind="input", key="c09:v:%s:%s" % (r["f"], "spec" if spec_bad else "model"),
                         what="%s %s on %s" % (r["f"], "panics / hangs" if spec_bad else
                                               "differs from the total index-arithmetic model (Safe.RmtIndex)", json.dumps(r)[:500]), case=r)
                f["spec_violated"] = spec_bad
                f["theorem_or_correspondence"] = "Corr.C09.check_rmt"
                ck.failures.append(f)
    ck.extra["rmt_model_cases"] = len(rrecs) - skipped_big
    if floors:
        counts = {k: sum(1 for r in recs if r["k"] == k) for k in ("s", "v", "n", "m")}
        counts["bits"], counts["rmt"] = len(brecs), len(rrecs) - skipped_big
        for k, n in sorted(counts.items()):
            if n < FLOORS[k]:
                ck.fail_obligation("case-floor:" + k, "only %d cases of kind %s (floor %d): a generator produced (almost) nothing" % (n, k, FLOORS[k]))
    ck.extra["model_agreement_cases"] = len(srecs) + len(brecs) + len(rrecs) - skipped_big
    ck.extra["skipped_nfc_undecided"] = skipped


def run(ck):
    if not c08.translate(ck):
        return
    ck.prove(extra_targets=["Corr/C09.vo", "Corr/C08.vo", "Gen/Schemas.vo"])
    binp = ck.go_build("c09")
    if not binp:
        return
    recs = []
    corp = os.path.join(core.ROOT, "corpus", "C09")
    if os.path.isdir(corp):
        for f in sorted(os.listdir(corp)):
            if f.endswith(".jsonl"):
                got = ck.run_harness(binp, ["-in", os.path.join(corp, f)], out_name="corpus_%s" % f)
                if got is None:
                    return
                recs += got
    ck.extra["corpus_cases"] = len(recs)
    if ck.tier == "quick":
        args, cap, net = ["-exh", "2", "-vals", "1", "-mut", "4", "-ver", "2", "-net", "1"], 1500, 1
    else:
        args, cap, net = ["-exh", "3", "-vals", "4", "-mut", "20", "-ver", "12", "-net", "6"], 20000, 4
    fut = run_p2p(ck, binp, net, background=True)   # separate process, runs while the main sweep is evaluated
    got = ck.run_harness(binp, args, timeout=1500)
    if got is None:
        fut.result()
        return
    recs += got
    evaluate(ck, recs, cap, floors=True)
    run_p2p(ck, binp, net, prestarted=fut)
    for r in [x for x in recs if x["k"] == "s" and x["gen"] == "trunc"][:2] + [x for x in recs if x["k"] == "v"][:2]:
        ck.sample(r)
    ck.cov["rule"] = (
        "per generated struct (101 reachable): every byte string of length <= L over a per-struct boundary alphabet "
        "{00 01 7f 80 ff + keys of the first fields + a bool key} (L=2 for the 25 network entry points, 1 otherwise; thorough 3/2), "
        "generated valid messages truncated at EVERY offset, each top-level varint/length prefix replaced by hostile values "
        "(len+1, len+1000, 2^31, 2^63-1, 2^63, 2^64-1, over-long, non-canonical), random mutations; verifier entry points: "
        "NewBlock/NewBlockHeader/NewTransaction/NewBlockAsset/Block.Decode+Init+Validate/SingleCommit on the same classes, BLS "
        "aggregate verification with every bitmap length 0..ceil(n/8)+2 for n in {0,1,7,8,9,16,17} and wrong weight counts, "
        "garbage keys/signatures of boundary lengths, smt.Verify / rmt.VerifyProof / CalculateRootFromUpdateData on random "
        "malformed proofs (decoded from bytes), CalculateRootFromAppendPath with short paths. Network-facing code on a real "
        "Executer (6-block chain, 4 validators): blockValidator -> onBlockReceived -> fork-choice process, verifyBlock, "
        "verifyAggregateCommit, singleCommitValidator, transactionValidator -> onTransactionAnnouncement, txpool getTransactions, "
        "sync getLastBlock / getHighestCommonBlock / getBlocksFromID handlers, Ed25519 / block signature verification: valid message, "
        "every truncation, hostile varints, mutations, wrong-size IDs / addresses / keys / signatures / roots (re-signed too), "
        "aggregate commits of every bitmap/signature size and boundary heights, empty and over-long lists; raw bytes on the "
        "request/response streams of a loopback libp2p MessageProtocol (process death = violation). Memory: TotalAlloc delta of "
        "Decode/DecodeStrict on a length prefix claiming 2^20..2^64-1 bytes for every length-delimited field of every struct, "
        "bound 64*len+32KiB. Oracle on every case: outcome "
        "class in {ok, error}; model agreement evaluated in Coq on a deterministic sample. Distinct = by (entry point, generator, "
        "outcome and error class, input length / arguments).")
    ck.cov["exhaustive"] = True
    ck.extra["exhaustive_domain"] = "decoders on byte strings up to length L over the per-struct boundary alphabet only"
    ck.extra["traces_validated_against_impl"] = len(recs)
    ck.assume += ["byte strings shorter than 2^62 bytes (Go slice lengths)", "64-bit Go int",
                  "blst (cgo) and SHA-256 are exercised by the harness only"]
    if ck.tier == "thorough":
        ck.coqchk(["LE.Properties.C09"])


def replay(ck, path):
    doc = json.load(open(path))
    case = doc.get("input")
    if not case:
        print("replay names a broken obligation, no input: %s" % doc.get("what"))
        run(ck)
        return ck.finish(LEVEL)
    binp = ck.go_build("c09")
    if binp and case.get("k") == "p":
        inp = os.path.join(ck.work, "replay_in.jsonl")
        lines = [dict(x) for x in case.get("also", [])] + [{k: v for k, v in case.items() if k != "also"}]
        open(inp, "w").write("".join(json.dumps(x) + "\n" for x in lines))
        run_p2p(ck, binp, 1, replay_in=inp)
        return ck.finish(LEVEL)
    if binp:
        inp = os.path.join(ck.work, "replay_in.jsonl")
        open(inp, "w").write(json.dumps(case) + "\n")
        recs = ck.run_harness(binp, ["-in", inp], out_name="replay.jsonl")
        if recs is not None:
            evaluate(ck, recs, 10)
            print("replayed: %s" % json.dumps(recs)[:2000])
    return ck.finish(LEVEL)
