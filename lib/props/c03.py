"""C03 — only fully valid blocks extend the chain; rejected blocks change nothing."""
import json
from core import cN, cbool, clist

LEVEL = "proof"
READY = True
MANIFEST = {
    "technique": "Coq proof on a Gallina model of Block.Validate/verifyBlock/processValidated/process + differential correspondence "
                 "against a real in-process consensus.Executer (single-field alteration sweep, whole-DB dumps, events), evaluated in Coq",
    "text": "Theorems (all node states, blocks and external answers): the ordered checks of Block.Validate, verifyBlock and "
            "processValidated accept a block iff it satisfies the declarative rule list of the property (version, consecutive height "
            "and link, strictly later non-future slot, the slot's generator and its signature for this chain ID, own maxHeightPrevoted, "
            "no contradiction, aggregate commit, transaction/asset/event roots and validatorsHash of the execution result, statically "
            "valid transactions within the size limit); a rejected block leaves chain, consensus store, finalized height and published "
            "events unchanged; an accepted block is appended with finalized' = max(finalized, maxHeightPrecommited). The model is tied "
            "to the Go code by building valid successors on random reachable states of a real Executer and submitting every "
            "single-field alteration (each header field with and without re-signing, signature, signer, chain ID, slot boundaries, "
            "payload, assets, aggregate-commit parts, ABI answers): accept/reject, first failing rule, full sorted DB dump before/after, "
            "events, tip, finalized height are compared with the model and with the rule-list oracle. Three defects found and fixed "
            "(eventRoot unchecked, static transaction validity unchecked, payload size limit unchecked); one known finding: in the "
            "tie-break branch of process an invalid competing block makes the node delete and re-apply its tip (Delete/New events).",
    "note": "Trusted: Coq kernel + vm_compute, model fidelity as sampled by the correspondence, Go harness/ABI double, Python glue. "
            "Signature schemes, Merkle roots, the BFT vote module (heights, contradiction) and the aggregate-commit verdict are inputs "
            "(C01/C02/C06/C10/C11 own them). lastBlockReceived and network publication are outside the observables.",
}
IMPORTS = "From LE Require Import BFT.Contradiction BFT.ForkChoice Exec.VerifyBlock Exec.Process Corr.C03."

CLASS_RULES = {
    "ok": [0], "static": [1], "txstatic": [2], "txroot": [3], "assets": [4], "assetroot": [5], "version": [6], "payloadsize": [7],
    "height": [8], "previd": [9], "future": [10], "pastslot": [11], "generator": [14], "mhp": [15], "contradiction": [16],
    "aggcommit": [17], "signature": [18], "abi": [19, 20, 22, 23, 24, 25, 30], "txverify": [23], "setparams": [26], "vhash": [27],
    "nevents": [28], "eventroot": [29], "stateroot": [30],
    # never produced by the generators (documented in docs/C03.md): generator-key lookup failure, empty generator list (Go panics),
    # liskbft execution error, more than 2^30 events
    "genlookup": [12], "panic": [13], "bft": [21],
}


class Intern:
    """injective per-case codes for byte strings (hex) and opaque strings"""

    def __init__(self):
        self.m = {}

    def code(self, s):
        if s not in self.m:
            self.m[s] = len(self.m) + 1
        return self.m[s]

    def b(self, hexs):
        return "(mkB %d %d)" % (len(hexs) // 2, self.code("b:" + hexs))

    def n(self, s):
        return str(self.code("s:" + s))


def header(it, h):
    return "(mkH %d %d %d %s %s %s %s %s %s %d %d %s %s %d %s %s %s %s)" % (
        h["version"], h["ts"], h["height"], it.b(h["prev"]), it.b(h["gen"]), it.b(h["txroot"]), it.b(h["assetroot"]),
        it.b(h["eventroot"]), it.b(h["stateroot"]), h["mhp"], h["mhg"], cbool(h["imp"]), it.b(h["vhash"]), h["aggh"],
        it.b(h["aggbits"]), it.b(h["aggsig"]), it.b(h["sig"]), it.b(h["id"]))


def block(it, b):
    mods = sorted(set(a["module"] for a in b["assets"]))
    txs = clist(b["txs"], lambda t: "(mkTx %s %d %s)" % (it.b(t["id"]), t["size"], cbool(t["static"])))
    assets = clist(b["assets"], lambda a: "(mkAs %d %s)" % (mods.index(a["module"]) + 1, it.b(a["data"])))
    return "(mkBlk %s %s %s)" % (header(it, b["header"]), txs, assets)


def venv(it, v):
    np = v.get("next_params")
    return "(mkVE %d %d %d %d %s %s %d %s %d %d %s %s %s %s)" % (
        v["genesis_ts"], v["block_time"], v["now"], v["max_payload"], cbool(v["gen_lookup_ok"]), clist(v["generators"], it.b),
        v["node_mhp"], cbool(v["contradicting"]), v["mh_precommit"], v["mh_cert"], "None" if np is None else "(Some %d)" % np,
        cbool(v["agg_lookup_ok"]), cbool(v["agg_bls_ok"]), cbool(v["sig_ok"]))


def xenv(it, x):
    return "(mkXE %s %s %s %s %s %s %s %s %s %d %s %d %s %s)" % (
        cbool(x["init_ok"]), cbool(x["verify_assets_ok"]), cbool(x["bft_ok"]), cbool(x["before_ok"]),
        clist(x["tx"], lambda p: "(%s, %s)" % (cbool(p[0]), cbool(p[1]))), cbool(x["after_ok"]), cbool(x["params_changed"]),
        cbool(x["set_params_ok"]), it.b(x["post_vhash"]), x["nevents"], it.b(x["eventroot"]), x["post_precommit"],
        cbool(x["commit_ok"]), it.n(x["post_cs"]))


def events(it, evs):
    out = []
    for e in evs:
        t = e["t"]
        if t == "new":
            out.append("(1, %d, %d, 0)" % (it.code("b:" + e["id"]), e.get("nev", 0)))
        elif t == "finalize":
            out.append("(2, %d, %d, %d)" % (e.get("orig", 0), e.get("next", 0), it.code("b:" + e["id"])))
        elif t == "delete":
            out.append("(3, %d, 0, 0)" % it.code("b:" + e["id"]))
        else:
            out.append("(4, 0, 0, 0)")
    return "[" + "; ".join(out) + "]"


def impl(it, r):
    i = r["impl"]
    # an error text the harness does not recognise (e.g. after a message was reworded): still a rejection, rule class unknown —
    # accept/reject and every observable are compared, the first-failing-rule comparison is skipped for this case (counted in evidence)
    rules = CLASS_RULES.get(i["class"], list(range(1, 31)) if i["class"].startswith("other:") else [98])
    return "(mkIO %s %s %s %s %d %s %s %d %d)" % (clist(rules), cbool(i["db_same"]), events(it, i["events"]), it.b(i["tip_after"]),
                                                  i["fin_after"], it.n(i["cs_after"]), it.b(i["app_after"]), i["abi_commits"],
                                                  i["abi_reverts"])


def pv_term(r):
    it = Intern()
    win = "[" + "; ".join("Build_bh %s %d %s %s" % (e[0], it.code("b:" + e[1]), e[2], e[3]) for e in r["ve"].get("window", [])) + "]"
    return "(mkPV %s %d %s %s %s (mkPE %s %s) %s %s %s %s)" % (
        header(it, r["tip"]), r["fin"], it.n(r["cs"]), it.b(r["app"]), block(it, r["block"]), it.b(r["pe_txroot"]), it.b(r["pe_assetroot"]),
        venv(it, r["ve"]), xenv(it, r["xe"]), impl(it, r), win)


def tb_term(r):
    it = Intern()
    win = "[" + "; ".join("Build_bh %s %d %s %s" % (e[0], it.code("b:" + e[1]), e[2], e[3]) for e in r["ve"].get("window", [])) + "]"
    return "(mkTB %s %s %d %s %s %s (mkPE %s %s) %s %s %s %s %s %s %s)" % (
        block(it, r["prevblock"]), block(it, r["old"]), r["fin"], it.n(r["cs"]), it.b(r["app"]), block(it, r["block"]), it.b(r["pe_txroot"]),
        it.b(r["pe_assetroot"]), venv(it, r["ve"]), xenv(it, r["xe"]), it.n(r["del_cs"]), venv(it, r["old_ve"]),
        xenv(it, r["old_xe"]), impl(it, r), win)


def short(r):
    """projection of a record that goes into failure reports (the full record is the replay input)"""
    return {"alt": r["alt"], "resigned": r["resigned"], "path": r["path"], "impl": r["impl"], "height": r["block"]["header"]["height"]}


def evaluate(ck, recs):
    pv = [r for r in recs if r["k"] == "pv"]
    tb = [r for r in recs if r["k"] == "tb"]
    rp = ck.coq_eval(IMPORTS, "pv_case", "check_pv", [pv_term(r) for r in pv], shard=150, tag="pv")
    rt = ck.coq_eval(IMPORTS, "tb_case", "check_tb", [tb_term(r) for r in tb], shard=50, tag="tb")
    for rs, res, kind in ((pv, rp, "pv"), (tb, rt, "tb")):
        if res is None:
            continue
        for r, code in zip(rs, res):
            ck.count()
            ck.nontrivial((r["alt"], r["resigned"], r["impl"]["class"], r["path"], len(r["block"]["txs"]) > 0,
                           r["xe"]["post_precommit"] > r["fin"], r["xe"]["params_changed"]))
            if kind == "pv" and r.get("unsigned_change") and r["impl"]["class"] == "ok":
                # independent of model and signature oracle: a header whose signed part was altered and which was NOT re-signed can
                # never be accepted, whatever field was touched
                ck.failures.append(dict(kind="input", key="c03:accepted-unsigned-alteration:%s" % r["alt"], spec_violated=True, case=r,
                                        observed=r["impl"], theorem_or_correspondence="signature covers every header field",
                                        what="alteration '%s' of the signed part of the header, NOT re-signed, was ACCEPTED (%s): the "
                                             "signature does not cover that field" % (r["alt"], r["path"])))
            if code == 0:
                continue
            spec_bad = code >= 2
            if kind == "tb":
                # bit mask (Corr.C03.check_tb): only the exact event pattern [Delete old tip; New old tip] for an invalid
                # competitor is the known finding; every other conjunct has its own key
                bits = [(1, "model", "implementation differs from the model of the tie-break branch (state / events / application root / "
                            "database-unchanged flag)"),
                        (2, None, None),
                        (4, "tip", "wrong tip afterwards (an invalid competitor must leave the old tip, a valid one must become the tip)"),
                        (8, "db-changed", "an invalid competitor left the database different from before"),
                        (16, "finalized", "wrong finalized height afterwards"),
                        (32, "consensus-store", "wrong consensus store afterwards"),
                        (64, "application", "application root changed or ABI commits/reverts unbalanced"),
                        (128, "events", "events are neither the expected ones nor exactly [Delete old tip; New old tip]")]
                obs = "events %s, db_same %s, tip_after %s, fin_after %s, ABI commits/reverts %s/%s" % (
                    json.dumps(r["impl"]["events"]), r["impl"]["db_same"], r["impl"]["tip_after"][:12], r["impl"]["fin_after"],
                    r["impl"]["abi_commits"], r["impl"]["abi_reverts"])
                for bit, name, text in bits:
                    if not code & bit:
                        continue
                    if bit == 2:
                        key, what, sb = ("c03:process:tiebreak-rejected-block-republishes-tip",
                                         "process, tie-break branch: %s: Delete+New of the old tip published for a rejected competitor (%s)"
                                         % (r["alt"], obs), True)
                    else:
                        key, what, sb = ("c03:process:tiebreak:%s" % name, "process, tie-break branch: %s: %s (%s)" % (r["alt"], text, obs),
                                         bit != 1)
                    ck.failures.append(dict(kind="input", key=key, what=what, case=r, spec_violated=sb, observed=r["impl"],
                                            theorem_or_correspondence="Corr.C03.check_tb vs consensus.Executer"))
                continue
            else:
                accepted = r["impl"]["class"] == "ok"
                if spec_bad:
                    key = "c03:%s:%s:%s" % (r["path"].split("+")[0], "accepted-invalid" if accepted else "rejected-or-changed", r["alt"])
                    what = ("%s: alteration '%s' (%s): implementation %s, observables db_same=%s events=%s ABI commits=%d reverts=%d "
                            "application root changed=%s — violates the rule-list oracle (accept iff every rule holds; a rejected "
                            "block leaves no trace, not even a committed application state)"
                            % (r["path"], r["alt"], "re-signed" if r["resigned"] else "not re-signed",
                               "ACCEPTED the block" if accepted else "rejected with class " + r["impl"]["class"],
                               r["impl"]["db_same"], json.dumps(r["impl"]["events"]), r["impl"]["abi_commits"],
                               r["impl"]["abi_reverts"], r["impl"]["app_after"] != r["app"]))
                else:
                    key = "c03:pv:model:%s" % r["alt"]
                    what = ("%s: alteration '%s': implementation (class %s, err %s) differs from the proved model"
                            % (r["path"], r["alt"], r["impl"]["class"], r["impl"].get("err", "")))
            ck.failures.append(dict(kind="input", key=key, what=what, case=r, spec_violated=spec_bad, observed=r["impl"],
                                    theorem_or_correspondence="Corr.C03.check_%s vs consensus.Executer" % kind))
    return rp, rt


def generator_goals(recs):
    """scenario kinds every run must contain (the world generator is random and time-dependent: run() tops the records up with
    further harness runs until they are all present, so that a missing kind is a real loss of coverage, not bad luck)"""
    aggc = [r for r in recs if r["alt"].startswith("aggregateCommit: genuine")]
    tbs = [r for r in recs if r["k"] == "tb"]
    return list((("a genuine aggregate commit on each side of the next-BFT-parameters bound",
         any("next BFT parameters-1" in r["alt"] and r["impl"]["class"] == "ok" for r in aggc)
         and any("exactly the height of the next BFT parameters" in r["alt"] for r in aggc)),
        ("a valid successor that changes the BFT parameters, with the old validatorsHash as an alteration",
         any(r["alt"] == "validatorsHash of the parameters before the change" for r in recs)),
        ("a history block that casts no votes (maxHeightGenerated >= height) followed by headers of the same generator that "
         "contradict it (the contradiction verdict is recomputed independently from the window)",
         any("casting no votes" in r["alt"] for r in recs) and any(r["impl"]["class"] == "contradiction" for r in recs)),
        ("a generator-key rotation (same addresses, order, weights) followed by blocks signed with the new and the retired key",
         any(r["alt"] == "signed with the generator's retired key" for r in recs)
         and any(r["alt"].startswith("none (valid successor rotating") and r["impl"]["class"] == "ok" for r in recs)),
        ("a genuine aggregate commit whose signer weight is at or above the precommit threshold but below the certificate "
         "threshold, and one exactly at the certificate threshold",
         any("below the certificate threshold" in r["alt"] for r in recs)
         and any("equal to the certificate threshold" in r["alt"] and r["impl"]["class"] == "ok" for r in recs)))) + [
        ("tie-break cases through Executer.process with a valid and with at least two invalid competitors",
         any("valid competing" in r["alt"] for r in tbs) and sum(1 for r in tbs if "valid competing" not in r["alt"]) >= 2)]


def run(ck):
    ck.prove(extra_targets=["Corr/C03.vo"])
    binp = ck.go_build("c03")
    if not binp:
        return
    args = ["-worlds", "9", "-points", "2"] if ck.tier == "quick" else ["-worlds", "60", "-points", "3"]
    recs = ck.run_harness(binp, args)
    if recs is None:
        return
    import os
    for k in (1, 2, 3):
        if all(ok for _, ok in generator_goals(recs)):
            break
        more = ck.run_harness(binp, args, out_name="cases_topup%d.jsonl" % k, env_extra={"VERIF_SEED": str(ck.seed * 1000 + k)})
        if more is None:
            return
        for r in more:
            r["world"] = r.get("world", 0) + 1000 * k
        recs += more
        ck.extra["generator_topup_runs"] = k
    evaluate(ck, recs)
    # corpus: alterations behind fixed findings must be exercised in every run and must be rejected
    cdir = os.path.join(os.path.dirname(os.path.dirname(os.path.dirname(os.path.abspath(__file__)))), "corpus", "C03")
    corpus = []
    if os.path.isdir(cdir):
        for f in sorted(os.listdir(cdir)):
            if f.endswith(".jsonl"):
                corpus += [json.loads(l) for l in open(os.path.join(cdir, f)) if l.strip()]
    for c in corpus:
        same = [r for r in recs if r["alt"] == c["alt"] and r["resigned"] == c["resigned"]]
        bad = [r for r in same if r["impl"]["class"] == "ok"]
        if not same:
            ck.fail_obligation("corpus:" + c["alt"], "corpus alteration '%s' was not exercised by the harness" % c["alt"])
        for r in bad[:1]:
            ck.failures.append(dict(kind="input", key=c["finding"], what="fixed finding is back: alteration '%s' accepted" % c["alt"],
                                    case=r, spec_violated=True, observed=r["impl"], theorem_or_correspondence="corpus/C03"))
    seen = set()
    for r in recs:
        k = (r["impl"]["class"] == "ok", r["k"])
        if k not in seen:
            seen.add(k)
            ck.sample(short(r))
    ck.cov["rule"] = ("random node histories of a real Executer (2-5 validators, slot gaps, transactions, assets, application events, "
                      "validator-set changes, aggregate commits, finality progress); at several states a valid successor and ~110 "
                      "single-field alterations (each header field with/without re-signing, signature/signer/chain ID, slot boundaries "
                      "incl. wrap, payload, assets, aggregate commit, ABI answers) through Validate+processValidated or process; "
                      "tie-break scenario. Distinct = (alteration, re-signed, implementation class, entry point, has txs, raises "
                      "finality, changes validators)")
    ck.extra["traces_validated_against_impl"] = len(recs)
    ck.extra["corpus_cases"] = len(corpus)
    ck.extra["classes"] = sorted(set(r["impl"]["class"] for r in recs))
    ck.extra["unrecognised_error_texts"] = sum(1 for r in recs if r["impl"]["class"].startswith("other:"))
    aggc = [r for r in recs if r["alt"].startswith("aggregateCommit: genuine")]
    ck.extra["genuine_aggregate_commit_cases"] = {"accepted": sum(1 for r in aggc if r["impl"]["class"] == "ok"),
                                                  "rejected": sum(1 for r in aggc if r["impl"]["class"] != "ok"),
                                                  "at_next_params_bound": sum(1 for r in aggc if "next BFT parameters" in r["alt"])}
    ck.extra["generator_key_rotations"] = sum(1 for r in recs if r["alt"].startswith("none (valid successor rotating"))
    ck.extra["partial_signer_commit_cases"] = sum(1 for r in recs if "signer weight" in r["alt"])
    ck.extra["parameter_changing_successors"] = sum(1 for r in recs if r["alt"].startswith("none") and r["xe"]["params_changed"])
    for name, ok in generator_goals(recs)[:-1]:
        ck.obligations += 1
        if ok:
            ck.discharged += 1
        else:
            ck.fail_obligation("generator:" + name, "the scenario generator did not produce " + name)
    ck.obligations += 1
    disagree = [r for r in recs if not r["ve"].get("signing_bytes_agree", False)]
    if not disagree and recs:
        ck.discharged += 1
    else:
        r0 = disagree[0] if disagree else None
        ck.failures.append(dict(kind="input", key="c03:signing-bytes", spec_violated=True, case=r0, observed=None,
                                theorem_or_correspondence="BlockHeader.SigningBytes vs the field list of the property",
                                what="BlockHeader.SigningBytes() differs from the independent encoding of tag||chainID||all header fields "
                                     "except signature and id (%d cases): a field is missing from, or added to, the signed part" % len(disagree)))
    ck.obligations += 1
    bad_er = [r for r in recs if not r["xe"].get("eventroot_agree", False)]
    if not bad_er and recs:
        ck.discharged += 1
    else:
        ck.failures.append(dict(kind="input", key="c03:event-root-definition", spec_violated=True, case=bad_er[0] if bad_er else None,
                                observed=None, theorem_or_correspondence="CalculateEventRoot vs independent sparse Merkle root",
                                what="blockchain.CalculateEventRoot differs from the independent sparse-Merkle root of the event "
                                     "key/value pairs (%d cases)" % len(bad_er)))
    ck.extra["unsigned_field_alterations"] = sum(1 for r in recs if r.get("unsigned_change"))
    tbs = [r for r in recs if r["k"] == "tb"]
    ck.extra["tie_break_cases"] = {a: sum(1 for r in tbs if r["alt"] == a) for a in sorted(set(r["alt"] for r in tbs))}
    ck.obligations += 1
    if any("valid competing" in r["alt"] for r in tbs) and sum(1 for r in tbs if "valid competing" not in r["alt"]) >= 2:
        ck.discharged += 1
    else:
        ck.fail_obligation("generator:tie-break", "the run must contain tie-break cases through Executer.process with a valid and with "
                           "at least two invalid competitors; found %s" % ck.extra["tie_break_cases"])
    ck.assume += ["Ed25519/BLS verification, Merkle roots, liskbft heights/contradiction verdict and verifyAggregateCommit are inputs "
                  "of the model, computed by the harness from the same libraries outside the code path under test",
                  "the wall clock stays in one slot during a case (cases where it does not are re-run)"]
    if ck.tier == "thorough":
        ck.coqchk(["LE.Properties.C03"])


def replay(ck, path):
    doc = json.load(open(path))
    case = doc.get("input")
    if not case:
        print("replay names a broken obligation, no input: %s" % doc.get("what"))
        run(ck)
        return ck.finish(LEVEL)
    # cases depend on the wall clock (slots) and on a whole node history: re-evaluate the recorded observation against model
    # and oracle, and re-run the sweep so that the same alteration is exercised again on the current tree
    ck.prove(extra_targets=["Corr/C03.vo"])
    print("recorded observation: alt=%s impl=%s" % (case.get("alt"), json.dumps(case.get("impl"))))
    ck.seed = doc.get("seed", ck.seed)
    binp = ck.go_build("c03")
    if binp:
        recs = ck.run_harness(binp, ["-worlds", "9", "-points", "2"], out_name="replay.jsonl")
        if recs is not None:
            same = [r for r in recs if r["alt"] == case.get("alt") and r["resigned"] == case.get("resigned")]
            print("re-executed %d cases of this alteration on the current tree" % len(same))
            evaluate(ck, same)
    return ck.finish(LEVEL)
