"""C15 — generated blocks are valid; a generator never contradicts itself."""
import glob
import json
import os

from core import ROOT, cN, cbool, clist

LEVEL = "proof"
READY = True
MANIFEST = {
    "technique": "Coq proofs on Gallina models (heap-driven selection as a relation over pop traces; persisted generator info "
                 "as a total state machine over forge/tip-change/sync/restart/crash events; composition with the block "
                 "acceptance model of C03) + differential correspondence evaluated in Coq (real selectTransactionsByFee and "
                 "real forge() via hooks, generated blocks fed to the real Executer, two-node sync run)",
    "text": "Theorems: over ALL event sequences, every event enabled in every state - forge ticks (crash before the persist, "
            "between persist and hand-off, or none), the tip becoming anything (own block processed, delayed or dropped; fork "
            "choice; deletes; a failed sync leaving a lower tip), syncing on/off, restarts - the headers one generator hands on are "
            "pairwise non-contradicting, with no hypothesis on the environment; without a crash between persist and hand-off they "
            "are exactly C07's `follower` history and maxHeightGenerated is the largest height generated; the persisted info covers "
            "what was handed on; the original code and the first repair alone are refuted. Selection: every possible pop trace yields "
            "the successful part of the trace, a gap-free nonce-ordered prefix per sender, within the size limit, each pop of maximal "
            "fee priority among the senders' next transactions, never returning to a sender after a failure. The generated block "
            "passes every rule of Block.Validate / verifyBlock / block execution when generation and acceptance see the same "
            "environment (partial). Tie: random pools x outcome scripts x limits through the real selection; event sequences "
            "(incl. dropped hand-offs, lower tips, crashes) through the real forge() with the generator DB read at hand-off time; "
            "blocks forged on a real in-process node with non-empty pools (failing transactions, size limit), events and pooled "
            "aggregate commits must be accepted by the same node's Executer; the two misbehaving-environment scenarios on real "
            "nodes; transaction execution through the in-process ABI handler.",
    "note": "Four genuine defects repaired in /repo (the fourth: a generated block changing the validator set was rejected by the own node): maxHeightGenerated = last instead of largest height; no protection "
            "against generating again on the same or a lower tip (double forging when the own block is not processed before the "
            "next tick, contradiction after a failed block sync); ExecuteTransactionRequest.Consensus never set (nil dereference in "
            "the in-process ABI handler). Acceptance is established by running the real Executer (sampled) and by the partial "
            "composition theorem, whose hypotheses (same BFT/ABI answers at generation and acceptance, aggregate commit and "
            "signature validity, contradiction verdict) are not discharged. Trusted: Coq kernel + vm_compute, fidelity of the hand "
            "models as sampled, Go harness (incl. harness/internal/exh, gsx), Python glue.",
}
IMPORTS = "From LE Require Import BFT.Contradiction Forge.Select Forge.GenInfo Corr.C15."
GEN = 7


def sel_term(r):
    pool = clist(r["pool"], lambda p: "(Build_tx %d %d %d %d %d)" % tuple(p))
    script = clist(r["script"], lambda s: "(%d, %d)" % tuple(s))
    return "(%s, %d, %s, %s, %s, %s)" % (pool, r["limit"], script, clist(r["trace"]), clist(r["out"]),
                                        cbool(bool(r.get("panic") or r.get("err"))))


def tip(t):
    return "(Build_tip %d %d)" % tuple(t)


def ogi(x):
    return "None" if x is None else "(Some (Build_geninfo %d %d %d))" % tuple(x)


def gen_term(r):
    evs = []
    cur = list(r["t0"])
    for e in r["evs"]:
        op = e["op"]
        if op == "forge" and e.get("abort"):
            evs.append("(GForgeAbort %d %s %s)" % (e.get("who", 0), cbool(e["forged"]), ogi(e.get("stored"))))
        elif op == "forge":
            h = e["hdr"]
            forged = e["forged"] and not e.get("panic")
            signer = e.get("signer", -1)
            evs.append("(GForge %d %s %s (Build_bh %d %d %d %d) %s %s)" % (
                e.get("who", 0), cbool(e.get("lost", False)), cbool(forged), h[0], signer if signer >= 0 else 99, h[2], h[1],
                ogi(e.get("athand")), ogi(e.get("stored"))))
            if forged and not e.get("lost") and not e.get("drop"):
                cur = [e.get("after", 0), cur[1] + 1]
                evs.append("(GTip %s)" % tip(cur))
        elif op == "tip":
            cur = list(e["t"])
            evs.append("(GTip %s)" % tip(cur))
        elif op == "sync":
            evs.append("(GSync %s)" % cbool(e.get("on", False)))
        elif op == "restart":
            evs.append("GRestart")
        elif op == "powerloss":
            evs.append("(GPowerLoss %s)" % clist(list(enumerate(e.get("all") or [])), lambda kv: "(%d, %s)" % (kv[0], ogi(kv[1]))))
    return "(%s, [%s])" % (tip(r["t0"]), "; ".join(evs))


def add_failure(ck, kind, code, what_spec, what_model, case):
    spec_bad = code >= 2
    f = dict(kind="input", key="c15:%s:%s" % (kind, "spec" if spec_bad else "model"),
             what=(what_spec if spec_bad else what_model) + " on " + json.dumps(case)[:1500], case=case)
    f["spec_violated"] = spec_bad
    f["theorem_or_correspondence"] = "Corr.C15.check_%s" % kind
    ck.failures.append(f)


def evaluate(ck, recs):
    for r in recs:
        if r.get("fail"):
            ck.fail_obligation("harness-setup", "scenario could not be built: %s" % r["fail"])
    recs = [r for r in recs if not r.get("fail")]
    sel = [r for r in recs if r["k"] == "sel"]
    gen = [r for r in recs if r["k"] == "gen"]
    acc = [r for r in recs if r["k"] == "acc"]
    for r in [x for x in recs if x["k"] == "dbl"]:
        ck.count()
        ck.nontrivial(("dbl", r["mode"]))
        code = (ck.coq_eval(IMPORTS, "bool * bool * bool", "check_dbl", ["(%s, %s, %s)" % (cbool(r["forged1"]), cbool(r["forged2"]), cbool(r["contra"]))], tag="dbl_" + r["mode"]) or [3])[0]
        if r.get("panic") or code >= 2:
            f = dict(kind="input", key="c15:dbl:%s" % r["mode"],
                     what="generator signed two contradicting headers (or did not forge at all) when %s: %s" % (
                         {"busy": "the handed-over block was not processed before the next tick",
                          "lower": "a failed block sync left a lower tip"}[r["mode"]], json.dumps(r)), case=r)
            f["spec_violated"] = True
            f["theorem_or_correspondence"] = "real forge() on a real Executer vs C15_never_self_contradicting"
            ck.failures.append(f)
        elif code == 1:
            ck.fail_case("c15:dbl:model", "second forge was not refused although the model refuses it: " + json.dumps(r), r)
    rs = ck.coq_eval(IMPORTS, "sel_case", "check_sel", [sel_term(r) for r in sel], shard=120, tag="sel")
    rg = ck.coq_eval(IMPORTS, "gen_case", "check_gen", [gen_term(r) for r in gen], shard=60, tag="gen")
    if rs is not None:
        for r, code in zip(sel, rs):
            ck.count()
            if len(r["trace"]) >= 2:
                ck.nontrivial(("sel", tuple(tuple(p) for p in r["pool"]), r["limit"], tuple(tuple(s) for s in r["script"])))
            if code != 0:
                add_failure(ck, "sel", code,
                            "selectTransactionsByFee output violates nonce order / size limit / fee priority / sender drop",
                            "selectTransactionsByFee trace/output is not a valid selection of the model", r)
    if rg is not None:
        for r, code in zip(gen, rg):
            ck.count()
            for e in r["evs"]:
                if e.get("panic"):  # never swallowed, whatever the model expects for this event
                    ck.fail_case("c15:gen:panic", "forge() panicked: %s on %s" % (e["panic"], json.dumps(r)[:800]), r)
            forged = [e for e in r["evs"] if e["op"] == "forge" and e["forged"]]
            if len(forged) >= 2:
                ck.nontrivial(("gen", tuple(r["t0"]), tuple((e["op"], tuple(e.get("t", [])), e.get("lost", False), e.get("drop", False), e.get("who", 0), e.get("abort", False)) for e in r["evs"])))
            if code != 0:
                add_failure(ck, "gen", code,
                            "generator signed contradicting headers / maxHeightGenerated below an earlier own height / info not "
                            "persisted before hand-off",
                            "forge / generator DB differs from the GenInfo model", r)
    for r in [x for x in recs if x["k"] == "abi"]:
        ck.count()
        ck.nontrivial(("abi",))
        if r.get("fail"):
            continue
        if r.get("panic") or r.get("err") or r["selected"] != 1:
            f = dict(kind="input", key="c15:abi:consensus-nil",
                     what="generator executing a pooled transaction through the in-process framework.ABIHandler: %s" % json.dumps(r), case=r)
            f["spec_violated"] = True
            f["theorem_or_correspondence"] = "generator.stateExecuter.ExecuteTransaction vs framework.ABIHandler.ExecuteTransaction"
            ck.failures.append(f)
    rounds = []
    for r in acc:
        for i in range(len(r["forged"])):
            lim = r.get("limit") or 15360
            get = lambda k, d: (r.get(k) or [])[i] if i < len(r.get(k) or []) else d
            fl = (r.get("fields") or [])
            fields_ok = i < len(fl) and all(fl[i].values())
            hdr = get("hdr", [0, 0, 0])
            rounds.append((r, i, "(%s, %s, %s, %s, %d, %d, %d, %s, %d, %d, %s, (%d, %d, %d))" % (
                cbool(r["forged"][i]), cbool(r["accepted"][i]), cbool(r["tipis"][i]), cbool(bool(r.get("panic"))), get("payload", 0), lim,
                get("badin", 0) + get("invalidin", 0), cbool(fields_ok), get("tiph", 0), get("nodemhp", 0), ogi(get("disk", None)),
                hdr[0], hdr[1], hdr[2])))
    ra = ck.coq_eval(IMPORTS, "bool * bool * bool * bool * N * N * N * bool * N * N * option geninfo * (N * N * N)", "check_accept", [t for _, _, t in rounds], shard=200, tag="acc")
    if ra is not None:
        for (r, i, _), code in zip(rounds, ra):
            ck.count()
            ntx = (r.get("ntx") or [0])[min(i, len(r.get("ntx") or [0]) - 1)] if r.get("ntx") else 0
            aggh = (r.get("aggh") or [0])[min(i, len(r.get("aggh") or [0]) - 1)] if r.get("aggh") else 0
            ck.nontrivial(("acc", r["nval"], r["pre"], r["events"], i, ntx > 0, aggh > 0, bool(r.get("badevery")), bool(r.get("limit")), bool(r.get("execmix")), bool(r.get("nextvals")), bool(r.get("pendingparams"))))
            if code != 0:
                f = dict(kind="input", key="c15:acc:spec",
                         what="block generated by forge() was not accepted by the same node's Executer, or exceeds the size limit, or "
                              "contains a transaction that failed verification, or a sealed field differs from the independently "
                              "recomputed value (%s): " % [k for fl in (r.get("fields") or []) for k, v in fl.items() if not v]
                              + json.dumps(r)[:900], case=r)
                f["spec_violated"] = code >= 2
                f["theorem_or_correspondence"] = "Corr.C15.check_accept: generated block vs consensus.Executer.process"
                ck.failures.append(f)


def corpus_file(ck):
    files = sorted(glob.glob(os.path.join(ROOT, "corpus", "C15", "*.jsonl")))
    if not files:
        return None
    inp = os.path.join(ck.work, "corpus_in.jsonl")
    with open(inp, "w") as f:
        for p in files:
            for line in open(p):
                if line.strip():
                    f.write(line.strip() + "\n")
    return inp


def run(ck):
    ck.prove(extra_targets=["Corr/C15.vo"])
    binp = ck.go_build("c15")
    if not binp:
        return
    recs = []
    inp = corpus_file(ck)
    if inp:
        r0 = ck.run_harness(binp, ["-in", inp], out_name="corpus.jsonl")
        if r0 is None:
            return
        recs += r0
    if ck.tier == "quick":
        args = ["-sel", "900", "-gen", "150", "-acc", "9"]
    else:
        args = ["-sel", "20000", "-gen", "3000", "-acc", "60"]
    r1 = ck.run_harness(binp, args, timeout=1700)
    if r1 is None:
        return
    recs += r1
    # floor (generated runs only, not replays): the scenario with an uncertified parameter change (commits for H-1 and H pooled,
    # maxHeightPrecommitted >= H) must have been exercised: its sealed aggregate commit is compared with the bound H-1
    if not any(r.get("k") == "acc" and not r.get("fail") and r.get("pendingparams") and r.get("paramsh", 0) > 0
               and r.get("precommitted", 0) >= r.get("paramsh", 0)
               and any("aggregateCommitBound" in fl for fl in (r.get("fields") or [])) for r in r1):
        ck.fail_obligation("harness-setup", "the pending-parameter-change acceptance scenario was not exercised")
    evaluate(ck, recs)
    for k in ("sel", "gen", "acc"):
        for r in [x for x in r1 if x["k"] == k][3:4]:
            ck.sample(r)
    ck.cov["rule"] = ("(see docs/C15.md for the second-round scenarios: dropped hand-off, lower tip, pools, aggregate commits, in-process ABI) selection: random pools of 1..4 senders x 0..4 transactions (distinct nonces with gaps, shuffled), fee "
                      "priorities from a small set so that ties are frequent, sizes 70..600 bytes, each transaction scripted to "
                      "succeed / fail verification (error, invalid, pending) / fail execution (error, invalid), size limit from 0 "
                      "to twice the pool size; generator info: the reproduced defect scenario + random event sequences (forge with "
                      "and without a crash between persist and hand-off, tip changes by valid block / tie break / better shorter "
                      "chain / longer chain, chain switches with arbitrary deletes/applies and refused forging, restarts, heights "
                      "near 2^32); acceptance: chains of 0..8 blocks with 1/2/4 validators, 0..2 events, 1..2 consecutive "
                      "forge+process rounds on a real Executer, plus fixed scenarios (pools, size limit, aggregate commit, execution mix, validator change, 8 validators, uncertified parameter change with commits pooled at H-1 and H). Distinct non-trivial: selections with >= 2 pops (by pool, limit, "
                      "script); sequences with >= 2 forged headers (by events); acceptance rounds by (validators, chain length, "
                      "events, round)")
    ck.cov["exhaustive"] = False
    ck.extra["traces_validated_against_impl"] = len(recs)
    ck.assume += [
        "never_self_contradicting has no environment hypothesis; it relies on the generator DB write being durable before "
        "AddInternal (pebble synced batch) and on one forge at a time per generator (single check loop)",
        "selection: one sender's processable transactions have distinct nonces (Go's sort.Slice is not stable)",
        "generated_block_accepted_partial: generation and acceptance see the same generator list, BFT heights, ABI answers; the "
        "aggregate commit, the signature and the contradiction verdict are hypotheses; sampled on the real Executer",
        "uint32 wrap of height+1 is modelled but not sampled (the real BFT parameter lookup fails at such heights)",
    ]
    if ck.tier == "thorough":
        ck.coqchk(["LE.Properties.C15"])


def replay(ck, path):
    doc = json.load(open(path))
    case = doc.get("input")
    if not case:
        print("replay names a broken obligation, no input: %s" % doc.get("what"))
        run(ck)
        return ck.finish(LEVEL)
    binp = ck.go_build("c15")
    if not binp:
        return ck.finish(LEVEL)
    inp = os.path.join(ck.work, "replay_in.jsonl")
    open(inp, "w").write(json.dumps(case) + "\n")
    recs = ck.run_harness(binp, ["-in", inp], out_name="replay.jsonl")
    if recs is not None:
        evaluate(ck, recs)
        print("replayed: %s" % json.dumps(recs)[:3000])
    return ck.finish(LEVEL)
