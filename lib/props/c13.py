"""C13 — block commit and removal are crash-atomic."""
import json
from core import cbool, clist

LEVEL = "proof"
READY = True
MANIFEST = {
    "technique": "Coq proof on a crash model (durable key-value map, operations as action lists, one atomic synced batch) + op-log "
                 "correspondence + exhaustive fault enumeration on pebble's strict in-memory file system, evaluated in Coq",
    "text": "Model: the engine database as a key->value map; processValidated+AddBlock and deleteBlock+RemoveBlock as action lists whose "
            "only durable engine-DB action is one Write of the batch the code builds (header, height index, payload, events, consensus "
            "store commit incl. the BFT tip mark, revert diff, diff pruning, finalized height, temp entry). Theorems: each step issues "
            "exactly one write carrying all of these (none when the block is rejected / the deletion refused); for every history and "
            "every cut at an action boundary the recovered state is Consistent (height index <-> data, contiguous index, BFT store "
            "height = tip, no diff without its block) and equals the state before or after the interrupted step; a Consistent database "
            "restarts on the tip its index names. Tie: (a) op log — the commit records appended to pebble's write-ahead log during every step "
            "of the scenarios are counted (read back with pebble's record reader) and must equal the model's number of writes (at most one), "
            "and the projected database after the step must equal the model batch applied to the database before, where finalized height, "
            "pruned diffs / event lists, payload / temp entries and the restored consensus store are derived independently of the dump; (b) fault enumeration — for EVERY sync boundary inside every step the scenario "
            "is re-run, later syncs are dropped, the process dies (unsynced data lost), the database is reopened, Init/PrepareCache run: "
            "the recovered database must be byte-identical to the dump before or after the step, Consistent, and accept a valid "
            "successor of its tip.",
    "note": "PARTIAL by nature: atomicity+durability of pebble Apply(batch, Sync) is an assumption of the theorem (one AWrite action) "
            "and is what the fault enumeration samples (sync boundaries only: unsynced data is dropped entirely, torn or reordered "
            "sector writes are not simulated). The application's own database (ABI Commit happens before the engine write) is C16's. "
            "Trusted: Coq kernel + vm_compute, harness projection of DB keys, Python glue.",
}
IMPORTS = "From LE Require Import Chain.Crash Chain.CrashFinite Corr.C13."


class Intern:
    def __init__(self):
        self.m = {}

    def code(self, s):
        if s not in self.m:
            self.m[s] = len(self.m) + 1
        return self.m[s]


def key_term(it, e):
    c, a = e["c"], e["a"]
    if c == "header":
        return "KHeader %d" % it.code("id:" + a)
    if c == "idx":
        return "KIdx %d" % int(a)
    if c == "body":
        return "KBody %d" % it.code("id:" + a)
    if c == "events":
        return "KEvents %d" % int(a)
    if c == "temp":
        return "KTemp %d" % int(a)
    if c == "fin":
        return "KFin"
    if c == "tipmark":
        return "KTipMark"
    if c == "diff":
        return "KDiff %d" % int(a)
    return "KState %d" % it.code("k:" + c + a)


def val(it, e):
    c = e["c"]
    if c in ("header", "fin", "tipmark"):
        try:
            return int(e["v"])
        except ValueError:
            return 4000000000 + it.code("bad:" + e["v"])
    if c == "idx":
        return it.code("id:" + e["v"])
    if c == "body":
        return 1
    return it.code("v:" + e["v"])


def ldb(it, ents):
    return "[" + "; ".join("(%s, %d)" % (key_term(it, e), val(it, e)) for e in ents) + "]"


def as_map(ents):
    return {(e["c"], e["a"]): e for e in ents}


def opt(x):
    return "None" if x is None else "(Some %d)" % x


def cop_term(it, r, snap=None):
    """The operation the model applies to `before`.  Derived INDEPENDENTLY of the `after` dump: finalized height (max of the stored
    one and the vote module's post-state maxHeightPrecommited), pruned diffs (every stored diff below the new finalized height when
    it rose), pruned event lists (keepEventsForHeights rule), presence of payload / events / temp entries and the temp value (digest
    of the encoded block), and for deletions the restored consensus store (the store observed before that block was added).
    Taken from the implementation's `after` dump (and therefore not checked here, see docs/C13.md): the CONTENT of the
    consensus-store writes and of the revert diff of an added block (C02/C05/C12 own them), and the content of the event list."""
    b, a = as_map(r["before"]), as_map(r["after"])
    idc = it.code("id:" + r["id"])
    h = r["h"]

    def cs_writes(frm, to):
        out = []
        for k in sorted(set(frm) | set(to)):
            if k[0] != "state":
                continue
            if k in to and (k not in frm or frm[k]["v"] != to[k]["v"]):
                out.append("(%d, Some %d)" % (it.code("k:state" + k[1]), val(it, to[k])))
            elif k not in to:
                out.append("(%d, None)" % it.code("k:state" + k[1]))
        return "[" + "; ".join(out) + "]"
    if r["op"] in ("add", "add_invalid", "restore", "genesis"):
        cs = cs_writes(b, a)                                                   # content from the implementation
        diff = val(it, a[("diff", str(h))]) if ("diff", str(h)) in a else 0     # content from the implementation
        fin0 = int(b[("fin", "0")]["v"]) if ("fin", "0") in b else 0
        fin = max(fin0, r.get("p", 0)) if r["op"] != "genesis" else h
        prune = sorted(int(k[1]) for k in b if k[0] == "diff" and int(k[1]) < fin) if fin > fin0 else []
        evprune = []
        keep = r.get("keep", -1)
        if keep > -1 and r["op"] != "genesis":
            lim = min(fin, max(0, h - keep))
            if lim > 0:
                evprune = sorted(int(k[1]) for k in b if k[0] == "events" and int(k[1]) <= lim)
        ev = None
        if r.get("nevents", 0) > 0:
            ev = val(it, a[("events", str(h))]) if ("events", str(h)) in a else it.code("missing-events")
        return "(CAdd (mkAdd %s %d %d %s %d %s %s %s %d %s %s))" % (
            cbool(r["expect_ok"]), idc, h, cs, diff, clist(prune), cbool(r.get("has_body", False)), opt(ev), fin, clist(evprune),
            cbool(r.get("rt", False)))
    # deletion: the consensus store must go back to what it was before this block was added (when that state was observed)
    target = snap.get(r["id"]) if snap else None
    cs = cs_writes(b, target) if target is not None else cs_writes(b, a)
    tmp = it.code("v:" + r["temp_digest"]) if r["save"] else None
    return "(CDel (mkDel %s %d %d %s %s %s))" % (cbool(r["expect_ok"]), idc, h, cs, cbool(r.get("has_body", False)), opt(tmp))


def payload_ids(it, *dumps):
    ids = sorted(set(e["a"] for d in dumps for e in (d or []) if e["c"] == "header" and e.get("p")))
    return clist([it.code("id:" + x) for x in ids])


def step_term(r, snap=None):
    it = Intern()
    if r["op"] == "cleartemp":
        op = "(CClearTemp %s)" % clist(sorted(int(e["a"]) for e in r["before"] if e["c"] == "temp"))
    else:
        op = cop_term(it, r, snap)
    return "(mkSC %s %s %s %d %s %s)" % (ldb(it, r["before"]), ldb(it, r["after"]), op, r["commits"], cbool(r["impl_ok"]),
                                        payload_ids(it, r["before"], r["after"]))


def crash_term(r):
    it = Intern()
    before, after, rec = ldb(it, r["before"]), ldb(it, r["after"]), ldb(it, r.get("recovered") or [])
    restore = "(Some (%d, %d))" % (r["h"], it.code("id:" + r["id"])) if r.get("rt") else "None"
    return "(mkCC %s %s %s %s %s %s %s %d %d %d %s %s)" % (
        before, after, rec, cbool(r["eq_before"]), cbool(r["eq_after"]),
        cbool(r["reopen_ok"]), cbool(r["next_ok"]), r["j"], r["syncs"], r["first_wal"], restore,
        payload_ids(it, r["before"], r["after"], r.get("recovered")))


def evaluate(ck, recs):
    steps = [r for r in recs if r["k"] == "step"]
    crashes = [r for r in recs if r["k"] == "crash"]
    def ev(recs_, typ, fn, term, tag):
        # big databases (the stall scenario) get a coqc each, the rest is sharded by 20
        heavy = [i for i, r in enumerate(recs_) if len(r["after"]) > 800]
        light = [i for i, r in enumerate(recs_) if len(r["after"]) <= 800]
        rl = ck.coq_eval(IMPORTS, typ, fn, [term(recs_[i]) for i in light], shard=20, tag=tag)
        rh = ck.coq_eval(IMPORTS, typ, fn, [term(recs_[i]) for i in heavy], shard=1, tag=tag + "_big")
        if rl is None or rh is None:
            return None
        out = [0] * len(recs_)
        for i, v in zip(light, rl):
            out[i] = v
        for i, v in zip(heavy, rh):
            out[i] = v
        return out
    # deletion target = the consensus store observed before the NEAREST PRECEDING add of that block in the same scenario
    snaps = {}
    pre_add = {}
    fallbacks = 0
    for r in sorted(steps, key=lambda x: (x["scenario"], x["t"])):
        if r["op"] in ("add", "restore", "genesis") and r.get("impl_ok"):
            pre_add[(r["scenario"], r["id"])] = as_map(r["before"])
        elif r["op"] in ("del", "del_refused", "del_finalized"):
            tgt = pre_add.get((r["scenario"], r["id"]))
            if tgt is None and r["op"] == "del" and r.get("impl_ok"):
                fallbacks += 1
            snaps[id(r)] = {r["id"]: tgt} if tgt is not None else None
    ck.extra["delete_targets_taken_from_after_dump"] = fallbacks
    rs = ev(steps, "step_case", "check_step", lambda r: step_term(r, snaps.get(id(r))), "step")
    rc = ev(crashes, "crash_case", "check_crash", crash_term, "crash")
    for rr, res, kind in ((steps, rs, "step"), (crashes, rc, "crash")):
        if res is None:
            continue
        for r, code in zip(rr, res):
            ck.count()
            ck.nontrivial((kind, r["family"], r["op"], r.get("j"), r["syncs"], r.get("eq_before"), r.get("eq_after"),
                           len(r["after"]) // 8, r.get("fin_jump", 0) >= 2, r.get("payload_bytes", 0) >> 20))
            if any(e["c"] == "unknown" for e in r["after"]):
                ck.fail_case("c13:unknown-key", "database holds a key outside the known prefixes: %s" % r["after"], r)
            if kind == "crash" and r.get("reopen_ok") and r.get("recovered") is not None:
                # the node restarted on the tip whose consensus state matches it: its tip = the BFT tip mark of the recovered database
                tm = [int(e["v"]) for e in r["recovered"] if e["c"] == "tipmark"]
                idx = [int(e["a"]) for e in r["recovered"] if e["c"] == "idx"]
                want = max(idx) if idx else 0
                if r["tip_height"] != want or (tm and tm[0] != want):
                    ck.failures.append(dict(kind="history", key="c13:crash:%s:tip" % r["op"], spec_violated=True, case={
                        k: v for k, v in r.items() if k not in ("before", "after", "recovered")}, observed=r["tip_height"],
                        what="after the crash in step %d (%s) the node restarted on tip %s but the recovered height index ends at %s and "
                             "the consensus store is at %s" % (r["t"], r["op"], r["tip_height"], want, tm),
                        theorem_or_correspondence="restart tip vs recovered database"))
            if code == 0:
                continue
            spec_bad = code >= 2
            if kind == "step":
                key = "c13:step:%s:%s" % (r["op"], "oracle" if spec_bad else "model")
                what = ("scenario %s step %d (%s, class %s, payload %d bytes): %d durable commits, %d file syncs; %s" % (
                    r["family"], r["t"], r["op"], r["class"], r.get("payload_bytes", 0), r["commits"], r["syncs"],
                    "more than one durable write, an inconsistent database after the step, or a rejected step that changed the database"
                    if spec_bad else "database after the step differs from the single batch the model predicts (or sync count differs)"))
            else:
                key = "c13:crash:%s:%s" % (r["op"], "oracle" if spec_bad else "model")
                what = ("scenario " + r["family"] + ": crash inside step %d (%s) after %d of %d syncs: recovered database equals before=%s after=%s, reopen_ok=%s %s, "
                        "next block accepted=%s %s — %s" % (
                            r["t"], r["op"], r["j"], r["syncs"], r["eq_before"], r["eq_after"], r["reopen_ok"], r.get("reopen_err", ""),
                            r["next_ok"], r.get("next_err", ""),
                            "not crash-atomic / inconsistent / block neither on chain nor in the temp table (keys differing from before: %s, "
                            "from after: %s)" % (r.get("diff_before"), r.get("diff_after")) if spec_bad else "differs from the model's prediction for this boundary"))
            small = {k: v for k, v in r.items() if k not in ("before", "after", "recovered")} if len(json.dumps(r)) > 200000 else dict(r)
            ck.failures.append(dict(kind="history", key=key, what=what, case=small, spec_violated=spec_bad,
                                    observed={k: r.get(k) for k in ("syncs", "eq_before", "eq_after", "reopen_ok", "next_ok", "class")},
                                    theorem_or_correspondence="Corr.C13.check_%s vs pkg/db on strict MemFS" % kind))


def translate(ck):
    ok1 = ck.translate("dbatomic", "Gen/DbAtomic.v")
    ok2 = ck.translate("mutators", "Gen/Mutators.v")
    return ok1 and ok2


def run(ck):
    translate(ck)
    from props import c04
    c04.report_closure(ck)
    ck.prove(extra_targets=["Corr/C13.vo"])
    binp = ck.go_build("c13")
    if not binp:
        return
    args = ["-scenarios", "8", "-steps", "12", "-stall", "1100"] if ck.tier == "quick" else ["-scenarios", "48", "-steps", "25", "-stall", "1500"]
    recs = ck.run_harness(binp, args, timeout=1500)
    if recs is None:
        return
    evaluate(ck, recs)
    st = [r for r in recs if r["k"] == "step"]
    cr = [r for r in recs if r["k"] == "crash"]
    if st:
        ck.sample({k: st[0][k] for k in ("family", "op", "commits", "syncs", "impl_ok", "class", "h", "payload_bytes")})
    if cr:
        ck.sample({k: cr[0][k] for k in ("op", "j", "syncs", "eq_before", "eq_after", "reopen_ok", "next_ok")})
    ck.cov["rule"] = ("scenario families on a real Executer over pebble on strict MemFS: random (1-4 validators; valid blocks with/without "
                      "payload, assets, events, slot gaps; invalid blocks; tip deletions with/without temp; refused deletions), big "
                      "(payload limit 8 MiB, blocks of 1.4-4.9 MiB, deleted with saveTemp and restored with removeTemp), restore (delete "
                      "tips with saveTemp, re-apply from the temp table with removeTemp), jump (weights 1 and 3: finality jumps of several "
                      "heights, diff pruning). Step cases: one per step (durable commits = records appended to the write-ahead log). "
                      "Crash cases: one per (step, file-sync boundary), every boundary enumerated. Distinct = (kind, family, op, "
                      "boundary, syncs, outcome, database size class, finality jump >= 2, payload MiB)")
    # exhaustive = for every non-set-up step the crash records cover every boundary j = 0..syncs of (some run of) that step
    cover = {}
    for r in cr:
        if not r.get("torn"):
            cover.setdefault((r["scenario"], r["t"]), []).append((r["j"], r["syncs"]))
    # (the number of syncs of a step can differ between re-runs — background flushes — so: contiguous from 0 up to a run in
    # which every sync of the step had reached the disk)
    complete = all(sorted(set(j for j, _ in v)) == list(range(len(set(j for j, _ in v)))) and any(j >= sy for j, sy in v)
                   for v in cover.values())
    stepped = set((r["scenario"], r["t"]) for r in st)
    ck.cov["exhaustive"] = bool(cover) and complete and stepped <= set(cover)
    ck.extra["torn_tail_crash_points"] = sum(1 for r in cr if r.get("torn"))
    ck.extra["cleartemp_steps"] = sum(1 for r in st if r["op"] == "cleartemp")
    ck.extra["steps_by_kind"] = {k: sum(1 for r in st if r["op"] == k) for k in sorted(set(r["op"] for r in st))}
    ck.extra["exhaustive_domain"] = "all file-sync boundaries inside every step of the generated scenarios"
    ck.extra["crash_points"] = len(cr)
    ck.extra["steps"] = len(st)
    ck.extra["max_syncs_in_a_step"] = max([r["syncs"] for r in st] or [0])
    ck.extra["max_payload_bytes"] = max([r.get("payload_bytes", 0) for r in st] or [0])
    ck.extra["max_finality_jump"] = max([r.get("fin_jump", 0) for r in st] or [0])
    ck.extra["restore_steps"] = sum(1 for r in st if r["op"] == "restore")
    ck.extra["restore_crash_points"] = sum(1 for r in cr if r["op"] == "restore")
    # the generator must keep producing the cases the seeded changes needed
    for name, ok in (("a block whose batch exceeds 1 MiB", ck.extra["max_payload_bytes"] > (1 << 20)),
                     ("a finality jump of at least 2 heights", ck.extra["max_finality_jump"] >= 2),
                     ("a restore from the temp table (removeTemp)", ck.extra["restore_steps"] > 0),
                     ("every step kind of the scripted scenario (present by construction): deletion without temp, deletion with temp, "
                      "ClearTempBlocks with and without entries, restore, deletion refused by an ABI failure, delete request for a "
                      "finalized block, an invalid block, a torn-tail crash point",
                      all([any(r["op"] == "del" and not r["save"] and r["impl_ok"] for r in st),
                           any(r["op"] == "del" and r["save"] and r["impl_ok"] for r in st),
                           any(r["op"] == "cleartemp" and r["commits"] == 1 for r in st),
                           any(r["op"] == "cleartemp" and r["commits"] == 0 for r in st),
                           any(r["op"] == "restore" and r["impl_ok"] for r in st),
                           any(r["op"] == "del_refused" for r in st), any(r["op"] == "del_finalized" for r in st),
                           any(r["op"] == "add_invalid" for r in st), any(r.get("torn") for r in cr)])),
                     ("the genesis step (first start on an empty data directory) with its crash points",
                      any(r["op"] == "genesis" for r in st) and any(r["op"] == "genesis" for r in cr)),
                     ("a block that ends a finality stall and prunes more than 1000 event lists at once",
                      any(sum(1 for e in r["before"] if e["c"] == "events") - sum(1 for e in r["after"] if e["c"] == "events") > 1000
                          for r in st))):
        ck.obligations += 1
        if ok:
            ck.discharged += 1
        else:
            ck.fail_obligation("generator:" + name, "the scenario generator did not produce " + name)
    ck.extra["traces_validated_against_impl"] = len(recs)
    ck.assume += ["pebble Apply(batch, Sync) is atomic and durable (modelled as one action; sampled by the fault enumeration)",
                  "crash = loss of all unsynced file data and directory entries; torn/reordered writes below the sync granularity are "
                  "not simulated",
                  "the stored revert diffs are compared modulo the order of their entries (diffdb.Commit emits them in map order)"]
    if ck.tier == "thorough":
        ck.coqchk(["LE.Properties.C13"])


def replay(ck, path):
    doc = json.load(open(path))
    case = doc.get("input")
    if not case:
        print("replay names a broken obligation, no input: %s" % doc.get("what"))
        run(ck)
        return ck.finish(LEVEL)
    translate(ck)
    ck.prove(extra_targets=["Corr/C13.vo"])
    print("recorded case: %s" % json.dumps({k: case.get(k) for k in ("k", "scenario", "t", "op", "j", "syncs", "eq_before", "eq_after")}))
    ck.seed = doc.get("seed", ck.seed)
    binp = ck.go_build("c13")
    if binp:
        recs = ck.run_harness(binp, ["-scenarios", "8", "-steps", "12", "-stall", "1100"], out_name="replay.jsonl", timeout=1500)
        if recs is not None:
            same = [r for r in recs if r["k"] == case["k"] and r["scenario"] == case["scenario"] and r["t"] == case["t"]
                    and r.get("j") == case.get("j")]
            print("re-executed scenario %s step %s on the current tree (%d records)" % (case["scenario"], case["t"], len(same)))
            evaluate(ck, same)
    return ck.finish(LEVEL)
