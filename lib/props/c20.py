"""C20 — shared chain data race-free and deadlock-free under concurrent use."""
import glob
import json
import os
import re
from core import ROOT
from props.c14 import run_translator, count_generated

LEVEL = "proof"
READY = True
MANIFEST = {
    "technique": "Coq proof (progress of safe lock skeletons under a writer-preferring RWMutex; exactly-once result accumulation) "
                 "instantiated on skeletons regenerated from the Go sources + -race stress harness under watchdogs",
    "text": "Theorem (Conc/Progress.v, all interleavings, any number of goroutines): if every program is balanced on every path, never "
            "re-acquires a lock it holds (read-after-read included), nests locks only in one fixed strict order and never blocks on "
            "a channel/WaitGroup while holding a lock, then every reachable configuration is finished, can step, or has all unfinished "
            "goroutines parked lock-free at a blocking operation; lock waiters are never stuck. A boolean checker is proved sound and "
            "evaluated (vm_compute) on the lock/blocking skeleton of every function of block_cache.go, data_access.go, chain.go, "
            "certificate/pool.go, event.go, diffdb/db.go, block_sync.go, sync.go and of EVERY other file of their packages (and txpool), "
            "re-extracted from /repo on every run by a go/ast translator that inlines all callees of those packages and refuses (exit != 0) "
            "method values, unresolved receivers, unknown identifiers, exitless loops; instances: blockCache, chain readers + consensus writer, certificate Pool, EventEmitter, "
            "diffdb.Database, sync, all listed code at once. Stuck configurations are proved for each unsafe pattern (nested RLock with "
            "a queued writer - reachable from the old blockCache.last -, RLock/Lock under Lock, order inversion, blocking under a lock). "
            "Tip: Gallina model of database + block cache (Conc/TipCache.v): every LastBlock read in any intermediate state of any "
            "AddBlock/RemoveBlock sequence returns the chain tip immediately before or after the writer operation in progress, never "
            "nothing (pop-then-reload refuted); the harness brackets reader calls with the writer's operation number. "
            "Bulk lookups: per-index slots / locked appends return every existing item exactly once for every schedule, racy append "
            "provably loses items; the translator classifies every goroutine fan-out of the listed files (none racy). Complete blocks: a "
            "small model lemma (a read whose Gets all hit one state returns that state's block or not-found - true by unfolding; its "
            "quantifiers over histories add nothing) contrasted with a proved torn-read witness for separate Gets; the actual content for "
            "the code is the generated obligation multi_reads_ok (every multi-part getter reads through one db snapshot) and the "
            "torn scenario of the harness. Tie to the running "
            "code: harness built with -race drives the real Chain/DataAccess on in-memory pebble (N readers + one writer adding/removing "
            "blocks; concurrent GetBlockHeaders / GetBlockHeadersByHeights / GetTransactions / GetBlocksBetweenHeight compared as multisets "
            "with the sequential answer), certificate pool add/select/cleanup/upgrade, event publish/subscribe/close with live "
            "subscribers, diffdb prefix views incl. nested sibling views (state -> module -> store) derived concurrently; torn (cache of 2, long removal runs of blocks with transactions: every block returned by "
            "GetBlockByHeight/GetBlock/GetBlocksBetweenHeight/LastBlock must be byte-identical to a committed block, tip never nil); "
            "evclose/evquit (Close, Unsubscribe, Subscribe racing with Publish, consumers that stop reading before Close or unsubscribe "
            "themselves); syncfan (real sync.Syncer over loopback libp2p with 9 peers: blockSyncer.Sync's per-peer fan-out); each under a "
            "watchdog. A race report, hang, panic, torn block or multiset mismatch is a violation.",
    "note": "Partial by nature: the Go memory model and scheduler are outside Coq; the theorem is about skeletons (lock discipline), "
            "data-race freedom itself is sampled by the race detector on the harness schedules. Assumptions: sync.RWMutex is "
            "writer-preferring; selects with a default or quit arm are steps (Guarded), every other channel operation is a Block; that "
            "the remover of a subscription closes done before it locks the send mutex is pinned on the source (generated obligation "
            "close_signals_before_locking), not derived in the semantics (no signalling primitive); calls into "
            "untranslated packages return; the generated-instance theorems (safe_*, fanouts, multi_reads, single sections, lock never "
            "held while waiting) are checker decisions on translator output for the current source; the progress theorem releases "
            "every Block through the environment (it does not relate errgroup.Wait to its children); "
            "all instances of a lock field are one lock class (the discipline forbids holding two of a class). Trusted: Coq "
            "kernel + vm_compute, translate/skeletons, Go race detector, harness, Python glue.",
}
SCENARIOS = ["cache", "bulk", "torn", "certpool", "events", "evclose", "evquit", "diffdb", "diffnest", "syncfan"]


BLOCKED_HDR = re.compile(r"^goroutine \d+ \[(semacquire|sync\.Mutex\.Lock|sync\.RWMutex\.R?Lock|chan receive|chan send|select|sync\.WaitGroup\.Wait|sync\.Cond\.Wait)")


def blocked_in_code_under_test(dump, name=""):
    """some goroutine waits on a lock/channel and the innermost frame that is neither runtime nor sync belongs to the code under
    test. Every started p2p.Connection permanently parks service goroutines in [select] inside lisk-engine/pkg/p2p (message
    handlers, connection-gater sweep, ...): pkg/p2p frames never count; for syncfan the frame must be in pkg/consensus/sync or
    pkg/blockchain (what the scenario is about)."""
    want = ("lisk-engine/pkg/consensus/sync", "lisk-engine/pkg/blockchain") if name == "syncfan" else ("lisk-engine/pkg/",)
    for g in (dump or "").split("\n\n"):
        lines = g.strip().splitlines()
        if not lines or not BLOCKED_HDR.match(lines[0]):
            continue
        for fr in lines[1:]:
            if fr.startswith("\t") or fr.startswith("created by"):
                continue
            if fr.startswith(("runtime.", "sync.", "internal/")):
                continue
            if "lisk-engine/pkg/p2p" in fr:
                break
            if any(w in fr for w in want):
                return True
            break
    return False


def collect_races(ck, name, tag, params):
    reports = []
    for f in sorted(glob.glob(os.path.join(ck.work, "race_%s.*" % tag))):
        txt = open(f, errors="replace").read()
        if "DATA RACE" in txt:
            reports.append(txt)
        os.remove(f)
    seen_sites = set()
    for txt in [x for rp in reports for x in rp.split("==================") if "DATA RACE" in x]:
        m = re.search(r"lisk-engine/(pkg/\S+?)\(\)", txt)
        site = m.group(1) if m else None
        if site is None:  # a race inside the harness itself says nothing about the property
            ck.fail_obligation("harness-race:" + name, "race report without a frame of the code under test (harness-internal): inconclusive: " + txt[:500])
            continue
        if site in seen_sites:
            continue
        seen_sites.add(site)
        f = dict(kind="schedule", key="c20:%s:race:%s" % (name, site),
                 what="Go race detector reported a data race in scenario %s at %s" % (name, site),
                 case=dict(params, race_report=txt[:6000]), expected="no race report", observed="WARNING: DATA RACE",
                 theorem_or_correspondence="harness/cmd/c20 scenario %s built with -race" % name)
        f["spec_violated"] = True
        ck.failures.append(f)
    ck.extra.setdefault("race_reports", 0)
    ck.extra["race_reports"] += sum(t.count("DATA RACE") for t in reports)


def run_scenario(ck, binp, name, readers, ms, rounds, tag, wd=5000):
    for f in glob.glob(os.path.join(ck.work, "race_%s.*" % tag)):
        os.remove(f)
    env = {"GORACE": "log_path=%s exitcode=0 halt_on_error=0" % os.path.join(ck.work, "race_" + tag)}
    recs = ck.run_harness(binp, ["-scenario", name, "-readers", str(readers), "-ms", str(ms), "-rounds", str(rounds), "-watchdog", str(wd)],
                          timeout=900, out_name=tag + ".jsonl", env_extra=env)
    params = {"scenario": name, "readers": readers, "ms": ms, "rounds": rounds, "seed": ck.seed}
    if recs is None:
        return
    retry = tag.endswith("-retry")
    for r in recs:
        if r.get("sub"):
            continue  # mismatch detail records are attached to the summary failure below
        ops = int(r.get("ops", 0))
        if not retry:  # a retry of the same scenario is not counted a second time
            ck.count(ops)
        if r.get("ok", False) and ops < (1 if name == "syncfan" else 5):  # syncfan counts whole sync rounds
            ck.fail_obligation("harness-volume:" + name, "scenario %s completed only %d operations: inconclusive, not a pass" % (name, ops))
        if ops > 0:
            ck.nontrivial((name, readers, ms, rounds))
        if not retry:
            ck.extra.setdefault("scenarios", []).append({"k": name, "ops": ops, "ok": r.get("ok"), "params": r.get("params")})
        if not r.get("ok", False) and str(r.get("what", "")).startswith("harness:"):
            if not retry:
                ck.notes.append("scenario %s: harness-internal failure (%s), retried" % (name, r.get("what", "")[:120]))
                collect_races(ck, name, tag, params)  # the first attempt's race reports are not lost
                return run_scenario(ck, binp, name, readers, ms, rounds, tag + "-retry")
            ck.fail_obligation("harness-internal:" + name, "scenario %s could not be set up twice (%s): inconclusive, rerun" % (name, r.get("what", "")[:300]))
            continue
        # never a VIOLATION from load alone, never lose a real hang: a hang (or a sync round that timed out) is re-run once
        # with a six times longer watchdog; the ORIGINAL stays a failure unless the re-run passes and the first run's dump
        # shows no goroutine blocked on a lock/channel inside the code under test
        timeoutish = r.get("hang") or (name == "syncfan" and "Sync returned" in str(r.get("what", "")))
        if not r.get("ok", False) and timeoutish and not retry:
            mark = len(ck.failures)
            run_scenario(ck, binp, name, readers, ms, rounds, tag + "-retry", wd=30000)
            retry_ok = len(ck.failures) == mark
            del ck.failures[mark:]
            blocked = blocked_in_code_under_test(r.get("dump", ""), name)
            if retry_ok and not blocked:
                ck.notes.append("scenario %s: no progress within %d ms (%s), no goroutine blocked in the code under test, re-run with 30 s passed: "
                                "treated as load" % (name, wd, str(r.get("what", ""))[:80]))
                ck.extra["hang_unreproduced"] = ck.extra.get("hang_unreproduced", 0) + 1
                continue
        if not r.get("ok", False):
            details = [x for x in recs if x.get("sub")][:3]
            if r.get("hang"):
                key, what = "c20:%s:hang" % name, "scenario %s made no progress within the watchdog (deadlock); goroutine dump in the replay" % name
            elif r.get("panic"):
                key, what = "c20:%s:panic" % name, "scenario %s: panic in code under test: %s" % (name, r["panic"][:300])
            elif details:
                d = details[0]
                key = "c20:%s:mismatch:%s" % (name, d["sub"])
                what = "%s returned %s for request %s, sequential answer %s (lost/duplicated items)" % (d["sub"], d.get("got"), d.get("req"), d.get("want"))
            else:
                w = r.get("what", "")
                m = re.match(r"([a-z][a-z-]+): ", w)
                key, what = "c20:%s:%s" % (name, m.group(1) if m else "check"), "scenario %s failed: %s" % (name, w[:400])
            f = dict(kind="schedule", key=key, what=what, case=dict(params, record=r, details=details),
                     expected="no hang, no panic, multiset equality with the sequential answer", observed=r.get("what", ""),
                     theorem_or_correspondence="harness/cmd/c20 scenario %s (-race) vs Conc/Progress + Conc/SharedAppend" % name)
            f["spec_violated"] = True
            ck.failures.append(f)
    collect_races(ck, name, tag, params)


def run(ck):
    summ = run_translator(ck)
    ngen = count_generated(ck)
    ck.obligations += ngen
    if ck.prove():
        ck.discharged += ngen
    binp = ck.go_build("c20", race=True)
    if not binp:
        return
    # corpus: scenario parameters of earlier failures (incl. the fixed findings), run first
    cdir = os.path.join(ROOT, "corpus", "C20")
    i = 0
    for fn in sorted(os.listdir(cdir)) if os.path.isdir(cdir) else []:
        if fn.endswith(".jsonl"):
            for line in open(os.path.join(cdir, fn)):
                line = line.strip()
                if line:
                    c = json.loads(line)
                    run_scenario(ck, binp, c["scenario"], c.get("readers", 8), c.get("ms", 400), c.get("rounds", 60), "corpus%d" % i)
                    i += 1
    # positive control of the -race path: a deliberately racy scenario built and run the same way MUST be reported
    ck.obligations += 1
    for f in glob.glob(os.path.join(ck.work, "race_canary.*")):
        os.remove(f)
    ck.run_harness(binp, ["-scenario", "canary", "-ms", "50"], timeout=120, out_name="canary.jsonl",
                   env_extra={"GORACE": "log_path=%s exitcode=0 halt_on_error=0" % os.path.join(ck.work, "race_canary")})
    if any("DATA RACE" in open(f, errors="replace").read() for f in glob.glob(os.path.join(ck.work, "race_canary.*"))):
        ck.discharged += 1
    else:
        ck.fail_obligation("race-canary", "the deliberately racy canary scenario produced no race report: the -race path is inoperative, "
                           "every 'no race' verdict of this run is void")
    readers, ms, rounds = (8, 1500, 150) if ck.tier == "quick" else (16, 10000, 500)
    for s in SCENARIOS:
        run_scenario(ck, binp, s, readers, ms, rounds, s)
    ck.cov["rule"] = ("evaluations = operations completed by the stress scenarios under the race detector (cache: N readers on "
                      "LastBlock/GetLastBlock/GetBlockHeader(ByHeight)/GetBlockByHeight + one writer AddBlock/RemoveBlock; bulk: concurrent "
                      "bulk lookups with missing items vs sequential multiset; certpool; events; diffdb views). Non-trivial/distinct: "
                      "scenario runs that completed operations, distinct by (scenario, readers, duration, rounds)")
    ck.extra["traces_validated_against_impl"] = len(ck.extra.get("scenarios", []))
    if summ:
        ck.extra["skeleton_translator"] = {k: summ.get(k) for k in ("functions", "lock_order", "nesting", "guarded_selects", "fanouts", "go_sites", "multi_reads", "atomic_ops", "opaque_calls")}
    ck.assume += ["sync.RWMutex blocks new readers once a writer waits (writer-preferring), sync.Mutex = write mode only",
                  "selects with a default or quit arm are steps, not blocking operations (Guarded): " +
                  ", ".join((summ or {}).get("guarded_selects", [])),
                  "opaque calls made while a lock is held (db reads, codec, callbacks) return",
                  "schedules explored by the race detector are those the Go scheduler produced in this run"]
    if ck.tier == "thorough":
        ck.coqchk(["LE.Properties.C20"])


def replay(ck, path):
    doc = json.load(open(path))
    case = doc.get("input")
    if not case or "scenario" not in case:
        print("replay names a broken obligation, no schedule input: %s" % doc.get("what"))
        run(ck)
        return ck.finish(LEVEL)
    ck.seed = int(case.get("seed", ck.seed))
    binp = ck.go_build("c20", race=True)
    if binp:
        run_scenario(ck, binp, case["scenario"], case.get("readers", 8), case.get("ms", 1500), case.get("rounds", 150), "replay")
        print("replayed scenario %s: %s" % (case["scenario"], json.dumps(ck.extra.get("scenarios", []))[:1500]))
    return ck.finish(LEVEL)
