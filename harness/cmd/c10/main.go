// C10 correspondence driver: runs the real sparse Merkle trie (pkg/trie/smt) on generated histories and query sets and
// writes one JSONL record per case (input + implementation observation).
package main

import (
	"bufio"
	"bytes"
	"encoding/hex"
	"encoding/json"
	"flag"
	"fmt"
	"os"
	"sort"
	"strings"
	"sync"

	"github.com/LiskHQ/lisk-engine/pkg/blockchain"
	"github.com/LiskHQ/lisk-engine/pkg/codec"
	"github.com/LiskHQ/lisk-engine/pkg/crypto"
	ledb "github.com/LiskHQ/lisk-engine/pkg/db"
	"github.com/LiskHQ/lisk-engine/pkg/db/batchdb"
	"github.com/LiskHQ/lisk-engine/pkg/trie/smt"

	"verifharness/internal/hx"
)

type memDB struct {
	mu sync.Mutex
	m  map[string][]byte
}

func newMem() *memDB { return &memDB{m: map[string][]byte{}} }
func (d *memDB) Get(k []byte) ([]byte, bool) {
	d.mu.Lock()
	defer d.mu.Unlock()
	v, ok := d.m[string(k)]
	if !ok {
		return nil, false
	}
	return append([]byte{}, v...), true
}
func (d *memDB) Set(k, v []byte) {
	d.mu.Lock()
	d.m[string(k)] = append([]byte{}, v...)
	d.mu.Unlock()
}
func (d *memDB) Del(k []byte) { d.mu.Lock(); delete(d.m, string(k)); d.mu.Unlock() }

// dump returns the store contents sorted by key: (sub-tree root hash, encoded sub-tree) in hex
func (d *memDB) dump() [][2]string {
	d.mu.Lock()
	defer d.mu.Unlock()
	out := make([][2]string, 0, len(d.m))
	for k, v := range d.m {
		out = append(out, [2]string{hx2([]byte(k)), hx2(v)})
	}
	sort.Slice(out, func(i, j int) bool { return out[i][0] < out[j][0] })
	return out
}

// maxDumpOps: histories with at most this many operations also record the node store after every Update (layered model tie)
var maxDumpOps = 30
var dumpsLeft = 1 << 30

// forceDump: the next history records its store whatever its size (scripted full sub-tree cases)
var forceDump = false

// noteRec documents behaviour OUTSIDE the declared assumptions of the property (same layout on re-opening, 32-byte values);
// never a violation, the orchestration records it in the evidence
type noteRec struct {
	K       string `json:"k"` // "note"
	What    string `json:"what"`
	UpdErr  string `json:"upderr"`
	UpdPan  string `json:"updpanic"`
	PrvErr  string `json:"proveerr"`
	PrvPan  string `json:"provepanic"`
	Verdict int    `json:"verdict"` // 1 true, 0 false, 2 error, -1 not run
}

// layoutNote: a trie built with SetSubtreeHeight(4) and re-opened with NewTrie(root, kl) alone (default height 8)
func layoutNote(r *hx.Rng) noteRec {
	rec := noteRec{K: "note", What: "built with sub-tree height 4, re-opened with NewTrie only (height 8)", Verdict: -1}
	db := newMem()
	t := smt.NewTrie(nil, 32)
	t.SetSubtreeHeight(4)
	ks, vs := [][]byte{}, [][]byte{}
	for i := 0; i < 6; i++ {
		k := r.Bytes(32)
		k[0] = byte(0x10 + i) // same first nibble: a lower 4-bit sub-tree exists
		ks = append(ks, k)
		vs = append(vs, value(r))
	}
	root, err := t.Update(db, ks, vs)
	if err != nil {
		rec.UpdErr = "build: " + err.Error()
		return rec
	}
	t2 := smt.NewTrie(root, 32) // no SetSubtreeHeight
	var uerr error
	nk := r.Bytes(32)
	nk[0] = 0x12 // below the stub that the 8-bit reading takes for a bottom node at depth 4
	rec.UpdPan = try(func() { _, uerr = t2.Update(newMemCopy(db), [][]byte{nk}, [][]byte{value(r)}) })
	if uerr != nil {
		rec.UpdErr = uerr.Error()
	}
	t3 := smt.NewTrie(root, 32)
	var proof *smt.Proof
	var perr error
	rec.PrvPan = try(func() { proof, perr = t3.Prove(db, [][]byte{ks[0]}) })
	if perr != nil {
		rec.PrvErr = perr.Error()
	}
	if proof != nil && rec.PrvPan == "" && perr == nil {
		var ok bool
		var verr error
		if p := try(func() { ok, verr = smt.Verify([][]byte{ks[0]}, proof, root, 32) }); p != "" {
			rec.Verdict = 2
		} else {
			rec.Verdict = verdict(ok, verr)
			if ok && (len(proof.Queries) != 1 || !bytes.Equal(proof.Queries[0].Key, ks[0]) || !bytes.Equal(proof.Queries[0].Value, vs[0])) {
				rec.Verdict = 0 // verifies but does not show the stored value
			}
		}
	}
	return rec
}

// valueLenNote: a value that is not 32 bytes long is accepted by Update; the stored sub-tree cannot be decoded again
func valueLenNote(r *hx.Rng) noteRec {
	rec := noteRec{K: "note", What: "value of 5 bytes stored, trie re-opened and updated", Verdict: -1}
	db := newMem()
	t := smt.NewTrie(nil, 32)
	root, err := t.Update(db, [][]byte{r.Bytes(32), r.Bytes(32)}, [][]byte{r.Bytes(5), value(r)})
	if err != nil {
		rec.UpdErr = "build: " + err.Error()
		return rec
	}
	t2 := smt.NewTrie(root, 32)
	var uerr error
	rec.UpdPan = try(func() { _, uerr = t2.Update(db, [][]byte{r.Bytes(32)}, [][]byte{value(r)}) })
	if uerr != nil {
		rec.UpdErr = uerr.Error()
	}
	return rec
}

func newMemCopy(d *memDB) *memDB {
	c := newMem()
	d.mu.Lock()
	for k, v := range d.m {
		c.m[k] = append([]byte{}, v...)
	}
	d.mu.Unlock()
	return c
}

type wop [2]string // key hex, value hex ("" = delete)

type rootRec struct {
	K       string   `json:"k"`
	KL      int      `json:"kl"`
	Gen     string   `json:"gen"`
	Batches [][]wop  `json:"batches"`
	Reopen  []bool   `json:"reopen"` // trie re-created from its root before this batch
	Roots   []string `json:"roots"`
	Err     string   `json:"err,omitempty"`
	Panic   string   `json:"panic,omitempty"`
	SH      int      `json:"sh,omitempty"` // sub-tree height if not the default
	// Prod: the same history on the PRODUCTION store: batchdb over a pebble DB whose Get never sees the batch of the running
	// Update; the batch is written between Updates; every batch runs on a trie re-created from the root after the write
	ProdRoots []string `json:"prodroots"`
	ProdErr   string   `json:"proderr,omitempty"`
	KL0       bool     `json:"kl0,omitempty"` // the trie is created / re-opened with keyLength 0 (= DefaultKeyLength 32)
	// Stores: the map store's contents after every Update (small histories only): [sub-tree root hash, encoded sub-tree]
	Stores [][][2]string `json:"stores,omitempty"`
}

type wq [3]string // key, value, bitmap
type vobs struct {
	Keys  []string `json:"keys"`
	Sibs  []string `json:"sibs"`
	Qs    []wq     `json:"qs"`
	RSel  int      `json:"rsel"`
	V     int      `json:"v"` // 1 true, 0 false, 2 error
	Must  bool     `json:"must"`
	What  string   `json:"what"`
	Panic string   `json:"panic,omitempty"`
}
type proofRec struct {
	K       string   `json:"k"`
	KL      int      `json:"kl"`
	Gen     string   `json:"gen"`
	Batches [][]wop  `json:"batches"`
	Keys    []string `json:"keys"`
	Sibs    []string `json:"sibs"`
	Qs      []wq     `json:"qs"`
	Obs     []vobs   `json:"obs"`
	Err     string   `json:"err,omitempty"`
	Panic   string   `json:"panic,omitempty"`
	SH      int      `json:"sh,omitempty"` // sub-tree height if not the default
	// proof generated on the production store (batchdb over pebble, batches written between Updates)
	ProdSibs []string `json:"prodsibs"`
	ProdQs   []wq     `json:"prodqs"`
	ProdErr  string   `json:"proderr,omitempty"`
}

// pendingPath holds the input of the case being run: a panic inside a goroutine spawned by the code under test cannot be
// recovered and kills the process; the orchestration then reports this input as the concrete failing case.
var pendingPath string

func pending(v interface{}) {
	if pendingPath == "" {
		return
	}
	b, _ := json.Marshal(v)
	_ = os.WriteFile(pendingPath, b, 0o644)
}

func hx2(b []byte) string { return hex.EncodeToString(b) }
func unhex(s string) []byte {
	b, err := hex.DecodeString(s)
	if err != nil {
		panic(err)
	}
	return b
}

func try(f func()) (p string) {
	defer func() {
		if r := recover(); r != nil {
			p = fmt.Sprint(r)
			if len(p) > 100 {
				p = p[:100]
			}
		}
	}()
	f()
	return ""
}

// ---- key generators
type keygen struct {
	r    *hx.Rng
	kl   int
	mode string
	base []byte
	pool [][]byte
}

func newKeygen(r *hx.Rng, kl int, mode string) *keygen {
	return &keygen{r: r, kl: kl, mode: mode, base: r.Bytes(kl)}
}

func (g *keygen) fresh() []byte {
	k := make([]byte, g.kl)
	switch g.mode {
	case "random":
		copy(k, g.r.Bytes(g.kl))
	case "clustered": // long shared prefix: differ only from a late bit on
		copy(k, g.base)
		from := g.kl*8 - 1 - g.r.Intn(12)
		if from < 0 {
			from = 0
		}
		for b := from; b < g.kl*8; b++ {
			if g.r.Bool() {
				k[b/8] ^= 0x80 >> uint(b%8)
			}
		}
	case "prefix": // share the first 1..3 bytes with the base (lower sub-trees), random afterwards; the byte after the prefix takes few values
		copy(k, g.r.Bytes(g.kl))
		p := 1 + g.r.Intn(3)
		if p >= g.kl {
			p = g.kl - 1
		}
		copy(k[:p], g.base[:p])
		if p < g.kl && g.r.Intn(2) == 0 {
			k[p] = []byte{0x00, 0x40, 0x80, 0xc0, 0xff, 0x01}[g.r.Intn(6)]
		}
	case "crossing": // share the prefix up to a random bit, then diverge: leaves at every depth, several 8-bit sub-trees deep
		copy(k, g.base)
		p := g.r.Intn(g.kl * 8)
		k[p/8] ^= 0x80 >> uint(p%8)
		for b := p + 1; b < g.kl*8; b++ {
			if g.r.Bool() {
				k[b/8] ^= 0x80 >> uint(b%8)
			}
		}
	}
	return k
}

func (g *keygen) key(present map[string][]byte) []byte {
	// mostly fresh keys, sometimes an existing one
	if len(g.pool) > 0 && g.r.Intn(3) == 0 {
		return g.pool[g.r.Intn(len(g.pool))]
	}
	k := g.fresh()
	g.pool = append(g.pool, k)
	return k
}

func value(r *hx.Rng) []byte { return crypto.Hash(r.Bytes(4)) }

func genHistory(r *hx.Rng, g *keygen, nb, maxOps int) [][]wop {
	bs := make([][]wop, nb)
	cur := map[string]string{} // the map so far (first occurrence inside a batch wins)
	keysOf := func() []string {
		ks := make([]string, 0, len(cur))
		for k := range cur {
			ks = append(ks, k)
		}
		sort.Strings(ks)
		return ks
	}
	noop := func() (wop, bool) {
		ks := keysOf()
		if len(ks) == 0 {
			return wop{}, false
		}
		k := ks[r.Intn(len(ks))]
		if r.Bool() {
			return wop{k, cur[k]}, true // rewrite the stored value
		}
		// delete an absent key sharing a long prefix (at least the first byte when the key is longer) with a stored one
		lo := 8 * boolInt(g.kl > 1) // keep the first byte: the key lands in the same lower sub-tree
		pos := lo + r.Intn(g.kl*8-lo)
		if r.Bool() { // long shared prefix
			w := g.kl*8 - lo
			if w > 12 {
				w = 12
			}
			pos = g.kl*8 - 1 - r.Intn(w)
		}
		a := flipBit(unhex(k), pos)
		if _, present := cur[hx2(a)]; present {
			return wop{k, cur[k]}, true
		}
		return wop{hx2(a), ""}, true
	}
	for i := range bs {
		n := r.Intn(maxOps + 1)
		b := []wop{}
		if i > 0 && r.Intn(4) == 0 {
			// a batch made only of operations that leave the map (and every sub-tree) unchanged
			for j := 0; j < 1+r.Intn(2); j++ {
				if o, ok := noop(); ok {
					b = append(b, o)
				}
			}
			n = 0
		}
		for j := 0; j < n; j++ {
			k := g.key(nil)
			v := value(r)
			switch r.Intn(8) {
			case 0: // delete
				v = []byte{}
			case 1: // duplicate inside the batch with another value
				if len(b) > 0 {
					k = unhex(b[r.Intn(len(b))][0])
				}
			case 2: // no-op operation mixed into the batch
				if o, ok := noop(); ok {
					b = append(b, o)
					continue
				}
			}
			b = append(b, wop{hx2(k), hx2(v)})
		}
		seen := map[string]bool{}
		for _, o := range b {
			if seen[o[0]] {
				continue
			}
			seen[o[0]] = true
			if o[1] == "" {
				delete(cur, o[0])
			} else {
				cur[o[0]] = o[1]
			}
		}
		bs[i] = b
	}
	return bs
}

func boolInt(b bool) int {
	if b {
		return 1
	}
	return 0
}

func split(b []wop) (ks, vs [][]byte) {
	for _, o := range b {
		ks = append(ks, unhex(o[0]))
		vs = append(vs, unhex(o[1]))
	}
	return
}

type trieT interface {
	Update(db smt.DBReadWriter, keys [][]byte, values [][]byte) ([]byte, error)
	Prove(db smt.DBReader, queryKeys [][]byte) (*smt.Proof, error)
}

func runRoot(kl int, gen string, batches [][]wop, reopen []bool, sh int) rootRec {
	return runRootKL(kl, kl, gen, batches, reopen, sh)
}

// runRootKL: klArg is the keyLength passed to NewTrie (0 = default), kl the real key length
func runRootKL(kl, klArg int, gen string, batches [][]wop, reopen []bool, sh int) rootRec {
	rec := rootRec{K: "root", KL: kl, Gen: gen, Batches: batches, Reopen: reopen, Roots: []string{}, SH: sh, KL0: klArg == 0}
	pending(rec)
	db := newMem()
	t := smt.NewTrie(nil, klArg)
	if sh != 0 {
		t.SetSubtreeHeight(uint8(sh))
	}
	nops := 0
	for _, b := range batches {
		nops += len(b)
	}
	doDump := (nops <= maxDumpOps && len(batches) > 0 && dumpsLeft > 0) || forceDump
	if doDump && !forceDump {
		dumpsLeft--
	}
	forceDump = false
	var root []byte
	for i, b := range batches {
		if reopen[i] {
			t = smt.NewTrie(root, klArg)
			if sh != 0 {
				t.SetSubtreeHeight(uint8(sh))
			}
		}
		ks, vs := split(b)
		var err error
		if p := try(func() { root, err = t.Update(db, ks, vs) }); p != "" {
			rec.Panic = p
			return rec
		}
		if err != nil {
			rec.Err = err.Error()
			return rec
		}
		rec.Roots = append(rec.Roots, hx2(root))
		if doDump {
			rec.Stores = append(rec.Stores, db.dump())
		}
	}
	rec.ProdRoots, _, rec.ProdErr = prodRun(kl, klArg, sh, batches, reopen, nil)
	if rec.ProdRoots == nil {
		rec.ProdRoots = []string{}
	}
	return rec
}

var smtPrefix = []byte{0x03}

// prodRun replays the batches with production store semantics (pkg/framework/handler.go: tree.Update on
// batchdb.NewWithPrefix(stateDB, batch, prefix), then stateDB.Write(batch)); returns the root after every batch and, if keys
// are given, the proof generated on a trie re-opened from the last root.
func prodRun(kl, klArg, sh int, batches [][]wop, reopen []bool, keys [][]byte) (roots []string, proof *smt.Proof, errs string) {
	database, err := ledb.NewInMemoryDB()
	if err != nil {
		return nil, nil, "open: " + err.Error()
	}
	defer database.Close()
	mk := func(root []byte) trieT {
		t := smt.NewTrie(root, klArg)
		if sh != 0 {
			t.SetSubtreeHeight(uint8(sh))
		}
		return t
	}
	var root []byte
	t := mk(nil)
	for i, b := range batches {
		if reopen == nil || reopen[i] || i%2 == 1 {
			t = mk(root)
		}
		ks, vs := split(b)
		batch := database.NewBatch()
		sdb := batchdb.NewWithPrefix(database, batch, smtPrefix)
		var uerr error
		if p := try(func() { root, uerr = t.Update(sdb, ks, vs) }); p != "" {
			return roots, nil, "panic: " + p
		}
		if uerr != nil {
			return roots, nil, "update: " + uerr.Error()
		}
		database.Write(batch)
		roots = append(roots, hx2(root))
	}
	if keys == nil {
		return roots, nil, ""
	}
	if root == nil {
		root = crypto.Hash([]byte{})
	}
	rdb := batchdb.NewWithPrefix(database, database.NewBatch(), smtPrefix)
	var perr error
	if p := try(func() { proof, perr = mk(root).Prove(rdb, keys) }); p != "" {
		return roots, nil, "panic: Prove: " + p
	}
	if perr != nil {
		return roots, nil, "prove: " + perr.Error()
	}
	return roots, proof, ""
}

// finalMap applies the batches (first occurrence wins inside a batch) and returns the resulting map as one batch in
// a shuffled order.
func finalMap(r *hx.Rng, batches [][]wop) []wop {
	m := map[string]string{}
	order := []string{}
	for _, b := range batches {
		seen := map[string]bool{}
		for _, o := range b {
			if seen[o[0]] {
				continue
			}
			seen[o[0]] = true
			if o[1] == "" {
				delete(m, o[0])
			} else {
				if _, ok := m[o[0]]; !ok {
					order = append(order, o[0])
				}
				m[o[0]] = o[1]
			}
		}
	}
	out := []wop{}
	done := map[string]bool{}
	for _, k := range order {
		if v, ok := m[k]; ok && !done[k] {
			out = append(out, wop{k, v})
			done[k] = true
		}
	}
	for i := len(out) - 1; i > 0; i-- {
		j := r.Intn(i + 1)
		out[i], out[j] = out[j], out[i]
	}
	return out
}

func verdict(ok bool, err error) int {
	if err != nil {
		return 2
	}
	if ok {
		return 1
	}
	return 0
}

func toQs(p *smt.Proof) []wq {
	qs := make([]wq, len(p.Queries))
	for i, q := range p.Queries {
		qs[i] = wq{hx2(q.Key), hx2(q.Value), hx2(q.Bitmap)}
	}
	return qs
}
func toSibs(p *smt.Proof) []string {
	s := make([]string, len(p.SiblingHashes))
	for i, h := range p.SiblingHashes {
		s[i] = hx2(h)
	}
	return s
}
func hexs(bs [][]byte) []string {
	s := make([]string, len(bs))
	for i, b := range bs {
		s[i] = hx2(b)
	}
	return s
}

func observe(keys [][]byte, sibs []string, qs []wq, root []byte, rsel int, kl int, must bool, what string) vobs {
	p := &smt.Proof{SiblingHashes: make([]codec.Hex, len(sibs)), Queries: make([]*smt.QueryProof, len(qs))}
	for i, s := range sibs {
		p.SiblingHashes[i] = unhex(s)
	}
	for i, q := range qs {
		p.Queries[i] = &smt.QueryProof{Key: unhex(q[0]), Value: unhex(q[1]), Bitmap: unhex(q[2])}
	}
	rt := root
	if rsel == 1 {
		rt = crypto.Hash([]byte{7, 7})
	}
	o := vobs{Keys: hexs(keys), Sibs: sibs, Qs: qs, RSel: rsel, Must: must, What: what}
	var ok bool
	var err error
	if pn := try(func() { ok, err = smt.Verify(keys, p, rt, kl) }); pn != "" {
		o.Panic = pn
		o.V = 2
		return o
	}
	o.V = verdict(ok, err)
	return o
}

var maxObs = 40

func flipBit(b []byte, i int) []byte {
	c := append([]byte{}, b...)
	if len(c) == 0 {
		return c
	}
	i %= len(c) * 8
	c[i/8] ^= 0x80 >> uint(i%8)
	return c
}

func runProof(r *hx.Rng, kl int, gen string, batches [][]wop, keys [][]byte, tamper bool) proofRec {
	return runProofSH(r, kl, gen, batches, keys, tamper, 0)
}

// runProofSH: sh = sub-tree height of the storage layout (0 = default 8); roots and proofs must not depend on it
func runProofSH(r *hx.Rng, kl int, gen string, batches [][]wop, keys [][]byte, tamper bool, sh int) proofRec {
	rec := proofRec{K: "proof", KL: kl, Gen: gen, Batches: batches, Keys: hexs(keys), Sibs: []string{}, Qs: []wq{}, Obs: []vobs{}, SH: sh}
	pending(rec)
	db := newMem()
	t := smt.NewTrie(nil, kl)
	if sh != 0 {
		t.SetSubtreeHeight(uint8(sh))
	}
	var root []byte
	roots := [][]byte{} // roots[j] = root after the first j+1 batches
	for _, b := range batches {
		ks, vs := split(b)
		var err error
		if root, err = t.Update(db, ks, vs); err != nil {
			rec.Err = "update: " + err.Error()
			return rec
		}
		roots = append(roots, root)
	}
	if root == nil {
		root = crypto.Hash([]byte{})
	}
	// prove on a trie re-opened from the root
	t = smt.NewTrie(root, kl)
	if sh != 0 {
		t.SetSubtreeHeight(uint8(sh))
	}
	var proof *smt.Proof
	var err error
	if p := try(func() { proof, err = t.Prove(db, keys) }); p != "" {
		rec.Panic = "Prove: " + p
		return rec
	}
	if err != nil {
		rec.Err = "prove: " + err.Error()
		return rec
	}
	rec.Sibs, rec.Qs = toSibs(proof), toQs(proof)
	rec.ProdSibs, rec.ProdQs = []string{}, []wq{}
	if _, pp, perrs := prodRun(kl, kl, sh, batches, nil, keys); perrs != "" {
		rec.ProdErr = perrs
	} else if pp != nil {
		rec.ProdSibs, rec.ProdQs = toSibs(pp), toQs(pp)
	}
	rec.Obs = append(rec.Obs, observe(keys, rec.Sibs, rec.Qs, root, 0, kl, len(keys) > 0, "honest"))
	if !tamper || len(keys) == 0 {
		return rec
	}
	add := func(ks [][]byte, sibs []string, qs []wq, rsel int, what string) {
		if len(rec.Obs) < maxObs {
			rec.Obs = append(rec.Obs, observe(ks, sibs, qs, root, rsel, kl, false, what))
		}
	}
	cpQ := func() []wq { return append([]wq{}, rec.Qs...) }
	cpS := func() []string { return append([]string{}, rec.Sibs...) }
	add(keys, rec.Sibs, rec.Qs, 1, "root")
	// versions: the proof of the final trie against an OLDER root (rsel = 2 + number of batches applied), and a proof
	// generated from an older root against the FINAL root; accepted only if the claims are true for that version's map
	for _, j := range []int{len(roots) - 1, len(roots) / 2} {
		if j < 1 || j >= len(roots) || bytes.Equal(roots[j-1], root) {
			continue
		}
		if len(rec.Obs) < maxObs {
			rec.Obs = append(rec.Obs, observe(keys, rec.Sibs, rec.Qs, roots[j-1], 2+j, kl, false, "stale-root"))
		}
		old := smt.NewTrie(roots[j-1], kl)
		if sh != 0 {
			old.SetSubtreeHeight(uint8(sh))
		}
		var op *smt.Proof
		var oerr error
		if p := try(func() { op, oerr = old.Prove(db, keys) }); p == "" && oerr == nil && op != nil {
			add(keys, toSibs(op), toQs(op), 0, "old-version-proof")
			if len(rec.Obs) < maxObs {
				// and the old proof against its own root must verify (the store keeps old versions readable)
				rec.Obs = append(rec.Obs, observe(keys, toSibs(op), toQs(op), roots[j-1], 2+j, kl, false, "old-version-proof-old-root"))
			}
		}
	}
	for i := range rec.Qs {
		q := cpQ()
		v := unhex(q[i][1])
		if len(v) == 0 {
			q[i][1] = hx2(value(r))
		} else {
			q[i][1] = hx2(flipBit(v, r.Intn(256)))
		}
		add(keys, rec.Sibs, q, 0, "value")
		if len(v) != 0 {
			q = cpQ()
			q[i][1] = ""
			add(keys, rec.Sibs, q, 0, "value-empty")
		}
		q = cpQ()
		q[i][0] = hx2(flipBit(unhex(q[i][0]), r.Intn(kl*8)))
		add(keys, rec.Sibs, q, 0, "qkey-bit")
		q = cpQ()
		q[i][0] = hx2(flipBit(unhex(q[i][0]), kl*8-1))
		add(keys, rec.Sibs, q, 0, "qkey-lastbit")
		bm := unhex(q[i][2])
		q = cpQ()
		if len(bm) == 0 {
			q[i][2] = "01"
		} else {
			q[i][2] = hx2(flipBit(bm, len(bm)*8-1-r.Intn(len(bm)*8)))
		}
		add(keys, rec.Sibs, q, 0, "bitmap-bit")
		q = cpQ()
		q[i][2] = hx2(append([]byte{1}, bm...))
		add(keys, rec.Sibs, q, 0, "bitmap-longer")
		// one byte moved between key and value: the leaf hash H(0 || key || value) is unchanged
		if len(v) > 0 {
			q = cpQ()
			q[i][0] = hx2(append(unhex(q[i][0]), v[0]))
			q[i][1] = hx2(v[1:])
			add(keys, rec.Sibs, q, 0, "key<-value-byte")
		}
		if kb := unhex(rec.Qs[i][0]); len(kb) > 0 {
			q = cpQ()
			q[i][0] = hx2(kb[:len(kb)-1])
			q[i][1] = hx2(append([]byte{kb[len(kb)-1]}, v...))
			add(keys, rec.Sibs, q, 0, "key->value-byte")
		}
		// both the requested key and the answer moved to another key (claim about another key)
		k2 := append([][]byte{}, keys...)
		k2[i] = flipBit(keys[i], r.Intn(kl*8))
		add(k2, rec.Sibs, rec.Qs, 0, "reqkey")
		q = cpQ()
		q[i][0] = hx2(k2[i])
		add(k2, rec.Sibs, q, 0, "reqkey+qkey")
	}
	for i := range rec.Sibs {
		s := cpS()
		s[i] = hx2(flipBit(unhex(s[i]), r.Intn(256)))
		add(keys, s, rec.Qs, 0, "sibling")
		s = append(cpS()[:i], cpS()[i+1:]...)
		add(keys, s, rec.Qs, 0, "sibling-removed")
	}
	add(keys, append(cpS(), hx2(value(r))), rec.Qs, 0, "sibling-added")
	if len(rec.Qs) > 1 {
		add(keys[:len(keys)-1], rec.Sibs, rec.Qs[:len(rec.Qs)-1], 0, "query-dropped")
	}
	// forged second query F at the node of query 0 (T), and one level below it, with F > T and F < T
	{
		q0 := rec.Qs[0]
		bm := unhex(q0[2])
		h := bitmapHeight(bm)
		junk := hx2(value(r))
		for _, greater := range []bool{true, false} {
			f := neighbourKey(unhex(q0[0]), h, greater)
			if f == nil {
				continue
			}
			tag := "F<T"
			if greater {
				tag = "F>T"
			}
			ks := append(append([][]byte{}, keys...), f)
			add(ks, rec.Sibs, append(cpQ(), wq{hx2(f), hx2(value(r)), q0[2]}), 0, "forged-extra-query "+tag)
			// same, F listed first
			add(append([][]byte{f}, keys...), rec.Sibs, append([]wq{{hx2(f), hx2(value(r)), q0[2]}}, cpQ()...), 0, "forged-extra-query-first "+tag)
			deeper := wq{hx2(f), hx2(value(r)), hx2(longerBitmap(bm))}
			sibs := []string{junk}
			for _, s := range rec.Sibs {
				sibs = append(sibs, s, junk)
			}
			add(ks, sibs, append(cpQ(), deeper), 0, "forged-deeper-query "+tag)
			add(ks, append([]string{junk}, rec.Sibs...), append(cpQ(), deeper), 0, "forged-deeper-query-1sib "+tag)
		}
	}
	return rec
}

// bitmapHeight: number of bits of the bitmap after its leading zeros
func bitmapHeight(bm []byte) int {
	n := 0
	seen := false
	for _, b := range bm {
		for j := 0; j < 8; j++ {
			if b&(0x80>>uint(j)) != 0 {
				seen = true
			}
			if seen {
				n++
			}
		}
	}
	return n
}

// neighbourKey: a key sharing the first h bits with k that is greater (smaller) than k: the last bit after position h
// that is 0 (1) is flipped; nil if there is none
func neighbourKey(k []byte, h int, greater bool) []byte {
	for b := len(k)*8 - 1; b >= h; b-- {
		set := k[b/8]&(0x80>>uint(b%8)) != 0
		if set != greater {
			return flipBit(k, b)
		}
	}
	return nil
}

// longerBitmap: one more level below: bits = 1 ++ bits(bm)
func longerBitmap(bm []byte) []byte {
	bits := []bool{}
	seen := false
	for _, b := range bm {
		for j := 0; j < 8; j++ {
			v := b&(0x80>>uint(j)) != 0
			if v {
				seen = true
			}
			if seen {
				bits = append(bits, v)
			}
		}
	}
	bits = append([]bool{true}, bits...)
	n := (len(bits) + 7) / 8
	out := make([]byte, n)
	off := n*8 - len(bits)
	for i, v := range bits {
		if v {
			out[(off+i)/8] |= 0x80 >> uint((off+i)%8)
		}
	}
	return out
}

func pickQueries(r *hx.Rng, g *keygen, batches [][]wop, n int) [][]byte {
	present := [][]byte{}
	for _, o := range finalMap(r, batches) {
		present = append(present, unhex(o[0]))
	}
	qs := [][]byte{}
	for i := 0; i < n; i++ {
		switch c := r.Intn(6); {
		case c <= 2 && len(present) > 0:
			qs = append(qs, present[r.Intn(len(present))])
		case c == 3 && len(present) > 0: // absent neighbour of a present key
			qs = append(qs, flipBit(present[r.Intn(len(present))], g.kl*8-1-r.Intn(10)))
		case c == 4:
			qs = append(qs, g.fresh())
		default:
			qs = append(qs, r.Bytes(g.kl))
		}
	}
	return qs
}

func eventCase(r *hx.Rng) rootRec {
	n := r.Intn(6)
	events := make([]*blockchain.Event, n)
	batch := []wop{}
	for i := range events {
		topics := make([]codec.Hex, 1+r.Intn(4))
		for j := range topics {
			topics[j] = r.Bytes(1 + r.Intn(3))
		}
		events[i] = blockchain.NewEventFromValues("mod", "ev", r.Bytes(r.Intn(5)), topics, uint32(r.Intn(100)), uint32(i))
		for _, kv := range events[i].KeyPairs() {
			batch = append(batch, wop{hx2(kv.Key), hx2(kv.Value)})
		}
	}
	rec := rootRec{K: "root", KL: 12, Gen: "events", Batches: [][]wop{batch}, Reopen: []bool{false}, Roots: []string{}}
	var root []byte
	var err error
	if p := try(func() { root, err = blockchain.CalculateEventRoot(events) }); p != "" {
		rec.Panic = p
		return rec
	}
	if err != nil {
		rec.Err = err.Error()
		return rec
	}
	rec.Roots = []string{hx2(root)}
	return rec
}

func replay(o *hx.Out, path string, r *hx.Rng) {
	f, err := os.Open(path)
	if err != nil {
		panic(err)
	}
	defer f.Close()
	sc := bufio.NewScanner(f)
	sc.Buffer(make([]byte, 1<<20), 1<<28)
	for sc.Scan() {
		line := strings.TrimSpace(sc.Text())
		if line == "" {
			continue
		}
		var g struct {
			K       string   `json:"k"`
			KL      int      `json:"kl"`
			Gen     string   `json:"gen"`
			Batches [][]wop  `json:"batches"`
			Reopen  []bool   `json:"reopen"`
			Keys    []string `json:"keys"`
			SH      int      `json:"sh"`
			KL0     bool     `json:"kl0"`
		}
		if err := json.Unmarshal([]byte(line), &g); err != nil {
			panic(err)
		}
		switch g.K {
		case "root":
			if len(g.Reopen) != len(g.Batches) {
				g.Reopen = make([]bool, len(g.Batches))
			}
			klArg := g.KL
			if g.KL0 {
				klArg = 0
			}
			o.Put(runRootKL(g.KL, klArg, g.Gen, g.Batches, g.Reopen, g.SH))
		case "proof":
			ks := make([][]byte, len(g.Keys))
			for i, k := range g.Keys {
				ks[i] = unhex(k)
			}
			o.Put(runProofSH(r, g.KL, g.Gen, g.Batches, ks, true, g.SH))
		}
	}
}

func main() {
	out := flag.String("out", "cases.jsonl", "output")
	in := flag.String("in", "", "replay: JSONL of case inputs to re-run")
	nroot := flag.Int("nroot", 120, "histories")
	nproof := flag.Int("nproof", 120, "proof cases")
	nev := flag.Int("nev", 20, "event root cases")
	nfull := flag.Int("nfull", 2, "full sub-tree cases (256 keys differing in one byte)")
	fullkl := flag.Int("fullkl", 0, "key length of the full sub-tree cases (0 = alternate 32 and 4)")
	flag.IntVar(&maxObs, "maxobs", 40, "max verification observations per proof case")
	flag.IntVar(&maxDumpOps, "dumpops", 30, "record the node store after every Update for histories with at most this many operations")
	ndump := flag.Int("ndump", 40, "number of generated histories with node-store dumps (replayed inputs always dump)")
	flag.Parse()
	r := hx.NewRng(hx.SeedFromEnv())
	o := hx.NewOut(*out)
	defer o.Close()
	pendingPath = *out + ".pending"
	defer os.Remove(pendingPath)
	if *in != "" {
		replay(o, *in, r)
		return
	}
	dumpsLeft = *ndump
	modes := []string{"random", "clustered", "crossing", "prefix", "prefix"}
	kls := []int{32, 32, 32, 1, 2, 4}
	// empty trie, empty batch
	o.Put(runRoot(32, "empty", [][]wop{{}}, []bool{false}, 0))
	for i := 0; i < *nroot; i++ {
		kl := kls[r.Intn(len(kls))]
		mode := modes[r.Intn(len(modes))]
		g := newKeygen(r, kl, mode)
		nb := 1 + r.Intn(8)
		bs := genHistory(r, g, nb, 1+r.Intn(10))
		reopen := make([]bool, nb)
		for j := range reopen {
			reopen[j] = j > 0 && r.Intn(3) == 0
		}
		sh := 0
		if i%3 == 1 { // a third of the histories on the 4-bit sub-tree layout: same roots, same re-opening behaviour
			sh = 4
		}
		o.Put(runRoot(kl, mode, bs, reopen, sh))
		// the same final map inserted in one shuffled batch into a fresh trie (other layout than above)
		o.Put(runRoot(kl, mode+"-final", [][]wop{finalMap(r, bs)}, []bool{false}, 4-sh))
	}
	for i := 0; i < *nproof; i++ {
		kl := kls[r.Intn(len(kls))]
		mode := modes[r.Intn(len(modes))]
		g := newKeygen(r, kl, mode)
		bs := genHistory(r, g, 1+r.Intn(4), 1+r.Intn(10))
		nq := 1 + r.Intn(5)
		if r.Intn(3) == 0 {
			nq = 1
		}
		psh := 0
		if i%3 == 1 {
			psh = 4
		}
		o.Put(runProofSH(r, kl, mode, bs, pickQueries(r, g, bs, nq), true, psh))
	}
	// full 8-bit sub-tree: 256 keys differing in one byte under a shared prefix, then re-open, update/delete, no-op, prove
	for i := 0; i < *nfull; i++ {
		kl := []int{32, 4}[i%2]
		if *fullkl != 0 {
			kl = *fullkl
		}
		base := r.Bytes(kl)
		p := r.Intn(kl)
		b1 := []wop{}
		for x := 0; x < 256; x++ {
			k := append([]byte{}, base...)
			k[p] = byte(x)
			b1 = append(b1, wop{hx2(k), hx2(value(r))})
		}
		pick := func() string { return b1[r.Intn(256)][0] }
		b2 := []wop{{pick(), hx2(value(r))}, {pick(), ""}, {hx2(flipBit(unhex(pick()), kl*8-1-r.Intn(3))), hx2(value(r))}}
		b3 := []wop{{b1[7][0], b1[7][1]}}
		o.Put(runRoot(kl, "full-subtree", [][]wop{b1, b2, b3, {{pick(), ""}}}, []bool{false, true, false, true}, 4*(i%2)))
		qk := [][]byte{unhex(pick()), unhex(pick()), flipBit(unhex(pick()), kl*8-1)}
		o.Put(runProofSH(r, kl, "full-subtree", [][]wop{b1, b2}, qk, true, 4*((i+1)%2)))
	}
	// FULL sub-trees with store dumps (length byte 255 of the sub-tree encoding): 1-byte keys = the root sub-tree holds 256
	// leaves; 2-byte keys under one first byte = a full lower sub-tree behind a stub; then delete / overwrite / new branch
	for _, kl := range []int{1, 2} {
		b1 := []wop{}
		for x := 0; x < 256; x++ {
			k := make([]byte, kl)
			if kl == 2 {
				k[0] = 0xab
			}
			k[kl-1] = byte(x)
			b1 = append(b1, wop{hx2(k), hx2(value(r))})
		}
		other := make([]byte, kl)
		other[0] = 0x17
		b2 := []wop{{b1[200][0], ""}, {b1[3][0], hx2(value(r))}}
		if kl == 2 {
			b2 = append(b2, wop{hx2(other), hx2(value(r))})
		}
		forceDump = true
		o.Put(runRoot(kl, "full-dump", [][]wop{b1, b2}, []bool{false, true}, 0))
	}
	o.Put(layoutNote(r))
	o.Put(valueLenNote(r))
	// keyLength 0 = DefaultKeyLength: histories with 32-byte keys on tries created and re-opened with NewTrie(x, 0)
	for i := 0; i < 3; i++ {
		g := newKeygen(r, 32, modes[r.Intn(len(modes))])
		nb := 2 + r.Intn(4)
		bs := genHistory(r, g, nb, 1+r.Intn(6))
		reopen := make([]bool, nb)
		for j := range reopen {
			reopen[j] = j > 0 && r.Intn(2) == 0
		}
		o.Put(runRootKL(32, 0, "keylength0", bs, reopen, 0))
	}
	// proofs against the empty trie and with no query
	o.Put(runProof(r, 32, "empty", [][]wop{}, [][]byte{r.Bytes(32)}, true))
	o.Put(runProof(r, 32, "noquery", [][]wop{{wop{hx2(r.Bytes(32)), hx2(value(r))}}}, [][]byte{}, false))
	for i := 0; i < *nev; i++ {
		o.Put(eventCase(r))
	}
}
