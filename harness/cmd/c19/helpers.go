package main

import (
	"encoding/json"
	"fmt"
	"strings"

	csync "github.com/LiskHQ/lisk-engine/pkg/consensus/sync"

	"verifharness/internal/hx"
)

// ---------------------------------------------------------------------------------------- height helpers

type gapRec struct {
	K     string   `json:"k"`
	Fn    string   `json:"fn"`   // "gap" | "start" | "last"
	Args  []uint32 `json:"args"` // gap: start,minimum,gap,num ; start: height,roundLength ; last: start,num
	Out   []uint32 `json:"out"`
	Panic string   `json:"panic,omitempty"`
}

func runGap(fn string, args []uint32) (rec gapRec) {
	rec = gapRec{K: "gap", Fn: fn, Args: args, Out: []uint32{}}
	defer func() {
		if r := recover(); r != nil {
			rec.Panic = fn + ": " + strings.SplitN(fmt.Sprint(r), "\n", 2)[0]
		}
	}()
	switch fn {
	case "gap":
		rec.Out = csync.VerifC19GetHeightWithGap(args[0], args[1], int(args[2]), int(args[3]))
	case "start":
		rec.Out = []uint32{csync.VerifC19GetCommonBlockStartSearchHeight(args[0], int(args[1]))}
	case "last":
		rec.Out = csync.VerifC19GetLastHeights(args[0], int(args[1]))
	}
	if rec.Out == nil {
		rec.Out = []uint32{}
	}
	return rec
}

func genGap(o *hx.Out, r *hx.Rng, n int) {
	edge := []uint32{0, 1, 2, 9, 10, 11, 102, 103, 104, 206, 0xffffffff, 0xfffffffe, 0x80000000}
	pick := func() uint32 {
		switch r.Intn(4) {
		case 0:
			return edge[r.Intn(len(edge))]
		case 1:
			return uint32(r.Intn(40))
		case 2:
			return uint32(r.Intn(2000))
		}
		return r.U32()
	}
	// small exhaustive block
	for s := uint32(0); s <= 6; s++ {
		for m := uint32(0); m <= 3; m++ {
			for g := uint32(1); g <= 3; g++ {
				o.Put(runGap("gap", []uint32{s, m, g, 10}))
			}
		}
	}
	for h := uint32(0); h <= 12; h++ {
		for rl := uint32(1); rl <= 4; rl++ {
			o.Put(runGap("start", []uint32{h, rl}))
		}
	}
	for s := uint32(0); s <= 6; s++ {
		for num := uint32(0); num <= 5; num++ {
			o.Put(runGap("last", []uint32{s, num}))
		}
	}
	for i := 0; i < n; i++ {
		switch r.Intn(3) {
		case 0:
			start := pick()
			minimum := pick()
			if r.Intn(2) == 0 && start > 0 {
				minimum = uint32(r.Intn(int(start%100000) + 1))
			}
			o.Put(runGap("gap", []uint32{start, minimum, uint32(1 + r.Intn(120)), uint32(r.Intn(12))}))
		case 1:
			o.Put(runGap("start", []uint32{pick(), uint32(1 + r.Intn(120))}))
		case 2:
			o.Put(runGap("last", []uint32{pick(), uint32(r.Intn(210))}))
		}
	}
}

func replayOther(o *hx.Out, k string, line []byte) {
	switch k {
	case "gap":
		var rec gapRec
		if err := json.Unmarshal(line, &rec); err != nil {
			panic(err)
		}
		o.Put(runGap(rec.Fn, rec.Args))
	case "chain":
		var rec chainRec
		if err := json.Unmarshal(line, &rec); err != nil {
			panic(err)
		}
		o.Put(runChain(rec.Heights, rec.Cache, rec.Reqs))
	case "sync":
		var rec syncRec
		if err := json.Unmarshal(line, &rec); err != nil {
			panic(err)
		}
		runSyncCase(o, rec.Spec)
	case "temp":
		var rec tempRec
		if err := json.Unmarshal(line, &rec); err != nil {
			panic(err)
		}
		o.Put(runTemp(rec.Orig, rec.Down, rec.Save))
	default:
		panic("unknown record kind " + k)
	}
}
