package main

import (
	"bytes"
	"context"
	"errors"
	"fmt"
	"os"
	"strings"
	"time"

	"github.com/LiskHQ/lisk-engine/pkg/blockchain"
	"github.com/LiskHQ/lisk-engine/pkg/codec"
	csync "github.com/LiskHQ/lisk-engine/pkg/consensus/sync"
	"github.com/LiskHQ/lisk-engine/pkg/consensus/validator"
	"github.com/LiskHQ/lisk-engine/pkg/db"
	"github.com/LiskHQ/lisk-engine/pkg/log"
	"github.com/LiskHQ/lisk-engine/pkg/p2p"

	"github.com/LiskHQ/lisk-engine/pkg/trie/rmt"

	"verifharness/internal/exh"
	"verifharness/internal/hx"
)

// ---------------------------------------------------------------------------------------- RPC handlers
//
// A responder chain is built on an in-memory pebble: genesis at height G0, N further blocks, of which the last D
// are removed again (kept as temp blocks, as a chain switch does); block cache of size Cache.
// IDs are projected to integer codes: a block of the final chain at height h -> h; a removed block at height
// h -> 2^33 + h; a foreign ID number j -> 2^32 + j.

type chainReq struct {
	T   string   `json:"t"`             // "hcb" | "bfi" | "last" | "bad"
	IDs []uint64 `json:"ids,omitempty"` // hcb: requested ID codes ; bfi: one code
	Bad string   `json:"bad,omitempty"` // malformed variant: hcb-nil, hcb-garbage, hcb-empty, hcb-shortid, bfi-nil, bfi-garbage, bfi-shortid
	// observation
	Wrote  bool     `json:"wrote"`           // w.Write was called
	Nil    bool     `json:"nil"`             // ... with nil / empty data
	ErrSet bool     `json:"errset"`          // w.Error was called
	Out    []uint64 `json:"out"`             // hcb: [code] ; bfi: codes of the returned blocks in response order ; last: [code]
	OutH   []uint32 `json:"outh"`            // heights of the returned blocks in response order
	Panic  string   `json:"panic,omitempty"` // recovered panic site
	Hang   bool     `json:"hang,omitempty"`  // watchdog
	Undec  bool     `json:"undec,omitempty"` // response not decodable
	Body   []bool   `json:"body"`            // per served block: its full encoding (header, transactions, assets) equals the stored block's
}

type chainRec struct {
	K       string     `json:"k"`
	Heights [3]uint32  `json:"heights"` // G0, N, D
	Cache   int        `json:"cache"`
	Reqs    []chainReq `json:"reqs"`
	Setup   string     `json:"setup,omitempty"` // harness failure while building the chain
}

type capWriter struct {
	wrote  bool
	data   []byte
	errSet bool
}

func (w *capWriter) Write(d []byte)  { w.wrote = true; w.data = d }
func (w *capWriter) Error(err error) { w.errSet = true }

var sharedConn *p2p.Connection

func getConn() *p2p.Connection {
	if sharedConn != nil {
		return sharedConn
	}
	lg, _ := log.NewSilentLogger()
	conn := p2p.NewConnection(lg, &p2p.Config{ChainID: []byte{0, 0, 0, 0}, Addresses: []string{"/ip4/127.0.0.1/tcp/0"}})
	if err := conn.Start([]byte{}); err != nil {
		panic("cannot start loopback p2p connection: " + err.Error())
	}
	sharedConn = conn
	return conn
}

func mkBlock(height uint32, prev []byte, salt uint32) *blockchain.Block {
	z := make([]byte, 32)
	// a payload: 0..2 transactions and possibly an asset, so that a block served without its body is noticed
	txs := []*blockchain.Transaction{}
	for i := uint32(0); i < (height+salt)%3; i++ {
		txs = append(txs, exh.MakeTx(uint64(height)*8+uint64(salt)*3+uint64(i), int(4+i)))
	}
	assets := blockchain.BlockAssets{}
	if (height+salt)%2 == 1 {
		assets = blockchain.BlockAssets{&blockchain.BlockAsset{Module: "random", Data: []byte{byte(height), byte(salt), 7}}}
	}
	ids := make([][]byte, len(txs))
	for i, tx := range txs {
		ids[i] = tx.ID
	}
	h := &blockchain.BlockHeader{
		Version: 2, Height: height, Timestamp: 1000 + salt, PreviousBlockID: prev, GeneratorAddress: make([]byte, 20),
		TransactionRoot: rmt.CalculateRoot(ids), AssetRoot: assets.GetRoot(), EventRoot: z, StateRoot: z, ValidatorsHash: z,
		MaxHeightPrevoted: 0, MaxHeightGenerated: 0,
		AggregateCommit: &blockchain.AggregateCommit{Height: 0, AggregationBits: []byte{}, CertificateSignature: []byte{}},
		Signature:       make([]byte, 64),
	}
	b := &blockchain.Block{Header: h, Assets: assets, Transactions: txs}
	b.Init()
	return b
}

func foreignID(j uint64) []byte {
	a := make([]byte, 32)
	a[0] = 0xfe
	for i := 0; i < 8; i++ {
		a[31-i] = byte(j >> (8 * i))
	}
	return a
}

func runChain(heights [3]uint32, cache int, reqs []chainReq) (rec chainRec) {
	rec = chainRec{K: "chain", Heights: heights, Cache: cache, Reqs: reqs}
	g0, n, d := heights[0], heights[1], heights[2]
	database, err := db.NewInMemoryDB()
	if err != nil {
		rec.Setup = "db: " + err.Error()
		return rec
	}
	defer database.Close()
	chain := blockchain.NewChain(&blockchain.ChainConfig{ChainID: []byte{0, 0, 0, 0}, MaxBlockCache: cache, KeepEventsForHeights: -1})
	genesis := mkBlock(g0, make([]byte, 32), 0)
	chain.Init(genesis, database)
	idToCode := map[string]uint64{}
	codeToID := map[uint64][]byte{}
	put := func(code uint64, id []byte) {
		idToCode[string(id)] = code
		codeToID[code] = id
	}
	if err := chain.AddBlock(database.NewBatch(), genesis, nil, 0, false); err != nil {
		rec.Setup = "add genesis: " + err.Error()
		return rec
	}
	put(uint64(g0), genesis.Header.ID)
	prev := genesis
	all := []*blockchain.Block{genesis}
	for i := uint32(1); i <= n; i++ {
		b := mkBlock(g0+i, prev.Header.ID, i)
		if err := chain.AddBlock(database.NewBatch(), b, nil, 0, false); err != nil {
			rec.Setup = "add block: " + err.Error()
			return rec
		}
		all = append(all, b)
		prev = b
	}
	for i := uint32(0); i < d && i < n; i++ {
		if err := chain.RemoveBlock(database.NewBatch(), true); err != nil {
			rec.Setup = "remove block: " + err.Error()
			return rec
		}
	}
	kept := n
	if d < n {
		kept = n - d
	} else {
		kept = 0
	}
	for i := uint32(1); i <= n; i++ {
		if i <= kept {
			put(uint64(g0)+uint64(i), all[i].Header.ID)
		} else {
			put((1<<33)+uint64(g0)+uint64(i), all[i].Header.ID)
		}
	}
	resolve := func(code uint64) []byte {
		if id, ok := codeToID[code]; ok {
			return id
		}
		return foreignID(code)
	}
	codeOf := func(id []byte) uint64 {
		if c, ok := idToCode[string(id)]; ok {
			return c
		}
		return 1<<34 + 1 // an ID the harness never created
	}
	lg, _ := log.NewSilentLogger()
	noProc := func(ctx context.Context, block *blockchain.Block, publish bool, removeTemp bool) error {
		return errors.New("not used")
	}
	noRev := func(ctx context.Context, deletingBlock *blockchain.Block, saveTemp bool) error {
		return errors.New("not used")
	}
	syncer := csync.NewSyncer(chain, validator.NewBlockSlot(0, 10), getConn(), lg, noProc, noRev)

	stored := map[string][]byte{}
	for _, blk := range all {
		stored[string(blk.Header.ID)] = blk.Encode()
	}
	for i := range rec.Reqs {
		q := &rec.Reqs[i]
		q.Out, q.OutH, q.Body = []uint64{}, []uint32{}, []bool{}
		var handler p2p.RPCHandler
		req := &p2p.Request{ID: "1", Procedure: "x", PeerID: p2p.PeerID("verif-peer")}
		switch q.T {
		case "hcb":
			ids := make([][]byte, len(q.IDs))
			for j, c := range q.IDs {
				ids[j] = resolve(c)
			}
			req.Data = (&csync.GetHighestCommonBlockRequest{IDs: ids}).Encode()
			handler = syncer.HandleRPCEndpointGetHighestCommonBlock()
		case "bfi":
			req.Data = (&csync.GetBlocksFromIDRequest{ID: codec.Hex(resolve(q.IDs[0]))}).Encode()
			handler = syncer.HandleRPCEndpointGetBlocksFromID()
		case "last":
			handler = syncer.HandleRPCEndpointGetLastBlock()
		case "bad":
			switch q.Bad {
			case "hcb-nil":
				handler = syncer.HandleRPCEndpointGetHighestCommonBlock()
			case "hcb-garbage":
				req.Data = []byte{0x0a, 0xff, 0xff, 0xff, 0xff, 0x0f, 1, 2, 3}
				handler = syncer.HandleRPCEndpointGetHighestCommonBlock()
			case "hcb-empty":
				req.Data = (&csync.GetHighestCommonBlockRequest{IDs: [][]byte{}}).Encode()
				if req.Data == nil {
					req.Data = []byte{}
				}
				handler = syncer.HandleRPCEndpointGetHighestCommonBlock()
			case "hcb-shortid":
				req.Data = (&csync.GetHighestCommonBlockRequest{IDs: [][]byte{resolve(uint64(g0)), {1, 2, 3}}}).Encode()
				handler = syncer.HandleRPCEndpointGetHighestCommonBlock()
			case "bfi-nil":
				handler = syncer.HandleRPCEndpointGetBlocksFromID()
			case "bfi-garbage":
				req.Data = []byte{0x0a, 0xff, 0xff, 0xff, 0xff, 0x0f, 1, 2, 3}
				handler = syncer.HandleRPCEndpointGetBlocksFromID()
			case "bfi-shortid":
				req.Data = (&csync.GetBlocksFromIDRequest{ID: codec.Hex{1, 2, 3}}).Encode()
				handler = syncer.HandleRPCEndpointGetBlocksFromID()
			default:
				panic("unknown malformed variant " + q.Bad)
			}
		default:
			panic("unknown request type " + q.T)
		}
		w := &capWriter{}
		done := make(chan string, 1)
		go func() {
			defer func() {
				if r := recover(); r != nil {
					done <- q.T + q.Bad + ": " + strings.SplitN(fmt.Sprint(r), "\n", 2)[0]
					return
				}
				done <- ""
			}()
			handler(w, req)
		}()
		select {
		case p := <-done:
			q.Panic = p
		case <-time.After(20 * time.Second):
			q.Hang = true
			continue
		}
		if q.Panic != "" {
			continue
		}
		q.Wrote, q.ErrSet, q.Nil = w.wrote, w.errSet, w.wrote && len(w.data) == 0
		if !w.wrote || len(w.data) == 0 {
			continue
		}
		switch q.T {
		case "hcb":
			resp := &csync.GetHighestCommonBlockResponse{}
			if err := resp.Decode(w.data); err != nil {
				q.Undec = true
				continue
			}
			q.Out = append(q.Out, codeOf(resp.ID))
		case "bfi":
			resp := &csync.GetBlocksFromIDResponse{}
			if err := resp.Decode(w.data); err != nil {
				q.Undec = true
				continue
			}
			for _, b := range resp.Blocks {
				b.Init()
				q.Out = append(q.Out, codeOf(b.Header.ID))
				q.OutH = append(q.OutH, b.Header.Height)
				q.Body = append(q.Body, bytes.Equal(b.Encode(), stored[string(b.Header.ID)]))
			}
		case "last":
			b, err := blockchain.NewBlock(w.data)
			if err != nil {
				q.Undec = true
				continue
			}
			q.Out = append(q.Out, codeOf(b.Header.ID))
			q.OutH = append(q.OutH, b.Header.Height)
			q.Body = append(q.Body, bytes.Equal(b.Encode(), stored[string(b.Header.ID)]))
		}
	}
	return rec
}

func genHandlers(o *hx.Out, r *hx.Rng, n int) {
	bads := []string{"hcb-nil", "hcb-garbage", "hcb-empty", "hcb-shortid", "bfi-nil", "bfi-garbage", "bfi-shortid"}
	for i := 0; i < n; i++ {
		var g0 uint32
		switch r.Intn(5) {
		case 0:
			g0 = 0
		case 1:
			g0 = uint32(r.Intn(1000))
		case 2:
			g0 = 0xfffffffe - uint32(100+r.Intn(160)) // heights close to the uint32 limit
		default:
			g0 = uint32(r.Intn(50))
		}
		length := uint32(r.Intn(12))
		switch r.Intn(6) {
		case 0:
			length = uint32(100 + r.Intn(20)) // around the 103 cap
		case 1:
			length = uint32(20 + r.Intn(40))
		}
		// tip height at most 2^32-2: with a tip at 2^32-1 the loop `for h := from; h <= to; h++` of
		// DataAccess.GetBlocksBetweenHeight never terminates (documented, outside the handler model)
		if uint64(g0)+uint64(length) > 0xfffffffe {
			length = 0xfffffffe - g0
		}
		del := uint32(0)
		if r.Intn(3) == 0 && length > 0 {
			del = uint32(r.Intn(int(length)%5 + 1))
		}
		cache := []int{1, 2, 5, 30, 515}[r.Intn(5)]
		// the responder may have removed MORE blocks than its block cache holds (a deep revert): the cache is refilled from the
		// database then, and what it serves afterwards must still be the full stored blocks
		if cache <= 5 && length > uint32(cache) && r.Intn(2) == 0 {
			del = uint32(cache) + uint32(r.Intn(int(length)-cache+1))
			if del > length {
				del = length
			}
		}
		kept := length - del
		ownCode := func() uint64 { return uint64(g0) + uint64(r.Intn(int(kept)+1)) }
		anyCode := func() uint64 {
			switch r.Intn(6) {
			case 0:
				return (1 << 32) + uint64(r.Intn(5))
			case 1:
				if del > 0 {
					return (1 << 33) + uint64(g0) + uint64(kept) + 1 + uint64(r.Intn(int(del)))
				}
			}
			return ownCode()
		}
		reqs := []chainReq{{T: "last"}}
		// boundary of the 103 cap: requested blocks 102..105 below the tip
		for dist := uint32(102); dist <= 105; dist++ {
			if kept >= dist {
				reqs = append(reqs, chainReq{T: "bfi", IDs: []uint64{uint64(g0) + uint64(kept-dist)}})
			}
		}
		nq := 6 + r.Intn(6)
		for j := 0; j < nq; j++ {
			switch r.Intn(8) {
			case 0, 1, 2:
				k := 1 + r.Intn(6)
				ids := make([]uint64, k)
				for x := range ids {
					ids[x] = anyCode()
					if r.Intn(3) == 0 {
						ids[x] = (1 << 32) + uint64(r.Intn(5))
					}
				}
				reqs = append(reqs, chainReq{T: "hcb", IDs: ids})
			case 3, 4, 5, 6:
				c := anyCode()
				if r.Intn(4) == 0 {
					c = uint64(g0) + uint64(kept) // the tip
				}
				if r.Intn(4) == 0 {
					c = uint64(g0)
				}
				reqs = append(reqs, chainReq{T: "bfi", IDs: []uint64{c}})
			default:
				reqs = append(reqs, chainReq{T: "bad", Bad: bads[r.Intn(len(bads))]})
			}
		}
		if os.Getenv("VERIF_DEBUG") != "" {
			fmt.Fprintln(os.Stderr, "chain", g0, length, del, cache)
		}
		o.Put(runChain([3]uint32{g0, length, del}, cache, reqs))
	}
}

// ---------------------------------------------------------------------------------------- temp blocks during a failing fast sync
//
// The data-layer calls of fastSyncer.Sync on the failure path, on a real blockchain.Chain: delete the K original
// blocks above the common block with saveTemp (deleteTillCommonBlock), add J downloaded blocks (processor), delete
// them again as restoreBlocks does (originally with saveTemp = true, which overwrote the originals; repaired: false), then read
// GetTempBlocks: restoreBlocks re-applies exactly these. Codes: original at offset i -> i, downloaded -> 100+i.
type tempRec struct {
	K     string   `json:"k"`
	Orig  int      `json:"orig"`
	Down  int      `json:"down"`
	Save  bool     `json:"save"` // saveTemp flag of the second deletion (false in the repaired restoreBlocks)
	Temp  []uint64 `json:"temp"`
	Setup string   `json:"setup,omitempty"`
}

func runTemp(orig, down int, save bool) (rec tempRec) {
	rec = tempRec{K: "temp", Orig: orig, Down: down, Save: save, Temp: []uint64{}}
	database, err := db.NewInMemoryDB()
	if err != nil {
		rec.Setup = err.Error()
		return rec
	}
	defer database.Close()
	chain := blockchain.NewChain(&blockchain.ChainConfig{ChainID: []byte{0, 0, 0, 0}, MaxBlockCache: 515, KeepEventsForHeights: -1})
	genesis := mkBlock(0, make([]byte, 32), 0)
	chain.Init(genesis, database)
	if err := chain.AddBlock(database.NewBatch(), genesis, nil, 0, false); err != nil {
		rec.Setup = err.Error()
		return rec
	}
	code := map[string]uint64{}
	prev := genesis
	for i := 1; i <= orig; i++ {
		b := mkBlock(uint32(i), prev.Header.ID, uint32(i))
		code[string(b.Header.ID)] = uint64(i)
		if err := chain.AddBlock(database.NewBatch(), b, nil, 0, false); err != nil {
			rec.Setup = err.Error()
			return rec
		}
		prev = b
	}
	for i := 0; i < orig; i++ {
		if err := chain.RemoveBlock(database.NewBatch(), true); err != nil {
			rec.Setup = err.Error()
			return rec
		}
	}
	prev = genesis
	for i := 1; i <= down; i++ {
		b := mkBlock(uint32(i), prev.Header.ID, uint32(1000+i))
		code[string(b.Header.ID)] = uint64(100 + i)
		if err := chain.AddBlock(database.NewBatch(), b, nil, 0, false); err != nil {
			rec.Setup = err.Error()
			return rec
		}
		prev = b
	}
	for i := 0; i < down; i++ {
		if err := chain.RemoveBlock(database.NewBatch(), save); err != nil {
			rec.Setup = err.Error()
			return rec
		}
	}
	blocks, err := chain.DataAccess().GetTempBlocks()
	if err != nil {
		rec.Setup = "GetTempBlocks: " + err.Error()
		return rec
	}
	blockchain.SortBlockByHeightAsc(blocks)
	for _, b := range blocks {
		rec.Temp = append(rec.Temp, code[string(b.Header.ID)])
	}
	return rec
}

func genTemp(o *hx.Out) {
	for orig := 1; orig <= 4; orig++ {
		for down := 0; down <= orig; down++ {
			o.Put(runTemp(orig, down, false))
		}
	}
}
