package main

import (
	"verifharness/internal/gsx"
	"verifharness/internal/hx"
)

type syncRec struct {
	K string `json:"k"`
	gsx.SyncObs
}

func runSyncCase(spec gsx.SyncSpec) syncRec {
	return syncRec{K: "sync", SyncObs: gsx.RunSync(spec, nil, nil)}
}

func genSync(o *hx.Out, r *hx.Rng, n int) {
	fixed := []gsx.SyncSpec{
		// honest better peer, fast sync
		{N: 4, Prefix: 3, Own: 2, Peer: 4, HCB: "honest", Corrupt: -1, ErrAfter: -1},
		// invalid block after one applied block: restore + ban (the repaired restoreBlocks)
		{N: 4, Prefix: 3, Own: 3, Peer: 5, HCB: "honest", Corrupt: 2, CorruptKind: "sig", ErrAfter: -1},
		// first block invalid
		{N: 4, Prefix: 2, Own: 2, Peer: 4, HCB: "honest", Corrupt: 0, CorruptKind: "sig", ErrAfter: -1},
		// honest better peer far ahead: block sync
		{N: 4, Prefix: 6, Own: 1, Peer: 12, HCB: "honest", Corrupt: -1, ErrAfter: -1},
		// block sync, stream breaks after 3 blocks
		{N: 4, Prefix: 5, Own: 2, Peer: 13, HCB: "honest", Corrupt: -1, ErrAfter: 3},
		// full participation: finality advances; common block answered below the finalized height
		{N: 4, Prefix: 14, Own: 1, Peer: 3, Full: true, HCB: "low", Corrupt: -1, ErrAfter: -1},
		{N: 4, Prefix: 14, Own: 1, Peer: 12, Full: true, HCB: "low", Corrupt: -1, ErrAfter: -1},
	}
	for i, s := range fixed {
		if i < n {
			o.Put(runSyncCase(s))
		}
	}
	for i := len(fixed); i < n; i++ {
		s := gsx.SyncSpec{N: []int{2, 4}[r.Intn(2)], HCB: "honest", Corrupt: -1, ErrAfter: -1, CorruptKind: "sig"}
		s.Prefix = r.Intn(8)
		s.Own = r.Intn(5)
		s.Peer = s.Own + 1 + r.Intn(5)
		if r.Intn(4) == 0 {
			s.Peer = s.Own + 2*s.N + 1 + r.Intn(6) // block sync
		}
		s.Full = r.Intn(4) == 0
		if s.Full {
			s.Prefix += 6
			s.Own = r.Intn(2)
			s.Peer = s.Own + 1 + r.Intn(3)
		}
		switch r.Intn(10) {
		case 0:
			s.HCB = "none"
		case 1:
			s.HCB = "foreign"
		case 2:
			s.HCB = "low"
		}
		switch r.Intn(6) {
		case 0, 1:
			s.Corrupt = r.Intn(s.Peer)
			if r.Intn(4) == 0 {
				s.CorruptKind = "static"
			}
		case 2:
			s.ErrAfter = r.Intn(s.Peer + 1)
		}
		o.Put(runSyncCase(s))
	}
}
