package main

import (
	"verifharness/internal/gsx"
	"verifharness/internal/hx"
)

type syncRec struct {
	K string `json:"k"`
	gsx.SyncObs
}

func runSyncCase(o *hx.Out, spec gsx.SyncSpec) {
	for _, obs := range gsx.RunSyncAll(spec, nil, nil) {
		o.Put(syncRec{K: "sync", SyncObs: obs})
	}
}

func genSync(o *hx.Out, r *hx.Rng, n int, long int) {
	if long > 0 { // a slow link that recovers: the downloader's accumulated slack lets it burst above its nominal pace
		runSyncCase(o, gsx.SyncSpec{N: 4, Prefix: 2, Own: 1, Peer: 150, HCB: "honest", Corrupt: -1, ErrAfter: -1, Batch: 1, SlowFirst: 15})
	}
	for i := 0; i < long; i++ { // long honest syncs, one block per response: several rate-limiter intervals
		runSyncCase(o, gsx.SyncSpec{N: 4, Prefix: 2, Own: 1, Peer: 270 + 10*i, HCB: "honest", Corrupt: -1, ErrAfter: -1, Batch: 1})
	}
	fixed := []gsx.SyncSpec{
		// honest better peer, fast sync
		{N: 4, Prefix: 3, Own: 2, Peer: 4, HCB: "honest", Corrupt: -1, ErrAfter: -1},
		// invalid block after one applied block: restore + ban (the repaired restoreBlocks)
		{N: 4, Prefix: 3, Own: 3, Peer: 5, HCB: "honest", Corrupt: 2, CorruptKind: "sig", ErrAfter: -1},
		// the valid blocks applied before the invalid one FINALIZE a height above the common block: no restore is possible
		{N: 4, Prefix: 14, Own: 1, Peer: 8, Full: true, HCB: "honest", Corrupt: 6, CorruptKind: "sig", ErrAfter: -1},
		// first block invalid
		{N: 4, Prefix: 2, Own: 2, Peer: 4, HCB: "honest", Corrupt: 0, CorruptKind: "sig", ErrAfter: -1},
		// honest better peer far ahead: block sync
		{N: 4, Prefix: 6, Own: 1, Peer: 12, HCB: "honest", Corrupt: -1, ErrAfter: -1},
		// block sync, stream breaks after 3 blocks
		{N: 4, Prefix: 5, Own: 2, Peer: 13, HCB: "honest", Corrupt: -1, ErrAfter: 3},
		// full participation: finality advances; common block answered below the finalized height
		{N: 4, Prefix: 14, Own: 1, Peer: 3, Full: true, HCB: "low", Corrupt: -1, ErrAfter: -1},
		{N: 4, Prefix: 14, Own: 1, Peer: 12, Full: true, HCB: "low", Corrupt: -1, ErrAfter: -1},
		// the peer answers zero blocks forever / the first segment forever (fast sync and block sync)
		{N: 4, Prefix: 3, Own: 2, Peer: 5, HCB: "honest", Corrupt: -1, ErrAfter: 2, Stall: "empty"},
		{N: 4, Prefix: 3, Own: 2, Peer: 5, HCB: "honest", Corrupt: -1, ErrAfter: 0, Stall: "empty"},
		{N: 4, Prefix: 3, Own: 2, Peer: 5, HCB: "honest", Corrupt: -1, ErrAfter: 2, Stall: "repeat"},
		{N: 4, Prefix: 5, Own: 1, Peer: 13, HCB: "honest", Corrupt: -1, ErrAfter: 3, Stall: "empty"},
		{N: 4, Prefix: 5, Own: 1, Peer: 13, HCB: "honest", Corrupt: -1, ErrAfter: 3, Stall: "repeat"},
		// failed block sync leaves temp blocks behind; own blocks on top; then a fast sync with an invalid block
		{N: 4, Prefix: 4, Own: 3, Peer: 12, HCB: "honest", Corrupt: -1, ErrAfter: 6, Second: true, Own2: 2, HCB2: "honest", Corrupt2: 1, CorruptKind2: "sig", ErrAfter2: -1},
		{N: 4, Prefix: 4, Own: 3, Peer: 12, HCB: "honest", Corrupt: -1, ErrAfter: 6, Second: true, Own2: 0, HCB2: "honest", Corrupt2: 2, CorruptKind2: "sig", ErrAfter2: -1},
		// three nodes: the sender C (shares 4 of our own blocks, then 14 of its own) is not the best peer B
		{N: 4, Prefix: 3, Own: 5, Peer: 26, HCB: "honest", Corrupt: -1, ErrAfter: -1, Sender: true, SenderShare: 4, SenderOwn: 14},
		{N: 4, Prefix: 6, Own: 9, Peer: 30, HCB: "honest", Corrupt: -1, ErrAfter: -1, Sender: true, SenderShare: 9, SenderOwn: 12},
		// better (larger maxHeightPrevoted) but SHORTER peer chain, our finalized block recent
		{N: 4, Prefix: 12, Own: 4, Peer: 3, Full: true, ForkMode: "peerfull", Recent: true, HCB: "honest", Corrupt: -1, ErrAfter: -1},
		{N: 4, Prefix: 13, Own: 3, Peer: 2, Full: true, ForkMode: "peerfull", Recent: true, HCB: "honest", Corrupt: -1, ErrAfter: -1},
		{N: 4, Prefix: 16, Own: 4, Peer: 3, Full: true, ForkMode: "peerfull", Recent: true, HCB: "honest", Corrupt: -1, ErrAfter: -1},
		{N: 4, Prefix: 12, Own: 4, Peer: 3, Full: true, ForkMode: "peerfull", HCB: "honest", Corrupt: -1, ErrAfter: -1},
		// a lying peer names our own tip as the common block although the block it offered is lower: block height - common
		// height wraps in uint32 and the fast sync must be abandoned untouched
		{N: 4, Prefix: 12, Own: 4, Peer: 3, Full: true, ForkMode: "peerfull", HCB: "echo", Corrupt: -1, ErrAfter: -1},
		{N: 4, Prefix: 5, Own: 4, Peer: 2, HCB: "echo", Corrupt: -1, ErrAfter: -1},
		// forks longer than the 103-block cap: several getBlocksFromID requests (honest; invalid block / broken stream in a later batch)
		{N: 4, Prefix: 3, Own: 2, Peer: 230, HCB: "honest", Corrupt: -1, ErrAfter: -1},
		{N: 4, Prefix: 2, Own: 1, Peer: 215, HCB: "honest", Corrupt: 150, CorruptKind: "sig", ErrAfter: -1},
		{N: 4, Prefix: 2, Own: 1, Peer: 120, HCB: "honest", Corrupt: -1, ErrAfter: 110, Stall: "empty"},
		// the block's generator is not a current validator: no fast sync although the heights are close
		{N: 4, Prefix: 3, Own: 2, Peer: 4, HCB: "honest", Corrupt: -1, ErrAfter: -1, NonValidator: true},
		{N: 4, Prefix: 12, Own: 1, Peer: 3, Full: true, Recent: true, HCB: "honest", Corrupt: -1, ErrAfter: -1, NonValidator: true},
		// an honest peer serving ONE block per response: the sync issues a request per block at the downloader's own pace
		{N: 4, Prefix: 2, Own: 1, Peer: 34, HCB: "honest", Corrupt: -1, ErrAfter: -1, Batch: 1},
		// the SERVING node reverted more blocks than its block cache holds before serving; its blocks carry transactions
		{N: 4, Prefix: 3, Own: 2, Peer: 5, HCB: "honest", Corrupt: -1, ErrAfter: -1, PeerCache: 2, PeerRevert: 4, WithTxs: true},
		{N: 4, Prefix: 2, Own: 1, Peer: 14, HCB: "honest", Corrupt: -1, ErrAfter: -1, PeerCache: 1, PeerRevert: 3, WithTxs: true},
		// recent finality, far apart: nothing is done (neither mechanism applies)
		{N: 4, Prefix: 12, Own: 0, Peer: 10, Full: true, Recent: true, HCB: "honest", Corrupt: -1, ErrAfter: -1},
		// failed block sync, then an honest fast sync
		{N: 4, Prefix: 4, Own: 3, Peer: 12, HCB: "honest", Corrupt: -1, ErrAfter: 6, Second: true, Own2: 1, HCB2: "honest", Corrupt2: -1, ErrAfter2: -1},
	}
	for i, s := range fixed {
		if i < n {
			runSyncCase(o, s)
		}
	}
	for i := len(fixed); i < n; i++ {
		s := gsx.SyncSpec{N: []int{2, 4}[r.Intn(2)], HCB: "honest", Corrupt: -1, ErrAfter: -1, CorruptKind: "sig"}
		s.Prefix = r.Intn(8)
		s.Own = r.Intn(5)
		s.Peer = s.Own + 1 + r.Intn(5)
		if r.Intn(4) == 0 {
			s.Peer = s.Own + 2*s.N + 1 + r.Intn(6) // block sync
		}
		s.Full = r.Intn(4) == 0
		if s.Full {
			s.Prefix += 6
			s.Own = r.Intn(2)
			s.Peer = s.Own + 1 + r.Intn(7) // up to 8 blocks: enough valid ones to finalize past the common block
		}
		switch r.Intn(10) {
		case 0:
			s.HCB = "none"
		case 1:
			s.HCB = "foreign"
		case 2:
			s.HCB = "low"
		case 3:
			s.HCB = "echo"
			if r.Intn(2) == 0 && s.Own > 1 { // the offered block below our tip
				s.Peer = s.Own - 1 - r.Intn(s.Own-1)
			}
		}
		switch r.Intn(6) {
		case 0, 1:
			s.Corrupt = r.Intn(s.Peer)
			if r.Intn(4) == 0 {
				s.CorruptKind = "static"
			}
		case 2:
			s.ErrAfter = r.Intn(s.Peer + 1)
			s.Stall = []string{"", "", "empty", "repeat"}[r.Intn(4)]
		}
		s.NonValidator = r.Intn(12) == 0
		if !s.Full && s.N == 4 && r.Intn(6) == 0 { // (with 2 validators both forge and finality would forbid the revert)
			s.PeerCache, s.WithTxs = 1+r.Intn(3), true
			s.PeerRevert = s.PeerCache + r.Intn(3)
		}
		if r.Intn(8) == 0 { // three nodes, block sync: the sender shares more of our fork than the best peer
			s.Full, s.Own = false, 2+r.Intn(8)
			s.Sender, s.SenderShare = true, 1+r.Intn(s.Own)
			s.SenderOwn = s.Own - s.SenderShare + 2*s.N + 1 + r.Intn(6) // the sender's tip is more than two rounds above ours: block sync
			s.Peer = s.Own + s.SenderOwn + 2 + r.Intn(6)
		} else if r.Intn(10) == 0 { // better but shorter, with and without a recent finalized block
			s = gsx.SyncSpec{N: 4, Prefix: 10 + r.Intn(8), Full: true, ForkMode: "peerfull", Recent: r.Intn(2) == 0, HCB: "honest", Corrupt: -1, ErrAfter: -1, CorruptKind: "sig"}
			s.Own = 3 + r.Intn(3)
			s.Peer = s.Own - 1 - r.Intn(2)
		}
		if r.Intn(5) == 0 && !s.Sender && s.ForkMode == "" { // a second sync with the same peer afterwards
			s.Second, s.HCB2, s.Corrupt2, s.ErrAfter2, s.CorruptKind2 = true, "honest", -1, -1, "sig"
			s.Own2 = r.Intn(3)
			switch r.Intn(3) {
			case 0:
				s.Corrupt2 = r.Intn(s.Peer)
			case 1:
				s.ErrAfter2 = r.Intn(s.Peer + 1)
			}
		}
		runSyncCase(o, s)
	}
}
