// C19 correspondence driver: peer selection, sync RPC handlers and the height helpers of pkg/consensus/sync,
// run on generated inputs; one JSONL record per case (input + projected observation of the implementation).
package main

import (
	"encoding/json"
	"flag"
	"fmt"
	"os"
	"sort"
	"strings"

	csync "github.com/LiskHQ/lisk-engine/pkg/consensus/sync"

	"verifharness/internal/hx"
)

// ---------------------------------------------------------------------------------------- peer selection

type bestRec struct {
	K     string      `json:"k"`
	Infos [][4]uint32 `json:"infos"` // height, maxHeightPrevoted, block-ID code, peer index
	Runs  int         `json:"runs"`
	Outs  []int       `json:"outs"` // distinct selected indexes over the runs, sorted
	Err   bool        `json:"err"`
	Panic string      `json:"panic,omitempty"`
}

func id32(g uint32) []byte {
	a := make([]byte, 32)
	a[28], a[29], a[30], a[31] = byte(g>>24), byte(g>>16), byte(g>>8), byte(g)
	return a
}

func runBest(infos [][4]uint32, runs int) (rec bestRec) {
	rec = bestRec{K: "best", Infos: infos, Runs: runs, Outs: []int{}}
	if rec.Infos == nil {
		rec.Infos = [][4]uint32{}
	}
	defer func() {
		if r := recover(); r != nil {
			rec.Panic = "getBestNodeInfo: " + strings.SplitN(fmt.Sprint(r), "\n", 2)[0]
		}
	}()
	views := make([]csync.VerifC19NodeInfo, len(infos))
	for i, f := range infos {
		views[i] = csync.VerifC19NodeInfo{Height: f[0], MaxHeightPrevoted: f[1], BlockVersion: 2, LastBlockID: id32(f[2])}
	}
	seen := map[int]bool{}
	for i := 0; i < runs; i++ {
		ix, err := csync.VerifC19GetBestNodeInfo(views)
		if err != nil {
			rec.Err = true
			continue
		}
		seen[ix] = true
	}
	for ix := range seen {
		rec.Outs = append(rec.Outs, ix)
	}
	sort.Ints(rec.Outs)
	return rec
}

func genBest(o *hx.Out, r *hx.Rng, maxLen, nrand, runs int) {
	// (a) every multiset of tips of size 0..maxLen over mhp in {0,1} x height in {0,1} x id in {1,2,3},
	// presented in a pseudo-random order (the filters are order sensitive)
	var tips [][3]uint32
	for m := uint32(0); m < 2; m++ {
		for h := uint32(0); h < 2; h++ {
			for id := uint32(1); id <= 3; id++ {
				tips = append(tips, [3]uint32{h, m, id})
			}
		}
	}
	var rec func(start int, cur []int)
	emit := func(cur []int) {
		infos := make([][4]uint32, len(cur))
		perm := make([]int, len(cur))
		for i := range perm {
			perm[i] = i
		}
		for i := len(perm) - 1; i > 0; i-- {
			j := r.Intn(i + 1)
			perm[i], perm[j] = perm[j], perm[i]
		}
		for i, p := range perm {
			t := tips[cur[p]]
			infos[i] = [4]uint32{t[0], t[1], t[2], uint32(i)}
		}
		o.Put(runBest(infos, runs))
	}
	rec = func(start int, cur []int) {
		emit(cur)
		if len(cur) == maxLen {
			return
		}
		for i := start; i < len(tips); i++ {
			rec(i, append(append([]int{}, cur...), i))
		}
	}
	rec(0, nil)
	// (b) random larger peer sets: many peers on the top tip with skewed ID frequencies, uint32 extremes
	for i := 0; i < nrand; i++ {
		n := 1 + r.Intn(12)
		topM, topH := r.U32(), r.U32()
		if r.Intn(3) == 0 {
			topM, topH = uint32(r.Intn(4)), uint32(r.Intn(4))
		}
		if r.Intn(8) == 0 {
			topM = 0xffffffff
		}
		infos := make([][4]uint32, n)
		for j := range infos {
			m, h := topM, topH
			switch r.Intn(6) {
			case 0:
				m = topM - uint32(1+r.Intn(3))
				h = r.U32()
			case 1:
				h = topH - uint32(1+r.Intn(3))
			}
			id := uint32(1 + r.Intn(3))
			if r.Intn(3) == 0 {
				id = 1
			}
			infos[j] = [4]uint32{h, m, id, uint32(j)}
		}
		o.Put(runBest(infos, runs))
	}
}

func main() {
	out := flag.String("out", "cases.jsonl", "output")
	maxLen := flag.Int("bestlen", 4, "peer selection: exhaustive multisets up to this size")
	nrand := flag.Int("bestrand", 300, "peer selection: random peer sets")
	runs := flag.Int("runs", 12, "peer selection: runs per case (the choice is randomised)")
	nh := flag.Int("handlers", 150, "handler cases (chains)")
	ngap := flag.Int("gap", 600, "height helper cases")
	nsync := flag.Int("sync", 8, "two-node sync scenarios")
	nlong := flag.Int("synclong", 0, "long honest one-block-per-response syncs (about 30 s each)")
	in := flag.String("in", "", "replay: JSONL of records to re-run")
	flag.Parse()
	r := hx.NewRng(hx.SeedFromEnv())
	o := hx.NewOut(*out)
	defer o.Close()
	if *in != "" {
		data, err := os.ReadFile(*in)
		if err != nil {
			panic(err)
		}
		for _, line := range strings.Split(string(data), "\n") {
			if strings.TrimSpace(line) == "" {
				continue
			}
			var probe struct {
				K string `json:"k"`
			}
			if err := json.Unmarshal([]byte(line), &probe); err != nil {
				panic(err)
			}
			switch probe.K {
			case "best":
				var rec bestRec
				if err := json.Unmarshal([]byte(line), &rec); err != nil {
					panic(err)
				}
				if rec.Runs == 0 {
					rec.Runs = 200
				}
				o.Put(runBest(rec.Infos, rec.Runs))
			default:
				replayOther(o, probe.K, []byte(line))
			}
		}
		return
	}
	genBest(o, r, *maxLen, *nrand, *runs)
	genGap(o, r, *ngap)
	genHandlers(o, r, *nh)
	genTemp(o)
	genSync(o, r, *nsync, *nlong)
}
