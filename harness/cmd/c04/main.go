// C04 correspondence driver: random histories (valid/invalid blocks, competing forks built after deleting several tips,
// delete requests at and below the finalized height, failed-sync style restores from the temp table, restarts = close +
// reopen + PrepareCache, ClearTempBlocks) against a real consensus.Executer.  After every step: stored finalized height,
// block ID served for every height, events published.  One JSON record per history.
package main

import (
	"bytes"
	"crypto/sha256"
	"encoding/hex"
	"flag"
	"fmt"
	"os"
	"strings"
	"sync/atomic"
	"time"

	"github.com/LiskHQ/lisk-engine/pkg/blockchain"

	"verifharness/internal/exh"
	"verifharness/internal/hx"
)

type Step struct {
	Op       string   `json:"op"` // apply | delete | delete_req | restart | cleartemp
	ID       string   `json:"id,omitempty"`
	OK       bool     `json:"ok"`
	OKImpl   bool     `json:"ok_from_impl,omitempty"` // verdict taken from the implementation (restore of temp blocks)
	P        uint32   `json:"p"`
	RT       bool     `json:"rt,omitempty"`
	H        uint32   `json:"h"` // height of the block named in a delete request
	Save     bool     `json:"save,omitempty"`
	What     string   `json:"what"`
	Class    string   `json:"class"`
	Fin      uint32   `json:"fin"`
	Chain    []string `json:"chain"`
	DupOwner *uint32  `json:"dup_owner,omitempty"` // dup-tx scenario: height of the finalized block that owns the repeated transaction
	Bodies   []string `json:"bodies"`              // per height: digest of the FULL block as read from the database (no cache), or "ERR: …"
	Events   []exh.Ev `json:"events"`
	TempKeys int      `json:"temp"`
}

type Hist struct {
	K       string            `json:"k"`
	N       int               `json:"n"`
	Genesis string            `json:"genesis"`
	Steps   []Step            `json:"steps"`
	Digests map[string]string `json:"digests"` // block ID -> digest of the full encoded block, recorded when the block was built
	// two-node histories only
	SyncKind string `json:"sync_kind,omitempty"`
	Attempts int    `json:"sync_attempts,omitempty"`
	Shows    bool   `json:"sync_shows_kind,omitempty"`
	SyncRes  string `json:"sync_result,omitempty"`
	SyncTip  bool   `json:"sync_reached_peer_tip,omitempty"`
	SyncHang bool   `json:"sync_hang,omitempty"`
}

type drv struct {
	n        *exh.Node
	r        *hx.Rng
	h        *Hist
	scripts  map[string]*exh.Script // ABI answers per block ID: re-applying a block reproduces its events
	dupOwner *uint32
	txAt     map[uint32]*blockchain.Transaction // first transaction of the block applied at a height (dup-tx scenario)
	sticky   *exh.Validator                     // current run: several consecutive blocks by the same validator (finality jumps)
	run      int
}

func (d *drv) observe(s *Step) {
	n := d.n
	s.Fin, _ = n.Finalized()
	s.Chain = []string{}
	tip := n.Tip().Header.Height
	for h := uint32(0); h <= tip; h++ {
		hd := n.HeaderAt(h)
		if hd == nil {
			s.Chain = append(s.Chain, "missing")
		} else {
			s.Chain = append(s.Chain, hex.EncodeToString(hd.ID))
		}
	}
	// the height index must not contain anything above the tip either
	if hd := n.HeaderAt(tip + 1); hd != nil {
		s.Chain = append(s.Chain, hex.EncodeToString(hd.ID))
	}
	// full blocks (header, transactions, assets) straight from the database: a fresh DataAccess has an empty cache
	raw := blockchain.NewDataAccess(n.DB, 1, n.Opt.KeepEvents)
	s.Bodies = []string{}
	for h := uint32(0); h <= tip; h++ {
		blk, err := raw.GetBlockByHeight(h)
		if err != nil {
			s.Bodies = append(s.Bodies, "ERR: "+err.Error())
			continue
		}
		s.Bodies = append(s.Bodies, blockDigest(blk))
	}
	s.Events = n.DrainEvents()
	tb, _ := n.Chain.DataAccess().GetTempBlocks()
	s.TempKeys = len(tb)
	d.h.Steps = append(d.h.Steps, *s)
}

func blockDigest(b *blockchain.Block) string {
	sum := sha256.Sum256(b.Encode())
	return hex.EncodeToString(sum[:8])
}

func (d *drv) remember(b *blockchain.Block) {
	if d.h.Digests == nil {
		d.h.Digests = map[string]string{}
	}
	d.h.Digests[hex.EncodeToString(b.Header.ID)] = blockDigest(b)
}

func (d *drv) postPrecommit(b *blockchain.Block) uint32 {
	n := d.n
	store := n.Exec.VerifC03ConsensusStore()
	var p uint32
	func() {
		defer func() { recover() }()
		if err := n.Exec.BFTBeforeTransactionsExecute(b.Header.Readonly(), store); err != nil {
			return
		}
		_, pp, _, err := n.Exec.GetBFTHeights(store)
		if err == nil {
			p = pp
		}
	}()
	return p
}

func (d *drv) script(h uint32) *exh.Script {
	s := &exh.Script{}
	for i := d.r.Intn(3); i > 0; i-- {
		s.BeforeEvents = append(s.BeforeEvents, exh.MakeEvent(d.r.U64(), h, 1+d.r.Intn(2)))
	}
	return s
}

func (d *drv) applyValid(what string) {
	n := d.n
	bo := exh.Build{}
	if d.r.Intn(3) == 0 {
		bo.SkipSlots = 1 + d.r.Intn(3)
	}
	if d.r.Intn(4) == 0 {
		bo.Txs = []*blockchain.Transaction{exh.MakeTx(d.r.U64()%100000, d.r.Intn(20))}
	}
	// runs of blocks by one validator: with unequal weights a heavy validator coming back precommits several heights at once
	if d.run == 0 && d.r.Intn(4) == 0 {
		gens := n.GeneratorAddrs()
		d.sticky, d.run = n.ValidatorByAddr(gens[d.r.Intn(len(gens))]), 2+d.r.Intn(3)
	}
	if d.run > 0 {
		d.run--
		if d.sticky != nil {
			bo.By = d.sticky
		}
	}
	n.ABI.S = d.script(n.Tip().Header.Height + 1)
	b := n.NextValid(bo)
	d.remember(b)
	if len(b.Transactions) > 0 {
		d.txAt[b.Header.Height] = b.Transactions[0]
	}
	d.scripts[hex.EncodeToString(b.Header.ID)] = n.ABI.S
	s := &Step{Op: "apply", ID: hex.EncodeToString(b.Header.ID), OK: true, P: d.postPrecommit(b), What: what}
	var r exh.Result
	if d.r.Bool() {
		r = n.Process(b)
	} else {
		r = n.ProcessValidated(b, false)
	}
	s.Class = exh.ErrClass(r)
	d.observe(s)
}

func (d *drv) applyInvalid() {
	n := d.n
	n.ABI.S = d.script(n.Tip().Header.Height + 1)
	b := n.NextValid(exh.Build{})
	what := ""
	switch d.r.Intn(4) {
	case 0:
		b.Header.Signature[3] ^= 1
		b.Header.Init()
		what = "invalid: signature"
	case 1:
		b.Header.MaxHeightPrevoted++
		n.Sign(b.Header, n.ValidatorByAddr(b.Header.GeneratorAddress))
		what = "invalid: maxHeightPrevoted"
	case 2:
		b.Header.ValidatorsHash[0] ^= 1
		n.Sign(b.Header, n.ValidatorByAddr(b.Header.GeneratorAddress))
		what = "invalid: validatorsHash"
	default:
		n.ABI.S = &exh.Script{FailCommit: true}
		what = "invalid: ABI commit fails"
	}
	s := &Step{Op: "apply", ID: hex.EncodeToString(b.Header.ID), OK: false, P: d.postPrecommit(b), What: what}
	r := n.ProcessValidated(b, false)
	s.Class = exh.ErrClass(r)
	d.observe(s)
}

func (d *drv) deleteTip(save bool, what string) bool {
	n := d.n
	tip := n.Tip()
	s := &Step{Op: "delete", H: tip.Header.Height, Save: save, OK: true, What: what, DupOwner: d.dupOwner}
	n.ABI.S = &exh.Script{}
	if d.r.Intn(12) == 0 {
		n.ABI.S = &exh.Script{FailRevert: true}
		s.OK = false
		s.What += " (ABI revert fails)"
	}
	r := n.DeleteBlock(tip, save)
	s.Class = exh.ErrClass(r)
	d.observe(s)
	return r.OK()
}

// deleteFinalized asks for the deletion of a block at or below the finalized height (not the tip unless tip == finalized).
func (d *drv) deleteFinalized() {
	n := d.n
	fin, _ := n.Finalized()
	h := uint32(d.r.Intn(int(fin) + 1))
	b, err := n.Chain.DataAccess().GetBlockByHeight(h)
	if err != nil {
		return
	}
	s := &Step{Op: "delete_req", H: h, Save: d.r.Bool(), OK: true, What: "delete request for a block at or below the finalized height"}
	n.ABI.S = &exh.Script{}
	r := n.DeleteBlock(b, s.Save)
	s.Class = exh.ErrClass(r)
	d.observe(s)
}

// dupTx: a block above the finalized height repeats a transaction of a FINALIZED block that is still on the chain (the
// engine accepts it: nothing checks that a transaction ID is new), then that block is deleted again (tie-break, sync, …).
func (d *drv) dupTx() bool {
	n := d.n
	fin, _ := n.Finalized()
	var tx *blockchain.Transaction
	owner := uint32(0)
	for h := uint32(1); h <= fin; h++ {
		if t, ok := d.txAt[h]; ok {
			if hd := n.HeaderAt(h); hd != nil {
				if blk, err := n.Chain.DataAccess().GetBlockByHeight(h); err == nil && len(blk.Transactions) > 0 && string(blk.Transactions[0].ID) == string(t.ID) {
					tx = t
					owner = h
				}
			}
		}
	}
	if tx == nil {
		return false
	}
	n.ABI.S = d.script(n.Tip().Header.Height + 1)
	b := n.NextValid(exh.Build{Txs: []*blockchain.Transaction{tx}})
	d.remember(b)
	d.scripts[hex.EncodeToString(b.Header.ID)] = n.ABI.S
	s := &Step{Op: "apply", ID: hex.EncodeToString(b.Header.ID), OK: true, P: d.postPrecommit(b), What: "dup-tx: block above finality repeating a transaction of a finalized block"}
	s.Class = exh.ErrClass(n.ProcessValidated(b, false))
	d.observe(s)
	if s.Class != "ok" {
		return false
	}
	d.dupOwner = &owner
	ok := d.deleteTip(false, "dup-tx: delete the block that repeated a finalized block's transaction")
	d.dupOwner = nil
	return ok
}

// probed runs fn (a call into Executer.process) and records every block step it performs: the ABI double's InitStateMachine
// hook fires at the start of each processValidated / deleteBlock, where the state left by the previous step is observed.
func (d *drv) probed(label string, fn func() exh.Result) exh.Result {
	n := d.n
	var pending *Step
	finish := func() {
		if pending == nil {
			return
		}
		if pending.Op == "apply" {
			pending.OK = hex.EncodeToString(n.Tip().Header.ID) == pending.ID
			pending.Class = "rejected"
			if pending.OK {
				pending.Class = "ok"
			}
		} else {
			pending.Class = "ok"
			if n.Tip().Header.Height >= pending.H {
				pending.Class, pending.OK = "refused", false
			}
		}
		d.observe(pending)
		pending = nil
	}
	n.ABI.OnInit = func(hd *blockchain.BlockHeader) {
		finish()
		tip := n.Tip().Header
		id := hex.EncodeToString(hd.ID)
		if hex.EncodeToString(tip.ID) == id {
			pending = &Step{Op: "delete", H: tip.Height, OK: true, What: label + ": delete"}
			n.ABI.S = &exh.Script{}
			return
		}
		pending = &Step{Op: "apply", ID: id, P: d.postPrecommit(&blockchain.Block{Header: hd}), OKImpl: true, What: label + ": apply"}
		n.ABI.S = d.scripts[id]
	}
	res := fn()
	n.ABI.OnInit = nil
	finish()
	return res
}

// tieBreak: the tip T was received late; a competing block for the same height and parent arrives in its own slot through
// Executer.process: the tip is deleted, the competitor applied, and — if it is invalid — the old tip re-applied.
func (d *drv) tieBreak(invalid bool) {
	n := d.n
	nowSlot := n.Slot(uint32(time.Now().Unix()))
	tipSlot := n.Slot(n.Tip().Header.Timestamp)
	if nowSlot-tipSlot < 3 {
		return
	}
	parent := n.Tip()
	n.ABI.S = d.script(parent.Header.Height + 1)
	T := n.NextValid(exh.Build{SkipSlots: nowSlot - 2 - tipSlot})
	d.remember(T)
	d.scripts[hex.EncodeToString(T.Header.ID)] = n.ABI.S
	s := &Step{Op: "apply", ID: hex.EncodeToString(T.Header.ID), OK: true, P: d.postPrecommit(T), What: "tie-break: old tip"}
	s.Class = exh.ErrClass(n.ProcessValidated(T, false))
	d.observe(s)
	if s.Class != "ok" {
		return
	}
	// the competitor is built on the parent: take the tip off, build, put it back (recorded steps like any other)
	ds := &Step{Op: "delete", H: T.Header.Height, OK: true, What: "tie-break: build the competitor on the parent"}
	n.ABI.S = &exh.Script{}
	ds.Class = exh.ErrClass(n.DeleteBlock(n.Tip(), false))
	d.observe(ds)
	if ds.Class != "ok" {
		return
	}
	n.ABI.S = d.script(T.Header.Height)
	T2 := n.NextValid(exh.Build{SkipSlots: nowSlot - 1 - n.Slot(parent.Header.Timestamp)})
	what := "tie-break through Executer.process, valid competitor"
	if invalid {
		T2.Header.Signature[7] ^= 4
		T2.Header.Init()
		what = "tie-break through Executer.process, competitor with an invalid signature"
	}
	d.remember(T2)
	d.scripts[hex.EncodeToString(T2.Header.ID)] = n.ABI.S
	n.ABI.S = d.scripts[hex.EncodeToString(T.Header.ID)]
	rs := &Step{Op: "apply", ID: hex.EncodeToString(T.Header.ID), OK: true, P: d.postPrecommit(T), What: "tie-break: old tip back"}
	rs.Class = exh.ErrClass(n.ProcessValidated(T, false))
	d.observe(rs)
	if rs.Class != "ok" || bytes.Equal(T2.Header.GeneratorAddress, T.Header.GeneratorAddress) {
		return
	}
	late := time.Unix(int64(n.Exec.GetSlotTime(n.Slot(T.Header.Timestamp)+2)), 0)
	n.Exec.VerifC03SetLastBlockReceived(&late)
	d.probed(what, func() exh.Result { return n.Process(T2) })
}

// fork: delete k tips (saved to temp as fast sync does), grow a competing branch on other slots; then either keep it and
// clear the temp table (successful sync) or fail: delete the branch (without temp, as restoreBlocks does) and re-apply what
// the temp table holds, lowest height first, with removeTemp.
func (d *drv) fork() {
	n := d.n
	k := 1 + d.r.Intn(4)
	for i := 0; i < k; i++ {
		if !d.deleteTip(true, "sync: delete till common block") {
			break
		}
	}
	j := 1 + d.r.Intn(k+2)
	common := n.Tip().Header.Height
	for i := 0; i < j; i++ {
		d.applyValid("sync: apply block of the competing chain")
	}
	if d.r.Intn(3) > 0 {
		s := &Step{Op: "cleartemp", OK: true, What: "sync finished: ClearTempBlocks"}
		n.Chain.DataAccess().ClearTempBlocks()
		d.observe(s)
		return
	}
	for n.Tip().Header.Height != common {
		if !d.deleteTip(false, "failed sync: delete till common block") {
			return
		}
	}
	blocks, err := n.Chain.DataAccess().GetTempBlocks()
	if err != nil {
		return
	}
	blockchain.SortBlockByHeightAsc(blocks)
	for _, b := range blocks {
		n.ABI.S = d.scripts[hex.EncodeToString(b.Header.ID)]
		// the temp table holds the original blocks; the verdict is still taken from the implementation for these steps
		// (a restart or a refused deletion in between can leave a partial table)
		s := &Step{Op: "apply", ID: hex.EncodeToString(b.Header.ID), P: d.postPrecommit(b), RT: true, OKImpl: true, What: "failed sync: restore temp block"}
		r := n.ProcessValidated(b, true)
		s.OK = r.OK()
		s.Class = exh.ErrClass(r)
		d.observe(s)
		if !r.OK() {
			break
		}
	}
}

// syncViaProcess: two real nodes on loopback p2p. A and B share a prefix, each grows its own fork; B's tip is handed to A's
// Executer.process as a block received from B: fork choice says "different chain", the real Syncer (fast sync) negotiates
// the common block with B's real handlers, deletes A's fork, downloads and applies B's blocks through the processor
// callback — all inside process, i.e. with the Executer's syncing flag set.  Every block step of the sync is observed:
// the ABI double's InitStateMachine hook fires at the start of every processValidated / deleteBlock, where the state
// left by the previous step is recorded.
// syncShowsKind: the run shows the behaviour its kind is meant to exercise (used for retries; the check applies the same rule).
func syncShowsKind(h *Hist) bool {
	if h.SyncHang {
		return false
	}
	switch h.SyncKind {
	case "fast", "block":
		return h.SyncTip
	case "deep":
		return strings.Contains(h.SyncRes, "lower than finalized")
	case "poison":
		// the node's application rejected a downloaded block (scripted ABI failure) and the real restoreBlocks ran: deletions
		// after the rejected apply
		rejected := -1
		for i, s := range h.Steps {
			if strings.Contains(s.What, "REJECTED by the node") {
				rejected = i
			}
		}
		if h.SyncRes != "abi" || rejected < 0 {
			return false
		}
		for _, s := range h.Steps[rejected:] {
			if s.Op == "delete" {
				return true
			}
		}
	}
	return false
}

// kind: "fast" (successful fast sync), "poison" (the node rejects one of the downloaded blocks: the REAL restoreBlocks runs),
// "deep" (the node's own fork is long enough to have finalized past the fork point: the common block is below the finalized
// height), "block" (the peer is more than two rounds ahead: real block sync).
func syncViaProcess(r *hx.Rng, hi int, kind string) *Hist {
	nv := 2 + r.Intn(3)
	var weights []uint64
	if kind == "deep" {
		// one heavy validator: finality follows the tip closely, so a fork as long as fast sync tolerates has finalized blocks
		nv, weights = 4, []uint64{1, 1, 1, 9}
	}
	var pre uint64
	if kind == "deep" {
		pre = 5
	}
	a, err := exh.New(exh.Options{N: nv, Listen: true, Weights: weights, PreCommit: pre, Certificate: pre})
	if err != nil {
		panic(err)
	}
	b, err := exh.New(exh.Options{N: nv, Listen: true, GenesisTime: a.Opt.GenesisTime, Weights: weights, PreCommit: pre, Certificate: pre})
	if err != nil {
		panic(err)
	}
	abandoned := false // the sync did not return in time: its goroutine still owns both nodes, nothing is closed under it
	defer func() {
		if !abandoned {
			a.DB.Close()
			b.DB.Close()
		}
	}()
	h := &Hist{K: "hist", N: nv, Genesis: hex.EncodeToString(a.Genesis.Header.ID), SyncKind: kind}
	d := &drv{n: a, r: r, h: h, scripts: map[string]*exh.Script{}, txAt: map[uint32]*blockchain.Transaction{}}
	a.DrainEvents()
	clone := func(x *blockchain.Block) *blockchain.Block {
		c, err := blockchain.NewBlock(x.Encode())
		if err != nil {
			panic(err)
		}
		return c
	}
	// common prefix long enough for finality to advance with every further block
	prefix := 2*nv + 2 + r.Intn(3)
	for i := 0; i < prefix; i++ {
		a.ABI.S = nil
		blk := a.NextValid(exh.Build{})
		s := &Step{Op: "apply", ID: hex.EncodeToString(blk.Header.ID), OK: true, P: d.postPrecommit(blk), What: "common prefix"}
		res := a.ProcessValidated(blk, false)
		s.Class = exh.ErrClass(res)
		d.observe(s)
		if rb := b.ProcessValidated(clone(blk), false); !rb.OK() {
			panic("peer rejects prefix block")
		}
	}
	own := 1 + r.Intn(2)
	if kind == "deep" {
		own = 2*nv - 2 // the fork point is the oldest height fast sync still offers as common block
	}
	for i := 0; i < own; i++ {
		bo := exh.Build{}
		if kind == "deep" {
			bo.By = a.Vals[3]
		}
		blk := a.NextValid(bo)
		d.remember(blk)
		s := &Step{Op: "apply", ID: hex.EncodeToString(blk.Header.ID), OK: true, P: d.postPrecommit(blk), What: "own fork"}
		s.Class = exh.ErrClass(a.ProcessValidated(blk, false))
		d.observe(s)
	}
	peerLen := own + 1 + r.Intn(nv)
	switch kind {
	case "block":
		peerLen = own + 2*nv + 2 + r.Intn(3)
	case "poison":
		peerLen = own + 2 + r.Intn(nv-1)
	case "deep":
		peerLen = own + 2
	}
	var poison []byte
	for i := 0; i < peerLen; i++ {
		skip := 0
		if i == 0 {
			skip = nv // same generator as A's first fork block, a later slot: a different block at the same height
		}
		pbo := exh.Build{SkipSlots: skip}
		if kind == "deep" {
			pbo.By = b.Vals[3]
		}
		pb := b.NextValid(pbo)
		if rb := b.ProcessValidated(pb, false); !rb.OK() {
			panic(fmt.Sprintf("peer fork block rejected: %v", rb.Err))
		}
		d.remember(pb)
		if kind == "poison" && i == 1+r.Intn(peerLen-1) && poison == nil {
			poison = pb.Header.ID
		}
	}
	if kind == "poison" && poison == nil {
		poison = b.Tip().Header.ID
	}
	if err := a.StartNet(); err != nil {
		panic(err)
	}
	if err := b.StartNet(); err != nil {
		panic(err)
	}
	defer func() {
		if !abandoned {
			a.StopNet()
			b.StopNet()
		}
	}()
	if err := a.ConnectTo(b); err != nil {
		panic(err)
	}
	// probe at every step boundary inside the sync
	var pending *Step
	finish := func() {
		if pending == nil {
			return
		}
		if pending.Op == "apply" {
			pending.OK = hex.EncodeToString(a.Tip().Header.ID) == pending.ID
			if pending.OK {
				pending.Class = "ok"
			} else {
				pending.Class = "rejected"
			}
		} else {
			pending.Class = "ok"
			if a.Tip().Header.Height >= pending.H {
				pending.Class = "refused"
				pending.OK = false
			}
		}
		d.observe(pending)
		pending = nil
	}
	a.ABI.S = nil
	var frozen atomic.Bool
	a.ABI.OnInit = func(hd *blockchain.BlockHeader) {
		if frozen.Load() {
			return
		}
		finish()
		tip := a.Tip().Header
		if hex.EncodeToString(tip.ID) == hex.EncodeToString(hd.ID) {
			pending = &Step{Op: "delete", H: tip.Height, OK: true, What: "sync via Executer.process: delete till common block"}
			return
		}
		blk := &blockchain.Block{Header: hd}
		pending = &Step{Op: "apply", ID: hex.EncodeToString(hd.ID), P: d.postPrecommit(blk), OKImpl: true,
			What: "sync via Executer.process: apply downloaded block (syncing flag set)"}
		a.ABI.S = nil
		if poison != nil && hex.EncodeToString(poison) == hex.EncodeToString(hd.ID) {
			// the node's application refuses this one block of the peer's chain: the sync fails half way
			a.ABI.S = &exh.Script{FailAfterTxs: true}
			pending.What = "sync via Executer.process: downloaded block REJECTED by the node (restore follows)"
		} else if _, mine := d.h.Digests[pending.ID]; mine && a.HeaderAt(hd.Height) == nil && poison != nil && a.Tip().Header.Height < hd.Height {
			pending.What = "sync via Executer.process: apply / restore block"
		}
	}
	done := make(chan exh.Result, 1)
	go func() { done <- a.ProcessFrom(clone(b.Tip()), b.Conn.Peer.ID()) }()
	select {
	case res := <-done:
		a.ABI.OnInit = nil
		finish()
		h.SyncRes = exh.ErrClass(res)
		s := &Step{Op: "cleartemp", OK: true, What: "sync via Executer.process returned: " + exh.ErrClass(res)}
		d.observe(s)
		h.SyncTip = hex.EncodeToString(a.Tip().Header.ID) == hex.EncodeToString(b.Tip().Header.ID)
	case <-time.After(40 * time.Second):
		// abandon: the goroutine may still be inside the sync; it keeps its nodes (never closed), its probe is frozen so that it
		// cannot touch the history that is about to be written
		abandoned = true
		frozen.Store(true)
		h.SyncHang = true
		steps := make([]Step, len(h.Steps))
		copy(steps, h.Steps)
		return &Hist{K: "hist", N: nv, Genesis: h.Genesis, SyncKind: kind, SyncHang: true, Steps: steps, Digests: nil}
	}
	// the first block processed after the sync
	if !h.SyncHang {
		blk := a.NextValid(exh.Build{})
		s := &Step{Op: "apply", ID: hex.EncodeToString(blk.Header.ID), OK: true, P: d.postPrecommit(blk), What: "first block after the sync"}
		s.Class = exh.ErrClass(a.Process(blk))
		d.observe(s)
	}
	_ = hi
	return h
}

func main() {
	out := flag.String("out", "cases.jsonl", "output")
	syncs := flag.Int("syncs", 2, "number of two-node histories whose sync is entered through Executer.process")
	hists := flag.Int("hists", 12, "number of histories")
	steps := flag.Int("steps", 30, "top-level steps per history")
	flag.Parse()
	r := hx.NewRng(hx.SeedFromEnv())
	o := hx.NewOut(*out)
	defer o.Close()
	defer func() {
		if p := recover(); p != nil {
			o.Close()
			fmt.Fprintln(os.Stderr, "c04 harness failure:", p)
			os.Exit(3)
		}
	}()
	kinds := []string{"fast", "poison", "deep", "block"}
	for si := 0; si < *syncs; si++ {
		// real loopback libp2p with a 3 s response timeout: under load a run can hang or fail for reasons outside the code under
		// test; a run that does not show the behaviour of its kind is repeated up to 2 more times, the last one is reported
		var hh *Hist
		for attempt := 1; attempt <= 3; attempt++ {
			hh = syncViaProcess(r, si, kinds[si%len(kinds)])
			hh.Attempts = attempt
			hh.Shows = syncShowsKind(hh)
			o.Put(hh) // every attempt is a history whose invariants are checked
			if hh.Shows {
				break
			}
		}
	}
	for hi := 0; hi < *hists; hi++ {
		opt := exh.Options{N: 1 + r.Intn(5)}
		if hi%2 == 1 && opt.N < 2 {
			opt.N = 2 // these histories end with a tie-break: two generators needed
		}
		if opt.N >= 2 && r.Bool() {
			// unequal BFT weights (thresholds stay at two thirds of the total): finality advances in jumps
			for i := 0; i < opt.N; i++ {
				opt.Weights = append(opt.Weights, uint64(1+r.Intn(3)))
			}
		}
		if r.Intn(3) == 0 {
			opt.KeepEvents, opt.KeepEventsSet = r.Intn(3), true
		}
		n, err := exh.New(opt)
		if err != nil {
			panic(err)
		}
		h := &Hist{K: "hist", N: opt.N, Genesis: hex.EncodeToString(n.Genesis.Header.ID)}
		d := &drv{n: n, r: r, h: h, scripts: map[string]*exh.Script{}, txAt: map[uint32]*blockchain.Transaction{}}
		n.DrainEvents()
		for si := 0; si < *steps; si++ {
			switch c := r.Intn(100); {
			case c < 55:
				d.applyValid("valid successor")
			case c < 65:
				d.applyInvalid()
			case c < 75:
				d.deleteTip(r.Bool(), "delete tip")
			case c < 80:
				// delete everything that can be deleted: the last request is at the finalized height
				for d.deleteTip(false, "delete down to the finalized height") {
				}
			case c < 85:
				d.deleteFinalized()
			case c < 93:
				d.fork()
			case c < 98:
				s := &Step{Op: "restart", OK: true, What: "restart: close, reopen, Init/PrepareCache"}
				if err := n.Restart(); err != nil {
					panic(err)
				}
				d.observe(s)
				// right after the restart (volatile state rebuilt): requests at and below the finalized height
				if r.Intn(3) > 0 {
					d.deleteFinalized()
					for d.deleteTip(false, "after restart: delete down to the finalized height") {
					}
				}
			default:
				s := &Step{Op: "cleartemp", OK: true, What: "ClearTempBlocks"}
				n.Chain.DataAccess().ClearTempBlocks()
				d.observe(s)
			}
		}
		// last: every second history ends with a tie-break through Executer.process (valid / invalid competitor alternately; the
		// competitor sits in the current wall-clock slot, so nothing can follow it), the others with the dup-tx scenario (C05's
		// known finding seen from C04: the finalized block's body becomes unretrievable)
		if hi%2 == 1 {
			d.tieBreak(hi%4 == 1)
		} else {
			d.dupTx()
		}
		o.Put(h)
	}
}
