package main

// Shutdown scenarios: a full p2p.Connection (NewConnection / Start / RequestFrom / Stop, all public) is stopped while
// requests are in flight. "plain": Stop() while the requests are waiting. "race-timeout": resMu is held (a response handler
// descheduled in its critical section), Stop() is called, then the requests' timers fire; then the lock is released.
// Oracle: every call returns a response or a non-nil error - never neither - and nothing panics or hangs.

import (
	"context"
	"fmt"
	"sync"
	"time"

	"github.com/LiskHQ/lisk-engine/pkg/log"
	"github.com/LiskHQ/lisk-engine/pkg/p2p"
)

type shutCall struct {
	Class     string `json:"class"` // ok | err | neither | panic | hang
	Err       string `json:"err"`
	ElapsedMs int    `json:"elapsed_ms"`
}

type shutRec struct {
	K        string     `json:"k"`
	Scenario string     `json:"scenario"`
	Calls    []shutCall `json:"calls"`
	StopErr  string     `json:"stop_err"`
	StopHang bool       `json:"stop_hang"`
	Pending  int        `json:"pending"` // len(resCh) of the stopped node afterwards (-1: resMu not acquirable)
	Setup    string     `json:"setup,omitempty"`
	Panic    string     `json:"panic,omitempty"`
}

func runShutdown(scenario string) (rec shutRec) {
	rec = shutRec{K: "shutdown", Scenario: scenario, Calls: []shutCall{}}
	defer func() {
		if r := recover(); r != nil {
			rec.Panic = fmt.Sprint(r)
		}
	}()
	lg, _ := log.NewSilentLogger()
	mk := func(h p2p.RPCHandler) (*p2p.Connection, error) {
		c := p2p.NewConnection(lg, &p2p.Config{ChainID: []byte{4, 0, 1, 2}, Addresses: []string{"/ip4/127.0.0.1/tcp/0"}})
		if err := c.RegisterRPCHandler(proc, h, p2p.WithRPCMessageCounter(1<<30, 0)); err != nil {
			return nil, err
		}
		if err := c.Start([]byte{}); err != nil {
			return nil, err
		}
		return c, nil
	}
	a, err := mk(func(w p2p.ResponseWriter, r *p2p.Request) {})
	if err != nil {
		rec.Setup = "A: " + err.Error()
		return rec
	}
	b, err := mk(func(w p2p.ResponseWriter, r *p2p.Request) {
		time.Sleep(scaled(600 * time.Millisecond)) // the reply comes long after the requester's deadline and after the stop
		w.Write([]byte("late"))
	})
	if err != nil {
		rec.Setup = "B: " + err.Error()
		_ = a.Stop()
		return rec
	}
	defer func() { _ = b.Stop() }()
	addrs, err := b.MultiAddress()
	if err != nil || len(addrs) == 0 {
		rec.Setup = "B has no address"
		_ = a.Stop()
		return rec
	}
	info, err := p2p.AddrInfoFromMultiAddr(addrs[0])
	if err != nil {
		rec.Setup = err.Error()
		_ = a.Stop()
		return rec
	}
	cctx, ccancel := context.WithTimeout(context.Background(), scaled(5*time.Second))
	err = a.Connect(cctx, *info)
	ccancel()
	if err != nil {
		rec.Setup = "connect: " + err.Error()
		_ = a.Stop()
		return rec
	}
	timeout := scaled(120 * time.Millisecond)
	p2p.VerifC17ConnSetTimeout(a, timeout)

	const n = 6
	rec.Calls = make([]shutCall, n)
	var wg sync.WaitGroup
	for i := 0; i < n; i++ {
		wg.Add(1)
		go func(i int) {
			defer wg.Done()
			t0 := time.Now()
			done := make(chan shutCall, 1)
			go func() {
				c := shutCall{}
				defer func() {
					if r := recover(); r != nil {
						c.Class, c.Err = "panic", fmt.Sprint(r)
					}
					done <- c
				}()
				resp := a.RequestFrom(context.Background(), b.ID(), proc, []byte("x"))
				switch {
				case resp.Error() != nil:
					c.Class, c.Err = "err", errClass(resp.Error())
				case resp.Data() != nil:
					c.Class = "ok"
				default:
					c.Class = "neither"
				}
			}()
			select {
			case c := <-done:
				rec.Calls[i] = c
			case <-time.After(scaled(8 * time.Second)):
				rec.Calls[i] = shutCall{Class: "hang"}
			}
			rec.Calls[i].ElapsedMs = int(time.Since(t0) / time.Millisecond)
		}(i)
	}
	stopDone := make(chan error, 1)
	switch scenario {
	case "plain":
		time.Sleep(scaled(40 * time.Millisecond))
		go func() { stopDone <- a.Stop() }()
	default: // race-timeout
		time.Sleep(scaled(30 * time.Millisecond))
		go p2p.VerifC17ConnHoldResMu(a, scaled(150*time.Millisecond)) // 30 ms .. 180 ms, the deadline is at ~120 ms (all scaled)
		time.Sleep(scaled(30 * time.Millisecond))
		go func() { stopDone <- a.Stop() }() // 60 ms: before the deadline, while resMu is held
	}
	wg.Wait()
	select {
	case err := <-stopDone:
		if err != nil {
			rec.StopErr = err.Error()
		}
	case <-time.After(scaled(10 * time.Second)):
		rec.StopHang = true
	}
	rec.Pending = p2p.VerifC17ConnPending(a, scaled(3*time.Second))
	return rec
}

func errClass(err error) string {
	t := err.Error()
	if len(t) > 80 {
		t = t[:80]
	}
	return t
}
