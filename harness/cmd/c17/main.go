// C17 correspondence driver: request/response layer of pkg/p2p between two real loopback libp2p hosts.
//
// The responder's RPC handler follows a per-attempt *plan* carried in the request payload: reply latency (well before /
// well after / around the requester's timeout), an early crafted reply sent before the handler returns, duplicate replies,
// replies carrying a wrong request ID. Late replies of attempt k arrive while attempt k+1 is waiting (stale replies).
// Requests may be cancelled while waiting. Many calls run concurrently. One JSON record per call: the plan and the observed
// outcome (class, which attempt's reply was delivered and of which kind, number of attempts the responder saw), plus one
// record per batch: len(resCh) afterwards on both sides (-1 = resMu cannot be acquired), hang flag from the watchdog.
package main

import (
	"context"
	"encoding/json"
	"errors"
	"flag"
	"fmt"
	"os"
	"strings"
	"sync"
	"sync/atomic"
	"time"

	"github.com/LiskHQ/lisk-engine/pkg/p2p"

	"verifharness/internal/hx"
)

const proc = "echo"

// attempt plan
type aplan struct {
	Lat   int  `json:"lat"`   // ms before the handler returns (its normal reply is sent right after)
	Late  bool `json:"late"`  // classification: true = well after the timeout, false = well before
	Early bool `json:"early"` // crafted reply with the right ID sent immediately, before the handler sleeps
	Dups  int  `json:"dups"`  // duplicates of the normal reply (same ID), sent DupGap ms after the normal one each
	DupMs int  `json:"dupms"` // gap before each duplicate
	Wrong bool `json:"wrong"` // crafted reply with a wrong request ID sent immediately
}

type callPlan struct {
	Call     int     `json:"call"`
	Attempts []aplan `json:"attempts"` // exactly retries+1 entries
	CancelMs int     `json:"cancel"`   // cancel the context after this many ms (0 = never)
	Strict   bool    `json:"strict"`   // latencies have wide margins: the outcome is determined by the plan
}

type callRec struct {
	K         string   `json:"k"`
	Batch     int      `json:"batch"`
	TimeoutMs int      `json:"timeout_ms"`
	Plan      callPlan `json:"plan"`
	Class     string   `json:"class"`    // ok | timeout | cancelled | other | hang
	Err       string   `json:"err"`      // error text for other
	PayAtt    int      `json:"pay_att"`  // attempt number in the delivered payload (0 if none)
	PayKind   string   `json:"pay_kind"` // N normal, E early, D duplicate, W wrong-id, ? unparsable
	PayCall   int      `json:"pay_call"` // call number in the delivered payload
	Attempts  int      `json:"attempts"` // requests of this call seen by the responder
	ElapsedMs int      `json:"elapsed_ms"`
	Panic     string   `json:"panic,omitempty"`
}

type batchRec struct {
	K          string `json:"k"`
	Batch      int    `json:"batch"`
	Kind       string `json:"kind"`
	Calls      int    `json:"calls"`
	Pending    int    `json:"pending"`      // requester len(resCh) after all calls returned and late replies drained
	PendingRsp int    `json:"pending_resp"` // responder side
	Hang       bool   `json:"hang"`
	Completed  int    `json:"completed"`
}

type responder struct {
	mu    sync.Mutex
	seen  map[int]int // call -> attempts seen
	node  *p2p.VerifC17Node
	reqer func() p2p.PeerID
	wg    sync.WaitGroup
}

func (r *responder) handler(w p2p.ResponseWriter, req *p2p.Request) {
	var cp callPlan
	if err := json.Unmarshal(req.Data, &cp); err != nil {
		w.Write([]byte("bad-plan"))
		return
	}
	r.mu.Lock()
	r.seen[cp.Call]++
	att := r.seen[cp.Call]
	r.mu.Unlock()
	idx := att - 1
	if idx >= len(cp.Attempts) {
		idx = len(cp.Attempts) - 1
	}
	pl := cp.Attempts[idx]
	pay := func(kind string) []byte { return []byte(fmt.Sprintf("c%d:a%d:%s", cp.Call, att, kind)) }
	ctx := context.Background()
	to := r.reqer()
	if pl.Wrong {
		_ = r.node.Respond(ctx, to, "wrong-"+req.ID, proc, pay("W"))
	}
	if pl.Early {
		_ = r.node.Respond(ctx, to, req.ID, proc, pay("E"))
	}
	if pl.Lat > 0 {
		time.Sleep(time.Duration(pl.Lat) * time.Millisecond)
	}
	if pl.Dups > 0 {
		id := req.ID
		r.wg.Add(1)
		go func() {
			defer r.wg.Done()
			for i := 0; i < pl.Dups; i++ {
				time.Sleep(time.Duration(pl.DupMs) * time.Millisecond)
				_ = r.node.Respond(ctx, to, id, proc, pay("D"))
			}
		}()
	}
	w.Write(pay("N"))
}

func classify(data []byte, err error) (class, etxt string, pc, pa int, pk string) {
	if err != nil {
		switch {
		case errors.Is(err, p2p.VerifC17ErrTimeout):
			return "timeout", "", 0, 0, ""
		case errors.Is(err, context.Canceled), errors.Is(err, context.DeadlineExceeded):
			return "cancelled", "", 0, 0, ""
		}
		return "other", err.Error(), 0, 0, ""
	}
	var k string
	if n, _ := fmt.Sscanf(strings.ReplaceAll(string(data), ":", " "), "c%d a%d %s", &pc, &pa, &k); n != 3 {
		return "ok", "", 0, 0, "?"
	}
	return "ok", "", pc, pa, k
}

type env struct {
	req, rsp *p2p.VerifC17Node
	r        *responder
}

func newEnv(timeout time.Duration) *env {
	r := &responder{seen: map[int]int{}}
	rsp, err := p2p.VerifC17NewNode(0, map[string]p2p.RPCHandler{proc: r.handler})
	if err != nil {
		panic(err)
	}
	r.node = rsp
	req, err := p2p.VerifC17NewNode(timeout, map[string]p2p.RPCHandler{proc: func(w p2p.ResponseWriter, q *p2p.Request) {}})
	if err != nil {
		panic(err)
	}
	r.reqer = req.ID
	ctx, cancel := context.WithTimeout(context.Background(), 10*time.Second)
	defer cancel()
	if err := req.Connect(ctx, rsp); err != nil {
		panic(err)
	}
	return &env{req: req, rsp: rsp, r: r}
}

func (e *env) close() { e.req.Close(); e.rsp.Close() }

// runBatch runs all calls concurrently and returns their records (in plan order) and the batch record.
func runBatch(e *env, batch int, kind string, timeoutMs int, plans []callPlan, settleMs int) ([]callRec, batchRec) {
	recs := make([]callRec, len(plans))
	var done int64
	var wg sync.WaitGroup
	budget := time.Duration((p2p.VerifC17MaxRetries+1)*(timeoutMs+400)+3000) * time.Millisecond
	for i := range plans {
		wg.Add(1)
		go func(i int) {
			defer wg.Done()
			cp := plans[i]
			rec := callRec{K: "call", Batch: batch, TimeoutMs: timeoutMs, Plan: cp}
			defer func() {
				if x := recover(); x != nil {
					rec.Class, rec.Panic = "other", fmt.Sprint(x)
				}
				recs[i] = rec
				atomic.AddInt64(&done, 1)
			}()
			data, _ := json.Marshal(cp)
			ctx, cancel := context.WithCancel(context.Background())
			defer cancel()
			if cp.CancelMs > 0 {
				t := time.AfterFunc(time.Duration(cp.CancelMs)*time.Millisecond, cancel)
				defer t.Stop()
			}
			type res struct {
				d   []byte
				err error
			}
			ch := make(chan res, 1)
			t0 := time.Now()
			go func() {
				d, err := e.req.Request(ctx, e.rsp.ID(), proc, data)
				ch <- res{d, err}
			}()
			select {
			case r := <-ch:
				rec.Class, rec.Err, rec.PayCall, rec.PayAtt, rec.PayKind = classify(r.d, r.err)
			case <-time.After(budget):
				rec.Class = "hang"
			}
			rec.ElapsedMs = int(time.Since(t0) / time.Millisecond)
		}(i)
	}
	wg.Wait()
	// let late replies and duplicates arrive, then look at the tables
	time.Sleep(time.Duration(settleMs) * time.Millisecond)
	e.r.wg.Wait()
	time.Sleep(50 * time.Millisecond)
	br := batchRec{K: "batch", Batch: batch, Kind: kind, Calls: len(plans), Completed: int(atomic.LoadInt64(&done))}
	br.Pending = e.req.Pending(time.Second)
	br.PendingRsp = e.rsp.Pending(time.Second)
	e.r.mu.Lock()
	for i := range recs {
		recs[i].Attempts = e.r.seen[recs[i].Plan.Call]
		if recs[i].Class == "hang" {
			br.Hang = true
		}
	}
	e.r.mu.Unlock()
	if br.Pending < 0 || br.PendingRsp < 0 {
		br.Hang = true
	}
	return recs, br
}

func detPlans(r *hx.Rng, n int, timeoutMs int, base int) []callPlan {
	nAtt := p2p.VerifC17MaxRetries + 1
	late := timeoutMs * 2
	onTime := func() int { return []int{0, 0, 5, 15, 30}[r.Intn(5)] }
	var out []callPlan
	mk := func(f func(cp *callPlan)) {
		cp := callPlan{Call: base + len(out) + 1, Strict: true}
		for i := 0; i < nAtt; i++ {
			cp.Attempts = append(cp.Attempts, aplan{Lat: onTime()})
		}
		f(&cp)
		out = append(out, cp)
	}
	// one of each shape first, then random mixtures
	mk(func(cp *callPlan) {})                                                      // on time
	mk(func(cp *callPlan) { cp.Attempts[0].Lat = 0; cp.Attempts[0].Early = true }) // early reply + normal reply
	mk(func(cp *callPlan) {
		cp.Attempts[0].Early = true
		cp.Attempts[0].Lat = late
		cp.Attempts[0].Late = false
	}) // early reply only in time
	mk(func(cp *callPlan) { cp.Attempts[0].Dups = 2; cp.Attempts[0].DupMs = 0 })  // duplicates racing the normal reply
	mk(func(cp *callPlan) { cp.Attempts[0].Dups = 2; cp.Attempts[0].DupMs = 60 }) // duplicates after the call ended
	mk(func(cp *callPlan) { cp.Attempts[0].Wrong = true })                        // wrong ID + normal
	mk(func(cp *callPlan) {                                                       // all late: retries exhausted
		for i := range cp.Attempts {
			cp.Attempts[i].Lat, cp.Attempts[i].Late = late, true
		}
	})
	for k := 1; k < nAtt; k++ { // k late attempts, then on time (stale replies arrive during the later waits)
		k := k
		mk(func(cp *callPlan) {
			for i := 0; i < k; i++ {
				cp.Attempts[i].Lat, cp.Attempts[i].Late = late, true
			}
		})
	}
	mk(func(cp *callPlan) { cp.Attempts[0].Lat, cp.Attempts[0].Late = late, true; cp.CancelMs = timeoutMs / 3 }) // cancel while waiting
	mk(func(cp *callPlan) {                                                                                      // wrong ID only in time, then normal late; second attempt on time with duplicates
		cp.Attempts[0] = aplan{Lat: late, Late: true, Wrong: true}
		cp.Attempts[1].Dups, cp.Attempts[1].DupMs = 1, 5
	})
	for len(out) < n {
		mk(func(cp *callPlan) {
			nl := r.Intn(nAtt + 1)
			if r.Intn(3) == 0 {
				nl = 0
			}
			for i := 0; i < nl && i < nAtt; i++ {
				cp.Attempts[i].Lat, cp.Attempts[i].Late = late, true
			}
			for i := range cp.Attempts {
				a := &cp.Attempts[i]
				if r.Intn(5) == 0 && !a.Late {
					a.Early = true
				}
				if r.Intn(4) == 0 {
					a.Dups, a.DupMs = 1+r.Intn(2), []int{0, 3, 40}[r.Intn(3)]
				}
				if r.Intn(5) == 0 {
					a.Wrong = true
				}
			}
			if r.Intn(8) == 0 && cp.Attempts[0].Late {
				cp.CancelMs = timeoutMs / 3
			}
		})
	}
	return out
}

func racePlans(r *hx.Rng, n int, timeoutMs int, base int) []callPlan {
	nAtt := p2p.VerifC17MaxRetries + 1
	var out []callPlan
	for i := 0; i < n; i++ {
		cp := callPlan{Call: base + i + 1, Strict: false}
		for k := 0; k < nAtt; k++ {
			a := aplan{Lat: timeoutMs - 3 + r.Intn(6)}
			if r.Intn(4) == 0 {
				a.Dups, a.DupMs = 1, r.Intn(3)
			}
			cp.Attempts = append(cp.Attempts, a)
		}
		out = append(out, cp)
	}
	return out
}

func main() {
	out := flag.String("out", "", "output JSONL")
	in := flag.String("in", "", "replay: JSONL of call records; their plans are re-run one batch per distinct (batch,timeout)")
	ndet := flag.Int("det", 40, "calls in the deterministic (wide margin) batch")
	nrounds := flag.Int("rounds", 1, "number of deterministic batches")
	raceRounds := flag.Int("race", 12, "rounds of the racing batch (latency ~ timeout)")
	raceCalls := flag.Int("racecalls", 16, "concurrent calls per racing round")
	timeoutMs := flag.Int("timeout", 300, "requester timeout for the deterministic batches, ms")
	raceTimeoutMs := flag.Int("racetimeout", 8, "requester timeout for the racing batches, ms")
	flag.Parse()
	if *out == "" {
		fmt.Fprintln(os.Stderr, "-out required")
		os.Exit(2)
	}
	go func() { // global watchdog
		time.Sleep(240 * time.Second)
		fmt.Fprintln(os.Stderr, "c17: global watchdog expired")
		os.Exit(3)
	}()
	r := hx.NewRng(hx.SeedFromEnv())
	o := hx.NewOut(*out)
	defer o.Close()

	if *in != "" {
		data, err := os.ReadFile(*in)
		if err != nil {
			panic(err)
		}
		groups := map[string][]callPlan{}
		tmo := map[string]int{}
		var order []string
		for _, line := range strings.Split(string(data), "\n") {
			if strings.TrimSpace(line) == "" {
				continue
			}
			var rec callRec
			if err := json.Unmarshal([]byte(line), &rec); err != nil || rec.K != "call" {
				continue
			}
			key := fmt.Sprintf("%d/%d", rec.Batch, rec.TimeoutMs)
			if _, ok := groups[key]; !ok {
				order = append(order, key)
			}
			groups[key] = append(groups[key], rec.Plan)
			tmo[key] = rec.TimeoutMs
		}
		for bi, key := range order {
			e := newEnv(time.Duration(tmo[key]) * time.Millisecond)
			recs, br := runBatch(e, bi+1, "replay", tmo[key], groups[key], 2*tmo[key]+150)
			for _, rec := range recs {
				o.Put(rec)
			}
			o.Put(br)
			if !br.Hang {
				e.close()
			}
		}
		return
	}

	batch := 0
	for i := 0; i < *nrounds; i++ {
		batch++
		e := newEnv(time.Duration(*timeoutMs) * time.Millisecond)
		plans := detPlans(r, *ndet, *timeoutMs, batch*1000)
		recs, br := runBatch(e, batch, "det", *timeoutMs, plans, 2*(*timeoutMs)+150)
		for _, rec := range recs {
			o.Put(rec)
		}
		o.Put(br)
		if !br.Hang {
			e.close()
		}
	}
	if *raceRounds > 0 {
		e := newEnv(time.Duration(*raceTimeoutMs) * time.Millisecond)
		for i := 0; i < *raceRounds; i++ {
			batch++
			plans := racePlans(r, *raceCalls, *raceTimeoutMs, batch*1000)
			recs, br := runBatch(e, batch, "race", *raceTimeoutMs, plans, 4*(*raceTimeoutMs)+30)
			for _, rec := range recs {
				o.Put(rec)
			}
			o.Put(br)
			if br.Hang {
				return
			}
		}
		e.close()
	}
}
