// C17 correspondence driver: request/response layer of pkg/p2p between two real loopback libp2p hosts.
//
// The responder's RPC handler follows a per-attempt *plan* carried in the request payload: reply latency (well before /
// well after / around the requester's timeout), an early crafted reply sent before the handler returns, duplicate replies,
// replies carrying a wrong request ID. Late replies of attempt k arrive while attempt k+1 is waiting (stale replies).
// Requests may be cancelled while waiting. Many calls run concurrently. One JSON record per call: the plan and the observed
// outcome (class, which attempt's reply was delivered and of which kind, number of attempts the responder saw), plus one
// record per batch: len(resCh) afterwards on both sides (-1 = resMu cannot be acquired), hang flag from the watchdog.
package main

import (
	"bytes"
	"context"
	"encoding/json"
	"errors"
	"flag"
	"fmt"
	"os"
	"runtime"
	"strings"
	"sync"
	"sync/atomic"
	"time"

	"github.com/LiskHQ/lisk-engine/pkg/p2p"

	"verifharness/internal/hx"
)

const proc = "echo"

// attempt plan
type aplan struct {
	Lat   int  `json:"lat"`   // ms before the handler returns (its normal reply is sent right after)
	LatUs int  `json:"latus"` // additional microseconds (may be negative) for the racing batches
	Late  bool `json:"late"`  // classification: true = well after the timeout, false = well before
	Early bool `json:"early"` // crafted reply with the right ID sent immediately, before the handler sleeps
	Dups  int  `json:"dups"`  // duplicates of the normal reply (same ID), sent DupGap ms after the normal one each
	DupMs int  `json:"dupms"` // gap before each duplicate
	Wrong bool `json:"wrong"` // crafted reply with a wrong request ID sent immediately
	Pad   int  `json:"pad"`   // bytes of padding appended to every reply payload of this attempt (large responses)
	PadTo int  `json:"padto"` // if > 0: the reply payload is padded to exactly this many bytes (encoder size boundaries)
	ErrRe bool `json:"errre"` // the handler answers with an ERROR response (w.Error) whose text is the tagged payload
	BadRe bool `json:"badre"` // a response with the right ID but a procedure nobody registered is sent at once (kind B): it must be
	// dropped before the lookup, never delivered (and gets the responder banned by the requester: last batch of its hosts)
}

type callPlan struct {
	Call     int     `json:"call"`
	Attempts []aplan `json:"attempts"` // exactly retries+1 entries
	CancelMs int     `json:"cancel"`   // cancel the context after this many ms (0 = never)
	StartMs  int     `json:"start"`    // delay before the call is issued (follow-up calls of a racing batch)
	ReqPad   int     `json:"reqpad"`   // bytes of padding appended to the request payload (large requests)
	Strict   bool    `json:"strict"`   // latencies have wide margins: the outcome is determined by the plan
}

type callRec struct {
	K         string   `json:"k"`
	Batch     int      `json:"batch"`
	BKind     string   `json:"bkind"`
	BLimit    int      `json:"blimit"`   // rate limit / penalty of the requester's handler registration in this batch (0 = package default)
	BPenalty  int      `json:"bpenalty"` // kind of the batch the call ran in (the held-lock kinds are replayed with the hold)
	TimeoutMs int      `json:"timeout_ms"`
	Plan      callPlan `json:"plan"`
	Class     string   `json:"class"`    // ok | timeout | cancelled | other | hang
	Err       string   `json:"err"`      // error text for other
	PayAtt    int      `json:"pay_att"`  // attempt number in the delivered payload (0 if none)
	PayKind   string   `json:"pay_kind"` // N normal, E early, D duplicate, W wrong-id, ? unparsable
	PayCall   int      `json:"pay_call"` // call number in the delivered payload
	PayLen    int      `json:"pay_len"`  // length of the delivered payload
	Attempts  int      `json:"attempts"` // requests of this call seen by the responder
	Accepted  []int    `json:"accepted"` // per attempt: responses accepted into the attempt's channel by the requester's onResponse
	Seen      []int    `json:"seen"`     // per attempt: responses carrying the attempt's ID decoded by the requester's onResponse
	ElapsedMs int      `json:"elapsed_ms"`
	Panic     string   `json:"panic,omitempty"`
}

type batchRec struct {
	K           string `json:"k"`
	Batch       int    `json:"batch"`
	Kind        string `json:"kind"`
	Calls       int    `json:"calls"`
	Pending     int    `json:"pending"`      // requester len(resCh) after all calls returned and late replies drained
	PendingRsp  int    `json:"pending_resp"` // responder side
	Hang        bool   `json:"hang"`
	StatsStable bool   `json:"stats_stable"` // the per-response statistics stopped changing before they were read
	Completed   int    `json:"completed"`
	// responses the requester dropped because its rate limiter returned an error (they are counted as "seen")
	LimiterErrors int     `json:"limiter_errors,omitempty"`
	Scale         float64 `json:"scale"` // load factor measured at start; every real-time margin was multiplied by it
}

type responder struct {
	mu    sync.Mutex
	seen  map[int]int      // call -> attempts seen
	ids   map[int][]string // call -> request ID of every attempt
	node  *p2p.VerifC17Node
	reqer func() p2p.PeerID
	wg    sync.WaitGroup
}

func (r *responder) handler(w p2p.ResponseWriter, req *p2p.Request) {
	var cp callPlan
	if err := json.Unmarshal(req.Data, &cp); err != nil {
		w.Write([]byte("bad-plan"))
		return
	}
	r.mu.Lock()
	r.seen[cp.Call]++
	att := r.seen[cp.Call]
	r.ids[cp.Call] = append(r.ids[cp.Call], req.ID)
	r.mu.Unlock()
	idx := att - 1
	if idx >= len(cp.Attempts) {
		idx = len(cp.Attempts) - 1
	}
	pl := cp.Attempts[idx]
	pay := func(kind string) []byte {
		b := []byte(fmt.Sprintf("c%d:a%d:%s", cp.Call, att, kind))
		if pl.Pad > 0 {
			b = append(b, ':')
			b = append(b, bytes.Repeat([]byte{'x'}, pl.Pad)...)
		}
		if pl.PadTo > len(b)+1 {
			b = append(b, ':')
			b = append(b, bytes.Repeat([]byte{'y'}, pl.PadTo-len(b))...)
		}
		return b
	}
	ctx := context.Background()
	to := r.reqer()
	if pl.Wrong {
		_ = r.node.Respond(ctx, to, "wrong-"+req.ID, proc, pay("W"))
	}
	if pl.Early {
		_ = r.node.Respond(ctx, to, req.ID, proc, pay("E"))
	}
	if pl.BadRe {
		_ = r.node.Respond(ctx, to, req.ID, "nosuch-procedure", pay("B"))
	}
	if d := time.Duration(pl.Lat)*time.Millisecond + time.Duration(pl.LatUs)*time.Microsecond; d > 0 {
		time.Sleep(d)
	}
	if pl.Dups > 0 {
		id := req.ID
		r.wg.Add(1)
		go func() {
			defer r.wg.Done()
			for i := 0; i < pl.Dups; i++ {
				time.Sleep(time.Duration(pl.DupMs) * time.Millisecond)
				_ = r.node.Respond(ctx, to, id, proc, pay("D"))
			}
		}()
	}
	if pl.ErrRe {
		w.Error(errors.New(string(pay("N"))))
		return
	}
	w.Write(pay("N"))
}

func classify(data []byte, err error) (class, etxt string, pc, pa int, pk string) {
	if err != nil {
		switch {
		case errors.Is(err, p2p.VerifC17ErrTimeout):
			return "timeout", "", 0, 0, ""
		case errors.Is(err, context.Canceled), errors.Is(err, context.DeadlineExceeded):
			return "cancelled", "", 0, 0, ""
		}
		var k string
		if n, _ := fmt.Sscanf(strings.ReplaceAll(err.Error(), ":", " "), "c%d a%d %s", &pc, &pa, &k); n == 3 {
			return "ok", "apperr", pc, pa, k // an ERROR response produced by the remote handler for this request: a delivered response
		}
		return "other", err.Error(), 0, 0, ""
	}
	var k string
	head := data
	if len(head) > 64 {
		head = head[:64]
	}
	if n, _ := fmt.Sscanf(strings.ReplaceAll(string(head), ":", " "), "c%d a%d %s", &pc, &pa, &k); n != 3 {
		return "ok", "", 0, 0, "?"
	}
	return "ok", "", pc, pa, k
}

// loadScale >= 1 is measured once at start (calibrate): how much later than asked a sleeping goroutine wakes up on this machine right
// now. Every real-time margin of the driver (watchdogs, lock probes, quiescence, the timeouts and holds of the margin-based batches)
// is multiplied by it, so that a loaded machine gets proportionally wider margins instead of false deviations.
var loadScale = 1.0

func calibrate() float64 {
	worst := time.Duration(0)
	for i := 0; i < 40; i++ {
		t0 := time.Now()
		time.Sleep(2 * time.Millisecond)
		if ov := time.Since(t0) - 2*time.Millisecond; ov > worst {
			worst = ov
		}
	}
	// CPU-bound probe with competing goroutines: time slices under contention
	t0 := time.Now()
	x := 0
	for i := 0; i < 30_000_000; i++ {
		x += i & 3
	}
	cpu := time.Since(t0)
	_ = x
	s := 1.0 + float64(worst)/float64(3*time.Millisecond)
	if c := float64(cpu) / float64(25*time.Millisecond); c > s {
		s = c
	}
	if s < 1 {
		s = 1
	}
	if s > 12 {
		s = 12
	}
	return s
}

func scaled(d time.Duration) time.Duration { return time.Duration(float64(d) * loadScale) }
func scaledMs(ms int) int                  { return int(float64(ms) * loadScale) }

type env struct {
	req, rsp       *p2p.VerifC17Node
	r              *responder
	limit, penalty int
}

func newEnv(timeout time.Duration) *env { return newEnvLimited(timeout, 1<<30, 0) }

// newEnvLimited: the REQUESTER's handler registration (which governs the responses it receives) uses the given rate limit
// (limit <= 0: the package default of 100 messages / penalty 10).
func newEnvLimited(timeout time.Duration, limit, penalty int) *env {
	r := &responder{seen: map[int]int{}, ids: map[int][]string{}}
	rsp, err := p2p.VerifC17NewNode(0, map[string]p2p.RPCHandler{proc: r.handler})
	if err != nil {
		panic(err)
	}
	r.node = rsp
	req, err := p2p.VerifC17NewNodeLimited(timeout, map[string]p2p.RPCHandler{proc: func(w p2p.ResponseWriter, q *p2p.Request) {}}, limit, penalty)
	if err != nil {
		panic(err)
	}
	r.reqer = req.ID
	ctx, cancel := context.WithTimeout(context.Background(), 10*time.Second)
	defer cancel()
	if err := req.Connect(ctx, rsp); err != nil {
		panic(err)
	}
	return &env{req: req, rsp: rsp, r: r, limit: limit, penalty: penalty}
}

func (e *env) close() { e.req.Close(); e.rsp.Close() }

// flood keeps the requester's response handler (and resMu) busy with responses that carry unknown request IDs, from n
// goroutines, until stop is closed. Only contention: these responses belong to nobody.
func (e *env) flood(n int, stop chan struct{}) *sync.WaitGroup {
	var wg sync.WaitGroup
	for i := 0; i < n; i++ {
		wg.Add(1)
		go func(i int) {
			defer wg.Done()
			ctx := context.Background()
			for k := 0; ; k++ {
				select {
				case <-stop:
					return
				default:
				}
				_ = e.rsp.Respond(ctx, e.req.ID(), fmt.Sprintf("flood-%d-%d", i, k), proc, []byte("flood"))
			}
		}(i)
	}
	return &wg
}

// runBatch runs all calls concurrently and returns their records (in plan order) and the batch record.
func runBatch(e *env, batch int, kind string, timeoutMs int, plans []callPlan, settleMs int, afterCalls func()) ([]callRec, batchRec) {
	recs := make([]callRec, len(plans))
	var done int64
	var wg sync.WaitGroup
	maxStart := 0
	for _, cp := range plans {
		if cp.StartMs > maxStart {
			maxStart = cp.StartMs
		}
	}
	budget := scaled(time.Duration((p2p.VerifC17MaxRetries+1)*(timeoutMs+400)+3000+maxStart) * time.Millisecond)
	for i := range plans {
		wg.Add(1)
		go func(i int) {
			defer wg.Done()
			cp := plans[i]
			rec := callRec{K: "call", Batch: batch, BKind: kind, BLimit: e.limit, BPenalty: e.penalty, TimeoutMs: timeoutMs, Plan: cp}
			defer func() {
				if x := recover(); x != nil {
					rec.Class, rec.Panic = "other", fmt.Sprint(x)
				}
				recs[i] = rec
				atomic.AddInt64(&done, 1)
			}()
			data, _ := json.Marshal(cp)
			if cp.ReqPad > 0 {
				data = append(data, bytes.Repeat([]byte{' '}, cp.ReqPad)...)
			}
			if cp.StartMs > 0 {
				time.Sleep(time.Duration(cp.StartMs) * time.Millisecond)
			}
			ctx, cancel := context.WithCancel(context.Background())
			defer cancel()
			if cp.CancelMs > 0 {
				t := time.AfterFunc(time.Duration(cp.CancelMs)*time.Millisecond, cancel)
				defer t.Stop()
			}
			type res struct {
				d   []byte
				err error
			}
			ch := make(chan res, 1)
			t0 := time.Now()
			go func() {
				d, err := e.req.Request(ctx, e.rsp.ID(), proc, data)
				ch <- res{d, err}
			}()
			select {
			case r := <-ch:
				rec.Class, rec.Err, rec.PayCall, rec.PayAtt, rec.PayKind = classify(r.d, r.err)
				rec.PayLen = len(r.d)
			case <-time.After(budget):
				rec.Class = "hang"
			}
			rec.ElapsedMs = int(time.Since(t0) / time.Millisecond)
		}(i)
	}
	wg.Wait()
	if afterCalls != nil {
		afterCalls()
	}
	// let late replies and duplicates arrive, then look at the tables
	time.Sleep(time.Duration(settleMs) * time.Millisecond)
	e.r.wg.Wait()
	time.Sleep(50 * time.Millisecond)
	br := batchRec{K: "batch", Batch: batch, Kind: kind, Calls: len(plans), Completed: int(atomic.LoadInt64(&done)), Scale: loadScale}
	br.Pending = e.req.Pending(scaled(3 * time.Second))
	br.PendingRsp = e.rsp.Pending(scaled(3 * time.Second))
	e.r.mu.Lock()
	// The acceptance statistics are read only once they are quiescent: a response handler that is still between decoding the
	// message and reporting what it did with it would make "accepted = seen - unknown - duplicate" too large for a moment.
	snapshot := func() map[string][3]int {
		m := map[string][3]int{}
		for i := range recs {
			for _, id := range e.r.ids[recs[i].Plan.Call] {
				a, b, c := e.req.ResponseStats(id)
				m[id] = [3]int{a, b, c}
			}
		}
		return m
	}
	stable := false
	stats := snapshot()
	// three equal snapshots, scaled(120 ms) apart: a handler would have to be stalled for more than twice that between two adjacent
	// statements, on a machine whose measured scheduling delay is already part of the gap
	equalRuns := 0
	for tries := 0; tries < 30 && equalRuns < 2; tries++ {
		time.Sleep(scaled(120 * time.Millisecond))
		again := snapshot()
		same := len(again) == len(stats)
		for id, v := range again {
			if stats[id] != v {
				same = false
			}
		}
		if same {
			equalRuns++
		} else {
			equalRuns = 0
		}
		stats = again
	}
	stable = equalRuns >= 2
	if e.req.LimiterErrors() > 0 {
		stable = false // responses dropped by a rate limiter error are counted as "seen": statistics unusable
		br.LimiterErrors = e.req.LimiterErrors()
	}
	br.StatsStable = stable
	for i := range recs {
		recs[i].Attempts = e.r.seen[recs[i].Plan.Call]
		recs[i].Accepted, recs[i].Seen = []int{}, []int{}
		for _, id := range e.r.ids[recs[i].Plan.Call] {
			v := stats[id]
			recs[i].Accepted = append(recs[i].Accepted, v[0]-v[1]-v[2])
			recs[i].Seen = append(recs[i].Seen, v[0])
		}
		if !stable {
			recs[i].Accepted, recs[i].Seen = nil, nil // unusable
		}
		if recs[i].Class == "hang" {
			br.Hang = true
		}
	}
	e.r.mu.Unlock()
	if br.Pending < 0 || br.PendingRsp < 0 {
		br.Hang = true
	}
	return recs, br
}

func detPlans(r *hx.Rng, n int, timeoutMs int, base int) []callPlan {
	nAtt := p2p.VerifC17MaxRetries + 1
	late := timeoutMs * 2
	onTime := func() int { return []int{0, 0, 5, 15, 30}[r.Intn(5)] }
	var out []callPlan
	mk := func(f func(cp *callPlan)) {
		cp := callPlan{Call: base + len(out) + 1, Strict: true}
		for i := 0; i < nAtt; i++ {
			cp.Attempts = append(cp.Attempts, aplan{Lat: onTime()})
		}
		f(&cp)
		out = append(out, cp)
	}
	// one of each shape first, then random mixtures
	mk(func(cp *callPlan) {})                                                      // on time
	mk(func(cp *callPlan) { cp.Attempts[0].Lat = 0; cp.Attempts[0].Early = true }) // early reply + normal reply
	mk(func(cp *callPlan) {
		cp.Attempts[0].Early = true
		cp.Attempts[0].Lat = late
		cp.Attempts[0].Late = false
	}) // early reply only in time
	mk(func(cp *callPlan) { cp.Attempts[0].Dups = 2; cp.Attempts[0].DupMs = 0 })  // duplicates racing the normal reply
	mk(func(cp *callPlan) { cp.Attempts[0].Dups = 2; cp.Attempts[0].DupMs = 60 }) // duplicates after the call ended
	mk(func(cp *callPlan) { cp.Attempts[0].Wrong = true })                        // wrong ID + normal
	mk(func(cp *callPlan) {                                                       // all late: retries exhausted
		for i := range cp.Attempts {
			cp.Attempts[i].Lat, cp.Attempts[i].Late = late, true
		}
	})
	for k := 1; k < nAtt; k++ { // k late attempts, then on time (stale replies arrive during the later waits)
		k := k
		mk(func(cp *callPlan) {
			for i := 0; i < k; i++ {
				cp.Attempts[i].Lat, cp.Attempts[i].Late = late, true
			}
		})
	}
	mk(func(cp *callPlan) { cp.Attempts[0].Lat, cp.Attempts[0].Late = late, true; cp.CancelMs = timeoutMs / 3 }) // cancel while waiting
	mk(func(cp *callPlan) {                                                                                      // wrong ID only in time, then normal late; second attempt on time with duplicates
		cp.Attempts[0] = aplan{Lat: late, Late: true, Wrong: true}
		cp.Attempts[1].Dups, cp.Attempts[1].DupMs = 1, 5
	})
	for len(out) < n {
		mk(func(cp *callPlan) {
			nl := r.Intn(nAtt + 1)
			if r.Intn(3) == 0 {
				nl = 0
			}
			for i := 0; i < nl && i < nAtt; i++ {
				cp.Attempts[i].Lat, cp.Attempts[i].Late = late, true
			}
			for i := range cp.Attempts {
				a := &cp.Attempts[i]
				if r.Intn(5) == 0 && !a.Late {
					a.Early = true
				}
				if r.Intn(4) == 0 {
					a.Dups, a.DupMs = 1+r.Intn(2), []int{0, 3, 40}[r.Intn(3)]
				}
				if r.Intn(5) == 0 {
					a.Wrong = true
				}
			}
			if r.Intn(8) == 0 && cp.Attempts[0].Late {
				cp.CancelMs = timeoutMs / 3
			}
		})
	}
	return out
}

func racePlans(r *hx.Rng, n int, timeoutMs int, base int) []callPlan {
	nAtt := p2p.VerifC17MaxRetries + 1
	var out []callPlan
	for i := 0; i < n; i++ {
		cp := callPlan{Call: base + i + 1, Strict: false}
		for k := 0; k < nAtt; k++ {
			a := aplan{Lat: timeoutMs - 3 + r.Intn(6)}
			if r.Intn(4) == 0 {
				a.Dups, a.DupMs = 1, r.Intn(3)
			}
			cp.Attempts = append(cp.Attempts, a)
		}
		out = append(out, cp)
	}
	return out
}

// deadlinePlans: every call of the batch starts at the same moment and every reply is timed to land around the requester's
// deadline with microsecond resolution: handler latency = timeout - o microseconds, o drawn around an adaptive centre (the
// centre follows the offset at which half of the first attempts are answered in time). All requesters and all response handlers
// then compete for resMu within the same few hundred microseconds.
func deadlinePlans(r *hx.Rng, n int, timeoutMs int, centerUs, widthUs int, base int) []callPlan {
	nAtt := p2p.VerifC17MaxRetries + 1
	var out []callPlan
	for i := 0; i < n; i++ {
		cp := callPlan{Call: base + i + 1, Strict: false}
		for k := 0; k < nAtt; k++ {
			o := centerUs - widthUs + r.Intn(2*widthUs+1)
			if o < 0 {
				o = 0
			}
			cp.Attempts = append(cp.Attempts, aplan{Lat: timeoutMs, LatUs: -o})
		}
		out = append(out, cp)
	}
	return out
}

// cancelRacePlans: n racing calls are cancelled after cancelMs while their reply is timed to land around the cancellation
// (microsecond offsets around an adaptive centre); n follow-up calls with immediate replies are issued right after the
// cancellations: each must get the reply produced for itself.
func cancelRacePlans(r *hx.Rng, n int, cancelMs int, centerUs, widthUs int, base int) []callPlan {
	nAtt := p2p.VerifC17MaxRetries + 1
	var out []callPlan
	for i := 0; i < n; i++ {
		cp := callPlan{Call: base + i + 1, Strict: false, CancelMs: cancelMs}
		o := centerUs - widthUs + r.Intn(2*widthUs+1)
		if o < 0 {
			o = 0
		}
		for k := 0; k < nAtt; k++ {
			cp.Attempts = append(cp.Attempts, aplan{Lat: cancelMs, LatUs: -o})
		}
		out = append(out, cp)
	}
	for i := 0; i < n; i++ {
		cp := callPlan{Call: base + n + i + 1, Strict: true, StartMs: cancelMs + r.Intn(4)}
		for k := 0; k < nAtt; k++ {
			cp.Attempts = append(cp.Attempts, aplan{})
		}
		out = append(out, cp)
	}
	return out
}

// largePlans: on-time replies and requests whose encoded size crosses 64 KiB, 1 MiB and 4 MiB (sync responses of 103 blocks are
// legitimately large). Generous timeout (the default 3 s), strict oracle: answered at the first attempt, full payload.
func largePlans(base int) []callPlan {
	nAtt := p2p.VerifC17MaxRetries + 1
	var out []callPlan
	mk := func(pad, reqpad int) {
		cp := callPlan{Call: base + len(out) + 1, Strict: true, ReqPad: reqpad}
		for k := 0; k < nAtt; k++ {
			cp.Attempts = append(cp.Attempts, aplan{Pad: pad})
		}
		out = append(out, cp)
	}
	for _, pad := range []int{64 << 10, 1<<20 - 200, 1<<20 + 1, 4 << 20} {
		mk(pad, 0)
	}
	for _, rp := range []int{64 << 10, 1<<20 + 1, 4 << 20} {
		mk(0, rp)
	}
	mk(1<<20+1, 1<<20+1)
	// payloads of exactly 2^7, 2^14, 2^21 bytes and their neighbours (length-prefix size boundaries of the codec)
	for _, n := range []int{1<<7 - 1, 1 << 7, 1<<7 + 1, 1<<14 - 1, 1 << 14, 1<<14 + 1, 1<<21 - 1, 1 << 21, 1<<21 + 1} {
		cp := callPlan{Call: base + len(out) + 1, Strict: true}
		for k := 0; k < nAtt; k++ {
			cp.Attempts = append(cp.Attempts, aplan{PadTo: n})
		}
		out = append(out, cp)
	}
	return out
}

// seqPlans: n on-time calls issued one after the other (gapMs apart); every errEvery-th call is answered with an ERROR response.
func seqPlans(n, gapMs, errEvery, base int) []callPlan {
	nAtt := p2p.VerifC17MaxRetries + 1
	var out []callPlan
	for i := 0; i < n; i++ {
		cp := callPlan{Call: base + i + 1, Strict: true, StartMs: i * gapMs}
		for k := 0; k < nAtt; k++ {
			cp.Attempts = append(cp.Attempts, aplan{ErrRe: errEvery > 0 && i%errEvery == errEvery-1})
		}
		out = append(out, cp)
	}
	return out
}

// heldTimeoutPlans: the reply arrives early (5 ms) but resMu is held (by the harness, standing for a response handler descheduled
// inside its critical section) from 2 ms until after the requester's deadline: the reply's handler queues on resMu, then the
// requester (timer fired) queues behind it. A reply accepted before the requester deregisters must be returned.
func heldTimeoutPlans(n int, base int) []callPlan {
	nAtt := p2p.VerifC17MaxRetries + 1
	var out []callPlan
	for i := 0; i < n; i++ {
		cp := callPlan{Call: base + i + 1, Strict: false}
		for k := 0; k < nAtt; k++ {
			a := aplan{Lat: 5}
			if i%2 == 1 {
				// surplus responses for the same request: the reply and two duplicates, all queued on resMu before the requester
				a.Dups, a.DupMs = 2, 0
			}
			cp.Attempts = append(cp.Attempts, a)
		}
		out = append(out, cp)
	}
	return out
}

// heldCancelPlans: as above, but the racing calls are cancelled while resMu is held (reply queued first, the cancelled requester
// behind it); follow-up calls issued after the release must each get the reply produced for themselves.
func heldCancelPlans(n, followups int, cancelMs, followMs int, base int) []callPlan {
	nAtt := p2p.VerifC17MaxRetries + 1
	var out []callPlan
	for i := 0; i < n; i++ {
		cp := callPlan{Call: base + i + 1, Strict: false, CancelMs: cancelMs}
		for k := 0; k < nAtt; k++ {
			cp.Attempts = append(cp.Attempts, aplan{Lat: 5})
		}
		out = append(out, cp)
	}
	for i := 0; i < followups; i++ {
		cp := callPlan{Call: base + n + i + 1, Strict: true, StartMs: followMs + i%8}
		for k := 0; k < nAtt; k++ {
			cp.Attempts = append(cp.Attempts, aplan{})
		}
		out = append(out, cp)
	}
	return out
}

// adapt moves the centre towards the offset at which half of the racing first attempts are answered in time.
func adapt(recs []callRec, center, round int) int {
	early, late := 0, 0
	for _, rec := range recs {
		if rec.Plan.Strict {
			continue
		}
		if rec.Class == "ok" && rec.PayAtt == 1 {
			early++
		} else {
			late++
		}
	}
	if early+late == 0 {
		return center
	}
	step := 160 / (1 + round/3)
	if step < 15 {
		step = 15
	}
	center += step * (2*late - (early + late)) / (early + late)
	if center < 0 {
		center = 0
	}
	return center
}

func main() {
	out := flag.String("out", "", "output JSONL")
	in := flag.String("in", "", "replay: JSONL of call records; their plans are re-run one batch per distinct (batch,timeout)")
	ndet := flag.Int("det", 40, "calls in the deterministic (wide margin) batch")
	nrounds := flag.Int("rounds", 1, "number of deterministic batches")
	raceRounds := flag.Int("race", 12, "rounds of the racing batch (latency ~ timeout)")
	raceCalls := flag.Int("racecalls", 16, "concurrent calls per racing round")
	timeoutMs := flag.Int("timeout", 300, "requester timeout for the deterministic batches, ms")
	raceTimeoutMs := flag.Int("racetimeout", 8, "requester timeout for the racing batches, ms")
	dlRounds := flag.Int("deadline", 10, "rounds of the deadline batch (replies within microseconds of the timer, all calls at once)")
	dlCalls := flag.Int("dlcalls", 48, "concurrent calls per deadline round")
	crRounds := flag.Int("cancelrace", 10, "rounds of the cancel-race batch (replies within microseconds of the cancellation + follow-up calls)")
	rescale := flag.Int("rescale", 1, "replay: multiply the timeouts (and what is defined relative to them) by this factor")
	doLarge := flag.Bool("large", true, "run the large-payload batch")
	doLimits := flag.Bool("limits", true, "run the batches with the default rate limit / a zero penalty and with ERROR responses")
	doShutdown := flag.Bool("shutdown", true, "run the shutdown scenarios (Connection.Stop with requests in flight)")
	heldRounds := flag.Int("held", 3, "rounds of the held-lock batches (resMu held across the deadline / the cancellation)")
	nflood := flag.Int("flood", 0, "goroutines flooding the requester with unknown-ID responses during the deadline / cancel-race rounds")
	crCalls := flag.Int("crcalls", 32, "racing calls per cancel-race round (plus as many follow-up calls)")
	flag.Parse()
	if *out == "" {
		fmt.Fprintln(os.Stderr, "-out required")
		os.Exit(2)
	}
	go func() { // global watchdog
		time.Sleep(900 * time.Second)
		fmt.Fprintln(os.Stderr, "c17: global watchdog expired")
		os.Exit(3)
	}()
	// the "silent" logger of the code under test still prints error-level lines with stack traces on stdout; this driver
	// writes nothing on stdout itself
	if devnull, err := os.OpenFile(os.DevNull, os.O_WRONLY, 0); err == nil {
		os.Stdout = devnull
	}
	r := hx.NewRng(hx.SeedFromEnv())
	o := hx.NewOut(*out)
	defer o.Close()
	loadScale = calibrate()
	o.Put(map[string]interface{}{"k": "env", "scale": loadScale})

	if *in != "" {
		data, err := os.ReadFile(*in)
		if err != nil {
			panic(err)
		}
		groups := map[string][]callPlan{}
		tmo := map[string]int{}
		kinds := map[string]string{}
		lims := map[string][2]int{}
		var order []string
		k := *rescale
		if k < 1 {
			k = 1
		}
		for _, line := range strings.Split(string(data), "\n") {
			if strings.TrimSpace(line) == "" {
				continue
			}
			var rec callRec
			if err := json.Unmarshal([]byte(line), &rec); err != nil || rec.K != "call" {
				continue
			}
			key := fmt.Sprintf("%d/%d/%s", rec.Batch, rec.TimeoutMs, rec.BKind)
			kinds[key] = rec.BKind
			if _, ok := groups[key]; !ok {
				order = append(order, key)
			}
			// re-run with margins multiplied by k (and by the load measured now): the timeout and everything defined relative to it
			cp := rec.Plan
			if k > 1 {
				for i := range cp.Attempts {
					if cp.Attempts[i].Lat >= rec.TimeoutMs {
						cp.Attempts[i].Lat *= k
					}
				}
				cp.CancelMs *= k
			}
			groups[key] = append(groups[key], cp)
			tmo[key] = rec.TimeoutMs * k
			lims[key] = [2]int{rec.BLimit, rec.BPenalty}
		}
		for bi, key := range order {
			// the batch's own rate limit (0 = package default; records written before the limit was recorded carry 0 as well:
			// the default of 100 messages is far above what they send)
			e := newEnvLimited(scaled(time.Duration(tmo[key])*time.Millisecond), lims[key][0], lims[key][1])
			kind := "replay"
			switch kinds[key] {
			case "held-timeout":
				kind = "held-timeout"
				go func(d int) {
					time.Sleep(2 * time.Millisecond)
					e.req.HoldResMu(scaled(time.Duration(d+25) * time.Millisecond))
				}(tmo[key])
			case "held-cancel":
				kind = "held-cancel"
				go func() {
					time.Sleep(2 * time.Millisecond)
					e.req.HoldResMu(time.Duration(48*k) * time.Millisecond)
				}()
			default:
				kind = kinds[key]
				if kind == "" {
					kind = "replay"
				}
			}
			recs, br := runBatch(e, bi+1, kind, scaledMs(tmo[key]), groups[key], 2*scaledMs(tmo[key])+150, nil)
			for _, rec := range recs {
				o.Put(rec)
			}
			o.Put(br)
			if !br.Hang {
				e.close()
			}
		}
		return
	}

	batch := 0
	for i := 0; i < *nrounds; i++ {
		batch++
		tm := scaledMs(*timeoutMs)
		e := newEnv(time.Duration(tm) * time.Millisecond)
		plans := detPlans(r, *ndet, tm, batch*1000)
		recs, br := runBatch(e, batch, "det", tm, plans, 2*tm+150, nil)
		for _, rec := range recs {
			o.Put(rec)
		}
		o.Put(br)
		if !br.Hang {
			e.close()
		}
	}
	if *doLarge {
		batch++
		e := newEnv(time.Duration(p2p.VerifC17DefaultTimeout))
		tmo := int(time.Duration(p2p.VerifC17DefaultTimeout) / time.Millisecond)
		recs, br := runBatch(e, batch, "large", tmo, largePlans(batch*1000), 200, nil)
		for _, rec := range recs {
			o.Put(rec)
		}
		o.Put(br)
		if br.Hang {
			return
		}
		e.close()
	}
	if *doLimits {
		// (a) the DEFAULT rate limit of the package on the requester: 60 solicited responses stay below it, all must be delivered;
		// every 5th is an ERROR response of the remote handler
		batch++
		e := newEnvLimited(300*time.Millisecond, 0, 0)
		recs, br := runBatch(e, batch, "default-limit", 300, seqPlans(60, 4, 5, batch*1000), 100, nil)
		for _, rec := range recs {
			o.Put(rec)
		}
		o.Put(br)
		e.close()
		// (b) a handler registered with limit 5 and penalty 0: more than 5 responses within the interval; the penalty is void, no
		// response may be lost
		batch++
		e = newEnvLimited(300*time.Millisecond, 5, 0)
		recs, br = runBatch(e, batch, "limit5-penalty0", 300, seqPlans(14, 8, 0, batch*1000), 100, nil)
		for _, rec := range recs {
			o.Put(rec)
		}
		o.Put(br)
		e.close()
	}
	if *doLimits {
		// (c) responses that onResponse must drop before the lookup: right ID, procedure without a registered handler; the normal reply
		// comes too late. Never delivered; the requester bans the responder, so this is the last batch of this host pair.
		batch++
		tm := scaledMs(200)
		e := newEnv(time.Duration(tm) * time.Millisecond)
		nAtt := p2p.VerifC17MaxRetries + 1
		var plans []callPlan
		for i := 0; i < 3; i++ {
			cp := callPlan{Call: batch*1000 + i + 1, Strict: false}
			for k := 0; k < nAtt; k++ {
				cp.Attempts = append(cp.Attempts, aplan{BadRe: true, Lat: 2 * tm, Late: true})
			}
			plans = append(plans, cp)
		}
		recs, br := runBatch(e, batch, "bad-responses", tm, plans, 2*tm+100, nil)
		for _, rec := range recs {
			o.Put(rec)
		}
		o.Put(br)
		if !br.Hang {
			e.close()
		}
	}
	if *doShutdown {
		for _, sc := range []string{"plain", "race-timeout", "plain", "race-timeout"} {
			rec := runShutdown(sc)
			if rec.Setup != "" {
				rec = runShutdown(sc) // the hosts could not be set up (connect timeout): once more with fresh hosts
			}
			o.Put(rec)
		}
	}
	if *heldRounds > 0 {
		// (a) resMu held across the deadline
		hTimeout := scaledMs(60)
		e := newEnv(time.Duration(hTimeout) * time.Millisecond)
		for i := 0; i < *heldRounds; i++ {
			batch++
			plans := heldTimeoutPlans(12, batch*1000)
			go func() {
				time.Sleep(2 * time.Millisecond)
				e.req.HoldResMu(time.Duration(hTimeout+scaledMs(25)) * time.Millisecond)
			}()
			recs, br := runBatch(e, batch, "held-timeout", hTimeout, plans, 2*hTimeout+30, nil)
			for _, rec := range recs {
				o.Put(rec)
			}
			o.Put(br)
			if br.Hang {
				return
			}
		}
		e.close()
		// (b) resMu held across the cancellation, follow-up calls afterwards
		e = newEnv(300 * time.Millisecond)
		for i := 0; i < *heldRounds; i++ {
			batch++
			// Whatever object pools the code under test may keep are emptied first (sync.Pool contents do not survive two
			// collections), so that objects released by the cancelled calls are the ones the follow-up calls pick up.
			runtime.GC()
			runtime.GC()
			plans := heldCancelPlans(16, 48, scaledMs(30), scaledMs(60), batch*1000)
			go func() {
				time.Sleep(2 * time.Millisecond)
				e.req.HoldResMu(scaled(48 * time.Millisecond))
			}()
			recs, br := runBatch(e, batch, "held-cancel", 300, plans, 80, nil)
			for _, rec := range recs {
				o.Put(rec)
			}
			o.Put(br)
			if br.Hang {
				return
			}
		}
		e.close()
	}
	if *dlRounds > 0 {
		const dlTimeout = 20
		e := newEnv(dlTimeout * time.Millisecond)
		center, width := 1000, 300
		for i := 0; i < *dlRounds; i++ {
			batch++
			plans := deadlinePlans(r, *dlCalls, dlTimeout, center, width, batch*1000)
			stop := make(chan struct{})
			fw := e.flood(*nflood, stop)
			recs, br := runBatch(e, batch, "deadline", dlTimeout, plans, 4*dlTimeout+30, func() { close(stop); fw.Wait() })
			for _, rec := range recs {
				o.Put(rec)
			}
			o.Put(br)
			if br.Hang {
				return
			}
			center = adapt(recs, center, i)
			if width > 120 {
				width -= 40
			}
		}
		e.close()
	}
	if *crRounds > 0 {
		const crCancel = 12
		e := newEnv(300 * time.Millisecond)
		center, width := 1000, 300
		for i := 0; i < *crRounds; i++ {
			batch++
			plans := cancelRacePlans(r, *crCalls, crCancel, center, width, batch*1000)
			stop := make(chan struct{})
			fw := e.flood(*nflood, stop)
			recs, br := runBatch(e, batch, "cancelrace", 300, plans, 60, func() { close(stop); fw.Wait() })
			for _, rec := range recs {
				o.Put(rec)
			}
			o.Put(br)
			if br.Hang {
				return
			}
			center = adapt(recs, center, i)
			if width > 120 {
				width -= 40
			}
		}
		e.close()
	}
	if *raceRounds > 0 {
		e := newEnv(time.Duration(*raceTimeoutMs) * time.Millisecond)
		for i := 0; i < *raceRounds; i++ {
			batch++
			plans := racePlans(r, *raceCalls, *raceTimeoutMs, batch*1000)
			recs, br := runBatch(e, batch, "race", *raceTimeoutMs, plans, 4*(*raceTimeoutMs)+30, nil)
			for _, rec := range recs {
				o.Put(rec)
			}
			o.Put(br)
			if br.Hang {
				return
			}
		}
		e.close()
	}
}
