package main

import (
	"encoding/hex"
	"encoding/json"

	"verifharness/internal/cx"
	"verifharness/internal/cxs"
	"verifharness/internal/hx"
)

// per struct: n generated values (schema-driven encoder), each also mutated nmut times
// payload sizes around the one- / two- / three-byte length prefix boundaries
var boundarySizes = []int{126, 127, 128, 129, 130}
var bigBoundarySizes = []int{16382, 16383, 16384, 16385, 16386}

func genStructs(o *hx.Out, rng *hx.Rng, n, nmut int, big bool) {
	for _, e := range cxs.Entries() {
		seenBytes := false
		for idx, f := range e.Fields {
			if !cxs.BoundaryKind(f.Ty) {
				continue
			}
			packed := f.Ty != "TStr" && f.Ty != "TBytes"
			sizes := boundarySizes
			if !packed && !big {
				sizes = []int{127, 128}
			}
			if !big && !packed && !seenBytes && (e.Name == "pkg/blockchain.Transaction" || e.Name == "pkg/blockchain.BlockHeader" ||
				e.Name == "pkg/p2p.Request" || e.Name == "pkg/blockchain.BlockAsset") {
				sizes = append(append([]int{}, sizes...), 16383, 16384) // quick tier: 2^14 on the main network structs
				seenBytes = true
			}
			if big { // around the two- / three-byte length prefix: kept few, 16k-element arrays are slow to evaluate in Coq
				if packed {
					sizes = append(append([]int{}, sizes...), 16384)
				} else if !seenBytes {
					sizes = append(append([]int{}, sizes...), 16383, 16384)
					seenBytes = true
				}
			}
			for _, sz := range sizes {
				o.Put(cxs.RunStruct(e, cxs.GenBoundary(rng, e, idx, sz, false), "boundary"))
				if packed && f.Ty != "TBools" && sz%2 == 0 && sz < 1000 {
					o.Put(cxs.RunStruct(e, cxs.GenBoundary(rng, e, idx, sz, true), "boundary2"))
				}
			}
		}
		for _, dr := range cxs.GenDirect(rng, e, n) { // Go values built directly (reflection) from model values
			o.Put(dr)
		}
		o.Put(cxs.RunStruct(e, []byte{}, "empty"))
		for i := 0; i < n; i++ {
			d := cxs.GenValue(rng, e, 0, i%3 == 2)
			o.Put(cxs.RunStruct(e, d, "gen"))
			if rec, ok := cxs.RunNilElems(e, d, rng.U64()); ok {
				o.Put(rec)
			}
			if i == 0 || e.Name == "pkg/blockchain.Transaction" { // field keys widened beyond 32 bits
				for _, m := range cxs.KeyAttacks(d) {
					o.Put(cxs.RunStruct(e, m, "widekey"))
				}
			}
			if i == 0 { // hostile length prefixes / varints at every top-level position (nested readers with wrapped ends)
				for k, m := range cxs.VarintAttacks(d) {
					if k%3 == 0 {
						o.Put(cxs.RunStruct(e, m, "varint"))
					}
				}
			}
			for j := 0; j < nmut; j++ {
				o.Put(cxs.RunStruct(e, cx.Mutate(rng, d, 1+rng.Intn(2)), "mut"))
			}
		}
	}
}

func replayOther(o *hx.Out, k string, line []byte) {
	switch k {
	case "s":
		var r cxs.StructRec
		if err := json.Unmarshal(line, &r); err != nil {
			panic(err)
		}
		e := cxs.Lookup(r.Name)
		if e == nil {
			panic("unknown struct " + r.Name)
		}
		d, _ := hex.DecodeString(r.D)
		o.Put(cxs.RunStruct(e, d, r.Gen))
	case "dv":
		var r cxs.DirectRec
		if err := json.Unmarshal(line, &r); err != nil {
			panic(err)
		}
		if rec, ok := cxs.RunDirect(hx.NewRng(1), cxs.Lookup(r.Name), r.V); ok {
			o.Put(rec)
		}
	case "nil":
		var r cxs.NilRec
		if err := json.Unmarshal(line, &r); err != nil {
			panic(err)
		}
		d, _ := hex.DecodeString(r.D)
		for seed := uint64(1); seed < 50; seed++ { // any placement of nil elements
			if rec, ok := cxs.RunNilElems(cxs.Lookup(r.Name), d, seed); ok {
				o.Put(rec)
			}
		}
	case "l32":
		replayLisk32(o, line)
	case "id":
		replayID(o, line)
	case "store":
		replayStore(o, line)
	default:
		panic("unknown record kind " + k)
	}
}
