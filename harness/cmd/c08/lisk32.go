package main

import "verifharness/internal/hx"

func genLisk32(o *hx.Out, rng *hx.Rng, n int) {}
func genIDs(o *hx.Out, rng *hx.Rng)           {}
func replayLisk32(o *hx.Out, line []byte)     {}
func replayID(o *hx.Out, line []byte)         {}
