package main

import (
	"encoding/hex"
	"encoding/json"
	"strings"

	"github.com/LiskHQ/lisk-engine/pkg/blockchain"
	"github.com/LiskHQ/lisk-engine/pkg/codec"
	"github.com/LiskHQ/lisk-engine/pkg/crypto"

	"verifharness/internal/cx"
	"verifharness/internal/cxs"
	"verifharness/internal/hx"
)

type l32Rec struct {
	K     string `json:"k"`
	B2T   bool   `json:"b2t"`
	In    string `json:"in"` // hex of the bytes / of the text
	Gen   string `json:"gen"`
	St    int    `json:"st"`
	Ec    int    `json:"ec"`
	Out   string `json:"out"`
	Bst   int    `json:"bst"`
	Back  string `json:"back"`
	Panic string `json:"panic,omitempty"`
}

func l32ErrCode(err error) int {
	switch {
	case err == nil:
		return 0
	case strings.Contains(err.Error(), "must be size of"):
		return 1
	case strings.Contains(err.Error(), "must start with lsk"):
		return 2
	case strings.Contains(err.Error(), "invalid character"):
		return 3
	case strings.Contains(err.Error(), "invalid checksum"):
		return 4
	}
	return 99
}

func runL32(b2t bool, in []byte, gen string) l32Rec {
	rec := l32Rec{K: "l32", B2T: b2t, In: hex.EncodeToString(in), Gen: gen}
	st, msg := cx.Guard(func() {
		if b2t {
			s, err := codec.BytesToLisk32(in)
			if err != nil {
				rec.St, rec.Ec = 1, l32ErrCode(err)
				return
			}
			rec.Out = hex.EncodeToString([]byte(s))
			b, err := codec.Lisk32ToBytes(s)
			if err != nil {
				rec.Bst = 1
				return
			}
			rec.Back = hex.EncodeToString(b)
		} else {
			b, err := codec.Lisk32ToBytes(string(in))
			if err != nil {
				rec.St, rec.Ec = 1, l32ErrCode(err)
				return
			}
			rec.Out = hex.EncodeToString(b)
			s, err := codec.BytesToLisk32(b)
			if err != nil {
				rec.Bst = 1
				return
			}
			rec.Back = hex.EncodeToString([]byte(s))
		}
	})
	if st != 0 {
		rec.St, rec.Panic = st, msg
	}
	return rec
}

const l32Charset = "zxvcpmbn3465o978uyrtkqew2adsjhfg"

func genLisk32(o *hx.Out, rng *hx.Rng, n int) {
	var addrs [][]byte
	for _, f := range []byte{0x00, 0xff, 0x01, 0x80, 0x7f, 0xaa, 0x55} {
		a := make([]byte, 20)
		for i := range a {
			a[i] = f
		}
		addrs = append(addrs, a)
	}
	for i := 0; i < 20; i++ { // single non-zero byte at every position
		a := make([]byte, 20)
		a[i] = 0xff
		addrs = append(addrs, a)
	}
	for i := 0; i < n; i++ {
		addrs = append(addrs, rng.Bytes(20))
	}
	for _, a := range addrs {
		o.Put(runL32(true, a, "addr"))
	}
	for _, l := range []int{0, 1, 19, 21, 32} {
		o.Put(runL32(true, rng.Bytes(l), "len"))
	}
	// text -> bytes: valid texts, every single-character corruption of a few samples, prefix / length / charset errors
	for i, a := range addrs {
		s, _ := codec.BytesToLisk32(a)
		o.Put(runL32(false, []byte(s), "valid"))
		if i%9 == 0 || i < 3 {
			for p := 3; p < len(s); p++ {
				for k := 0; k < 2; k++ {
					c := l32Charset[rng.Intn(32)]
					if c == s[p] {
						continue
					}
					t := []byte(s)
					t[p] = c
					o.Put(runL32(false, t, "corrupt1"))
				}
			}
		}
		if i < 12 {
			t := []byte(s)
			o.Put(runL32(false, append([]byte("xyz"), t[3:]...), "prefix"))
			o.Put(runL32(false, append([]byte("LSK"), t[3:]...), "prefix"))
			o.Put(runL32(false, t[:40], "len"))
			o.Put(runL32(false, append(t, 'z'), "len"))
			u := append([]byte{}, t...)
			u[5+i] = "1bio0AZ \xc3\xff"[i%10]
			o.Put(runL32(false, u, "char"))
			v := append([]byte{}, t...)
			v[10], v[11] = 0xc3, 0xa9 // a two-byte rune inside: 41 bytes, 40 runes
			o.Put(runL32(false, v, "char"))
			w := append([]byte{}, t...)
			w[7], w[9] = w[9], w[7]
			o.Put(runL32(false, w, "swap"))
		}
	}
	o.Put(runL32(false, []byte{}, "empty"))
}

func replayLisk32(o *hx.Out, line []byte) {
	var r l32Rec
	if err := json.Unmarshal(line, &r); err != nil {
		panic(err)
	}
	in, _ := hex.DecodeString(r.In)
	o.Put(runL32(r.B2T, in, r.Gen))
}

// ---- IDs: NewTransaction / NewBlockHeader: ID, re-encoding, ID of the re-decoded re-encoding
type idRec struct {
	Extra [][2]string     `json:"extra,omitempty"` // further (ID, encoding) pairs that must satisfy ID = hash(encoding)
	Flags map[string]bool `json:"flags,omitempty"` // further facts that must hold
	K     string          `json:"k"`
	Kind  string          `json:"kind"`
	D     string          `json:"d"`
	Gen   string          `json:"gen"`
	St    int             `json:"st"`
	ID    string          `json:"id"`
	Re    string          `json:"re"`
	St2   int             `json:"st2"`
	ID2   string          `json:"id2"`
	Re2   string          `json:"re2"`
	Panic string          `json:"panic,omitempty"`
}

func runID(kind string, d []byte, gen string) idRec {
	rec := idRec{K: "id", Kind: kind, D: hex.EncodeToString(d), Gen: gen}
	one := func(in []byte) (int, string, string) {
		switch kind {
		case "tx":
			t, err := blockchain.NewTransaction(in)
			if err != nil {
				return 1, "", ""
			}
			return 0, hex.EncodeToString(t.ID), hex.EncodeToString(t.Encode())
		case "header":
			h, err := blockchain.NewBlockHeader(in)
			if err != nil {
				return 1, "", ""
			}
			return 0, hex.EncodeToString(h.ID), hex.EncodeToString(h.Encode())
		case "tx-reinit": // Init, edit, Init again: the ID and the size must follow the edit
			t, err := blockchain.NewTransaction(in)
			if err != nil {
				return 1, "", ""
			}
			t.Nonce ^= 1
			t.Params = append(append([]byte{}, t.Params...), 0x07)
			t.Init()
			enc := t.Encode()
			rec.Flags = map[string]bool{"size": t.Size() == len(enc)}
			return 0, hex.EncodeToString(t.ID), hex.EncodeToString(enc)
		case "tx-json", "header-json", "block-json": // JSON round trip with forged "id" members, then Init (the RPC path)
			forged := strings.Repeat("ab", 32)
			var src interface{}
			var dst interface{ Init() }
			switch kind {
			case "tx-json":
				t, err := blockchain.NewTransaction(in)
				if err != nil {
					return 1, "", ""
				}
				src, dst = t, &blockchain.Transaction{}
			case "header-json":
				h, err := blockchain.NewBlockHeader(in)
				if err != nil {
					return 1, "", ""
				}
				src, dst = h, &blockchain.BlockHeader{}
			default:
				b, err := blockchain.NewBlock(in)
				if err != nil {
					return 1, "", ""
				}
				src, dst = b, &blockchain.Block{}
			}
			js, err := json.Marshal(src)
			if err != nil {
				return 1, "", ""
			}
			var generic interface{}
			if err := json.Unmarshal(js, &generic); err != nil {
				return 1, "", ""
			}
			forgeIDs(generic, forged)
			js, _ = json.Marshal(generic)
			if err := json.Unmarshal(js, dst); err != nil {
				return 1, "", ""
			}
			dst.Init()
			switch v := dst.(type) {
			case *blockchain.Transaction:
				enc := v.Encode()
				rec.Flags = map[string]bool{"size": v.Size() == len(enc)}
				return 0, hex.EncodeToString(v.ID), hex.EncodeToString(enc)
			case *blockchain.BlockHeader:
				return 0, hex.EncodeToString(v.ID), hex.EncodeToString(v.Encode())
			case *blockchain.Block:
				for _, t := range v.Transactions {
					rec.Extra = append(rec.Extra, [2]string{hex.EncodeToString(t.ID), hex.EncodeToString(t.Encode())})
				}
				return 0, hex.EncodeToString(v.Header.ID), hex.EncodeToString(v.Header.Encode())
			}
			return 1, "", ""
		case "header-sign-nil": // locally built header with a nil aggregate commit, signed: ID and signature survive a reload
			h0 := &blockchain.BlockHeader{}
			if err := h0.Decode(in); err != nil {
				return 1, "", ""
			}
			h0.AggregateCommit = nil
			pub, priv, _ := crypto.GetKeys("verif c08 signer")
			h0.Sign([]byte{0, 0, 0, 1}, priv)
			enc := h0.Encode()
			h1, err := blockchain.NewBlockHeader(enc)
			rec.Flags = map[string]bool{"signature-valid-before": h0.VerifySignature([]byte{0, 0, 0, 1}, pub),
				"signature-valid-after-reload": err == nil && h1.VerifySignature([]byte{0, 0, 0, 1}, pub)}
			return 0, hex.EncodeToString(h0.ID), hex.EncodeToString(enc)
		case "headerv": // locally built header: d = encoding of the field values, aggregate commit deliberately nil
			h0 := &blockchain.BlockHeader{}
			if err := h0.Decode(in); err != nil {
				return 1, "", ""
			}
			h, err := blockchain.NewBlockHeaderWithValues(h0.Version, h0.Timestamp, h0.Height, h0.PreviousBlockID, h0.AssetRoot, h0.StateRoot,
				h0.MaxHeightPrevoted, h0.MaxHeightGenerated, h0.TransactionRoot, h0.GeneratorAddress, h0.ValidatorsHash, nil, h0.Signature)
			if err != nil {
				return 1, "", ""
			}
			return 0, hex.EncodeToString(h.ID), hex.EncodeToString(h.Encode())
		case "block":
			b, err := blockchain.NewBlock(in)
			if err != nil {
				return 1, "", ""
			}
			return 0, hex.EncodeToString(b.Header.ID), hex.EncodeToString(b.Header.Encode())
		}
		panic("unknown id kind")
	}
	st, msg := cx.Guard(func() {
		rec.St, rec.ID, rec.Re = one(append([]byte{}, d...))
		if rec.St == 0 {
			re, _ := hex.DecodeString(rec.Re)
			switch kind { // second round: plain decode of the encoding
			case "block", "headerv", "header-json", "block-json", "header-sign-nil":
				kind = "header"
			case "tx-reinit", "tx-json":
				kind = "tx"
			}
			rec.St2, rec.ID2, rec.Re2 = one(re)
		}
	})
	if st != 0 {
		rec.St, rec.Panic = st, msg
	}
	return rec
}

func genIDs(o *hx.Out, rng *hx.Rng) {
	tx := cxs.Lookup("pkg/blockchain.Transaction")
	hd := cxs.Lookup("pkg/blockchain.BlockHeader")
	for i := 0; i < 40; i++ {
		d := cxs.GenValue(rng, tx, 0, false)
		o.Put(runID("tx", d, "gen"))
		for j := 0; j < 6; j++ {
			o.Put(runID("tx", cx.Mutate(rng, d, 1), "mut"))
		}
		// non-canonical variants of the same value: padded varint, trailing byte, missing last field
		o.Put(runID("tx", append(append([]byte{}, d...), 0x00), "trail"))
		h := cxs.GenValue(rng, hd, 0, i%4 == 3)
		o.Put(runID("header", h, "gen"))
		for j := 0; j < 4; j++ {
			o.Put(runID("header", cx.Mutate(rng, h, 1), "mut"))
		}
		o.Put(runID("headerv", h, "nilagg"))
		o.Put(runID("header-sign-nil", h, "nilagg"))
		o.Put(runID("tx-reinit", d, "gen"))
		o.Put(runID("tx-json", d, "forged-id"))
		o.Put(runID("header-json", h, "forged-id"))
		// a block around the header
		w := codec.NewWriter()
		w.WriteBytes(1, h)
		w.WriteBytesArray(2, [][]byte{d})
		o.Put(runID("block", w.Result(), "gen"))
		o.Put(runID("block-json", w.Result(), "forged-id"))
	}
}

func replayID(o *hx.Out, line []byte) {
	var r idRec
	if err := json.Unmarshal(line, &r); err != nil {
		panic(err)
	}
	d, _ := hex.DecodeString(r.D)
	o.Put(runID(r.Kind, d, r.Gen))
}

// forgeIDs replaces every "id" member of a decoded JSON document.
func forgeIDs(v interface{}, forged string) {
	switch t := v.(type) {
	case map[string]interface{}:
		for k, x := range t {
			if k == "id" {
				t[k] = forged
			} else {
				forgeIDs(x, forged)
			}
		}
	case []interface{}:
		for _, x := range t {
			forgeIDs(x, forged)
		}
	}
}
