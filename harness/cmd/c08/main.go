// C08 correspondence driver, part 1: every pkg/codec Reader / Writer primitive on generated inputs
// (exhaustive short byte strings over a boundary alphabet, boundary varints in every position, nested-reader
// states, mutated valid encodings, random).  Part 2 (structs.go): every generated *_codec.go struct.
// One JSONL record per case: the input and the implementation's projected observation.
package main

import (
	"bytes"
	"encoding/hex"
	"encoding/json"
	"flag"
	"os"
	"strings"

	"github.com/LiskHQ/lisk-engine/pkg/blockchain"
	"github.com/LiskHQ/lisk-engine/pkg/codec"

	"verifharness/internal/cx"
	"verifharness/internal/hx"
)

// op codes (shared with coq/Corr/C08.v)
const (
	opUInt = iota
	opUInt32
	opUInts
	opUInt32s
	opInt
	opInt32
	opInts
	opBool
	opBools
	opBytes
	opBytesArray
	opString
	opStrings
	opInt32s // writer only
)

var hasStrict = map[int]bool{opUInt: true, opUInt32: true, opInt: true, opInt32: true, opBool: true, opBytes: true, opString: true}
var wireOf = map[int]int{opUInt: 0, opUInt32: 0, opInt: 0, opInt32: 0, opBool: 0}

type readRec struct {
	K      string   `json:"k"`
	Op     int      `json:"op"`
	Fn     int      `json:"fn"`
	Strict bool     `json:"strict"`
	D      string   `json:"d"`
	I      int      `json:"i"`
	E      int64    `json:"e"`
	St     int      `json:"st"`
	Ec     int      `json:"ec"`
	Vz     []string `json:"vz"`
	Vb     []string `json:"vb"`
	Ix     int      `json:"ix"`
	Panic  string   `json:"panic,omitempty"`
}

type writeRec struct {
	// big cases only (k = "wb"): the implementation reads its own bytes back
	BackOK bool     `json:"back_ok,omitempty"`
	BackVb []string `json:"back_vb,omitempty"` // strings: what the reader returned (compared with NFC(input) by the orchestration)
	K      string   `json:"k"`
	Op     int      `json:"op"`
	Fn     int      `json:"fn"`
	Vz     []string `json:"vz"`
	Vb     []string `json:"vb"`
	Out    string   `json:"out"`
}

func runRead(op, fn int, strict bool, d []byte, i int, e int64) readRec {
	rec := readRec{K: "r", Op: op, Fn: fn, Strict: strict, D: hex.EncodeToString(d), I: i, E: e, Vz: []string{}, Vb: []string{}}
	st, pmsg := cx.Guard(func() {
		r := codec.VerifC08NewReaderAt(d, i, int(e))
		var err error
		switch op {
		case opUInt:
			var v uint64
			v, err = r.ReadUInt(fn, strict)
			rec.Vz = []string{cx.U(v)}
		case opUInt32:
			var v uint32
			v, err = r.ReadUInt32(fn, strict)
			rec.Vz = []string{cx.U(uint64(v))}
		case opUInts:
			var v []uint64
			v, err = r.ReadUInts(fn)
			for _, x := range v {
				rec.Vz = append(rec.Vz, cx.U(x))
			}
		case opUInt32s:
			var v []uint32
			v, err = r.ReadUInt32s(fn)
			for _, x := range v {
				rec.Vz = append(rec.Vz, cx.U(uint64(x)))
			}
		case opInt:
			var v int64
			v, err = r.ReadInt(fn, strict)
			rec.Vz = []string{cx.I(v)}
		case opInt32:
			var v int32
			v, err = r.ReadInt32(fn, strict)
			rec.Vz = []string{cx.I(int64(v))}
		case opInts:
			var v []int64
			v, err = r.ReadInts(fn)
			for _, x := range v {
				rec.Vz = append(rec.Vz, cx.I(x))
			}
		case opBool:
			var v bool
			v, err = r.ReadBool(fn, strict)
			rec.Vz = []string{cx.B(v)}
		case opBools:
			var v []bool
			v, err = r.ReadBools(fn)
			for _, x := range v {
				rec.Vz = append(rec.Vz, cx.B(x))
			}
		case opBytes:
			var v []byte
			v, err = r.ReadBytes(fn, strict)
			rec.Vb = []string{hex.EncodeToString(v)}
		case opBytesArray:
			var v [][]byte
			v, err = r.ReadBytesArray(fn)
			for _, x := range v {
				rec.Vb = append(rec.Vb, hex.EncodeToString(x))
			}
		case opString:
			var v string
			v, err = r.ReadString(fn, strict)
			rec.Vb = []string{hex.EncodeToString([]byte(v))}
		case opStrings:
			var v []string
			v, err = r.ReadStrings(fn)
			for _, x := range v {
				rec.Vb = append(rec.Vb, hex.EncodeToString([]byte(x)))
			}
		}
		rec.Ix = r.VerifC08Index()
		if err != nil {
			rec.St = 1
			rec.Ec = cx.ErrCode(err)
			rec.Vz, rec.Vb = []string{}, []string{}
		}
	})
	if st != 0 {
		rec.St, rec.Panic = st, pmsg
		rec.Vz, rec.Vb = []string{}, []string{}
	}
	return rec
}

func runWrite(op, fn int, vz []string, vb []string) writeRec {
	rec := writeRec{K: "w", Op: op, Fn: fn, Vz: vz, Vb: vb}
	if rec.Vz == nil {
		rec.Vz = []string{}
	}
	if rec.Vb == nil {
		rec.Vb = []string{}
	}
	w := codec.NewWriter()
	us := make([]uint64, len(vz))
	is := make([]int64, len(vz))
	for i, s := range vz {
		us[i], is[i] = cx.ParseU(s), cx.ParseI(s)
	}
	bs := make([][]byte, len(vb))
	ss := make([]string, len(vb))
	for i, s := range vb {
		b, _ := hex.DecodeString(s)
		bs[i], ss[i] = b, string(b)
	}
	switch op {
	case opUInt:
		w.WriteUInt(fn, us[0])
	case opUInt32:
		w.WriteUInt32(fn, uint32(us[0]))
	case opUInts:
		w.WriteUInts(fn, us)
	case opUInt32s:
		v := make([]uint32, len(us))
		for i := range us {
			v[i] = uint32(us[i])
		}
		w.WriteUInt32s(fn, v)
	case opInt:
		w.WriteInt(fn, is[0])
	case opInt32:
		w.WriteInt32(fn, int32(is[0]))
	case opInts:
		w.WriteInts(fn, is)
	case opInt32s:
		v := make([]int32, len(is))
		for i := range is {
			v[i] = int32(is[i])
		}
		w.WriteInt32s(fn, v)
	case opBool:
		w.WriteBool(fn, us[0] != 0)
	case opBools:
		v := make([]bool, len(us))
		for i := range us {
			v[i] = us[i] != 0
		}
		w.WriteBools(fn, v)
	case opBytes:
		w.WriteBytes(fn, bs[0])
	case opBytesArray:
		w.WriteBytesArray(fn, bs)
	case opString:
		w.WriteString(fn, ss[0])
	case opStrings:
		w.WriteStrings(fn, ss)
	}
	rec.Out = hex.EncodeToString(w.Result())
	return rec
}

func allReadVariants(o *hx.Out, ops []int, fn int, d []byte, i int, e int64) {
	for _, op := range ops {
		o.Put(runRead(op, fn, false, d, i, e))
		if hasStrict[op] {
			o.Put(runRead(op, fn, true, d, i, e))
		}
	}
}

var allOps = []int{opUInt, opUInt32, opUInts, opUInt32s, opInt, opInt32, opInts, opBool, opBools, opBytes, opBytesArray, opString, opStrings}

func keyFor(op, fn int) []byte {
	wt := 2
	if _, ok := wireOf[op]; ok {
		wt = 0
	}
	return cx.Uvarint(uint64(fn)<<3 | uint64(wt))
}

func main() {
	out := flag.String("out", "cases.jsonl", "output")
	exh := flag.Int("exh", 3, "exhaustive byte-string length over the boundary alphabet")
	nrand := flag.Int("rand", 1500, "random/mutated primitive cases")
	nstruct := flag.Int("structs", 12, "generated values per struct")
	nmut := flag.Int("mut", 10, "mutations per struct value")
	nlisk := flag.Int("lisk32", 200, "random lisk32 addresses")
	big := flag.Bool("big", false, "also payload sizes around 16384 bytes (slow to evaluate in Coq)")
	nstore := flag.Int("store", 6, "chains saved and re-read through DataAccess")
	parts := flag.String("parts", "prim,struct,lisk32,ids,store", "which parts to run")
	in := flag.String("in", "", "replay: JSONL of records to re-run")
	flag.Parse()
	rng := hx.NewRng(hx.SeedFromEnv())
	o := hx.NewOut(*out)
	defer o.Close()
	if *in != "" {
		data, err := os.ReadFile(*in)
		if err != nil {
			panic(err)
		}
		for _, line := range strings.Split(string(data), "\n") {
			if strings.TrimSpace(line) == "" {
				continue
			}
			var k struct {
				K string `json:"k"`
			}
			if err := json.Unmarshal([]byte(line), &k); err != nil {
				panic(err)
			}
			replayLine(o, k.K, []byte(line))
		}
		return
	}
	want := map[string]bool{}
	for _, p := range strings.Split(*parts, ",") {
		want[p] = true
	}
	if want["prim"] {
		genPrim(o, rng, *exh, *nrand, *big)
	}
	if want["struct"] {
		genStructs(o, rng, *nstruct, *nmut, *big)
	}
	if want["lisk32"] {
		genLisk32(o, rng, *nlisk)
	}
	if want["ids"] {
		genIDs(o, rng)
	}
	if want["store"] {
		genStore(o, rng, *nstore)
	}
}

func replayLine(o *hx.Out, k string, line []byte) {
	switch k {
	case "r":
		var r readRec
		if err := json.Unmarshal(line, &r); err != nil {
			panic(err)
		}
		d, _ := hex.DecodeString(r.D)
		o.Put(runRead(r.Op, r.Fn, r.Strict, d, r.I, r.E))
	case "w":
		var r writeRec
		if err := json.Unmarshal(line, &r); err != nil {
			panic(err)
		}
		o.Put(runWrite(r.Op, r.Fn, r.Vz, r.Vb))
	default:
		replayOther(o, k, line)
	}
}

var boundaryU = []uint64{0, 1, 2, 127, 128, 129, 255, 256, 16383, 16384, 1<<21 - 1, 1 << 21, 1<<28 - 1, 1 << 28, 1<<31 - 1, 1 << 31,
	1<<32 - 1, 1 << 32, 1<<32 + 1, 1<<35 - 1, 1 << 35, 1<<42 - 1, 1 << 42, 1<<49 - 1, 1 << 49, 1<<56 - 1, 1 << 56, 1<<63 - 1, 1 << 63, 1<<63 + 1, 1<<64 - 2, 1<<64 - 1}

var boundaryI = []int64{0, 1, -1, 2, -2, 63, 64, -64, -65, 1<<31 - 1, -1 << 31, 1 << 31, -1<<31 - 1, 1<<62 - 1, 1 << 62, -1 << 62, 1<<63 - 1, -1<<63 + 1, -1 << 63}

// strings whose NFC status the model decides (coq/Codec/Str.v): code points < U+0300, and the table entries
var knownStrings = []string{"", "a", "token", "transfer", "\x00", "\x7f", "caf\u00e9", "\u00c5\u00f6", "\u02ff", "e\u0301", "A\u030a", "\u212b", "abo\u0308",
	// NFC-normal although they contain quick-check "Maybe" runes (non-composing combining marks, lone Hangul jamo)
	"q\u0301", "x\u0323\u0301", "a\u0338", "\u1161", "\u11a8", "\uac00",
	// their non-NFC counterparts (must be normalised on write, rejected on read)
	"x\u0301\u0323", "\u1100\u1161"}

func genPrim(o *hx.Out, rng *hx.Rng, exh, nrand int, big bool) {
	// (a) exhaustive short byte strings over the boundary alphabet + both keys of field 1
	alpha := []byte{0x00, 0x01, 0x02, 0x7f, 0x80, 0x81, 0xfe, 0xff, 0x08, 0x0a}
	var rec func(prefix []byte, n int)
	rec = func(prefix []byte, n int) {
		d := append([]byte{}, prefix...)
		allReadVariants(o, allOps, 1, d, 0, int64(len(d)))
		if n == 0 {
			return
		}
		for _, b := range alpha {
			rec(append(prefix, b), n-1)
		}
	}
	rec([]byte{}, exh)

	// (b) boundary varints in every role: scalar value, length prefix, key; canonical and non-canonical forms
	forms := func(v uint64) [][]byte {
		c := cx.Uvarint(v)
		res := [][]byte{c}
		if len(c) < 10 { // padded with a redundant continuation
			p := append([]byte{}, c...)
			p[len(p)-1] |= 0x80
			p = append(p, 0x00)
			res = append(res, p)
		}
		return res
	}
	special := [][]byte{
		{0xff, 0xff, 0xff, 0xff, 0xff, 0xff, 0xff, 0xff, 0xff, 0x02},       // tenth byte out of range
		{0xff, 0xff, 0xff, 0xff, 0xff, 0xff, 0xff, 0xff, 0xff, 0x81, 0x00}, // tenth byte with continuation
		{0x80, 0x80, 0x80, 0x80, 0x80, 0x80, 0x80, 0x80, 0x80, 0x80, 0x80}, // never terminates
		{0x80, 0x80, 0x80, 0x80, 0x80, 0x80, 0x80, 0x80, 0x80, 0x00},       // ten bytes for zero
		{0x80, 0x80, 0x80, 0x80, 0x80, 0x80, 0x80, 0x80, 0x80, 0x01},       // 2^63 canonical
		{0x80}, {0xff, 0xff},
	}
	tail := [][]byte{{}, {0x00}, {0x01, 0x02, 0x03}, {0x0a, 0x01, 0x61}}
	var allForms [][]byte
	var formVal []uint64
	for _, v := range boundaryU {
		for _, f := range forms(v) {
			allForms = append(allForms, f)
			formVal = append(formVal, v)
		}
	}
	for _, f := range special {
		allForms = append(allForms, f)
		formVal = append(formVal, 8)
	}
	for fi, f := range allForms {
		v := formVal[fi]
		{
			for ti, t := range tail {
				for _, op := range allOps {
					// as value / length prefix after a matching key
					d := append(append(append([]byte{}, keyFor(op, 1)...), f...), t...)
					o.Put(runRead(op, 1, ti%2 == 0, d, 0, int64(len(d))))
				}
				// as the key itself
				d := append(append([]byte{}, f...), t...)
				fn := int(v >> 3)
				if v>>3 > 1<<40 {
					fn = 1
				}
				for _, op := range []int{opUInt, opBytes, opBytesArray, opUInts, opBool} {
					o.Put(runRead(op, fn, ti%2 == 1, d, 0, int64(len(d))))
				}
			}
		}
	}
	// keys whose low 32 bits are the expected key, written as the shortest varint of key + m*2^32
	for _, op := range allOps {
		for _, fn := range []int{1, 2, 15, 16, 2047} {
			k := keyFor(op, fn)
			kv, _ := binaryUvarint(k)
			for _, m := range []uint64{1, 2, 1 << 28, 1 << 31, 1<<32 - 1} {
				d := append(append([]byte{}, cx.Uvarint(kv+m<<32)...), 0x01, 0x01, 0x00)
				o.Put(runRead(op, fn, true, d, 0, int64(len(d))))
				o.Put(runRead(op, fn, false, d, 0, int64(len(d))))
			}
		}
	}
	// packed arrays / bytes arrays with elements straddling the declared end, and nested-reader states
	samples := [][]byte{
		{0x0a, 0x01, 0x80, 0x01},             // packed length 1, two-byte element
		{0x0a, 0x02, 0x01, 0x80, 0x01, 0x05}, // second element crosses the end
		{0x0a, 0x03, 0x00, 0x01, 0x02},
		{0x0a, 0x01, 0x61, 0x0a, 0x02, 0x62, 0x63, 0x12, 0x00},
		{0x0a, 0x00, 0x0a, 0x00},
		{0x08, 0x01, 0x08, 0x00, 0x10, 0x05},
		{0x0a, 0x05, 0x01},
	}
	for _, d := range samples {
		for i := 0; i <= len(d); i++ {
			for _, e := range []int64{int64(i) - 1, int64(i), int64(i) + 1, int64(i) + 2, int64(len(d)) - 1, int64(len(d)), int64(len(d)) + 1, int64(len(d)) + 7, -1, 1<<63 - 1, -1 << 63} {
				allReadVariants(o, allOps, 1, d, i, e)
			}
		}
	}

	// (c) writer cases: boundary values, arrays, strings, bytes
	fns := []int{1, 2, 15, 16, 2047, 2048, 1<<28 - 1}
	for _, fn := range fns {
		for _, v := range boundaryU {
			o.Put(runWrite(opUInt, fn, []string{cx.U(v)}, nil))
			o.Put(runWrite(opUInt32, fn, []string{cx.U(uint64(uint32(v)))}, nil))
		}
		for _, v := range boundaryI {
			o.Put(runWrite(opInt, fn, []string{cx.I(v)}, nil))
			o.Put(runWrite(opInt32, fn, []string{cx.I(int64(int32(v)))}, nil))
		}
		o.Put(runWrite(opBool, fn, []string{"0"}, nil))
		o.Put(runWrite(opBool, fn, []string{"1"}, nil))
		for _, s := range knownStrings {
			o.Put(runWrite(opString, fn, nil, []string{hex.EncodeToString([]byte(s))}))
			o.Put(runWrite(opBytes, fn, nil, []string{hex.EncodeToString([]byte(s))}))
		}
	}
	for n := 0; n < 40; n++ {
		fn := fns[rng.Intn(len(fns))]
		k := rng.Intn(5)
		var us, is, u32s, i32s, bools, bss, sss []string
		for j := 0; j < k; j++ {
			u := boundaryU[rng.Intn(len(boundaryU))]
			if rng.Intn(3) == 0 {
				u = rng.U64()
			}
			iv := boundaryI[rng.Intn(len(boundaryI))]
			if rng.Intn(3) == 0 {
				iv = int64(rng.U64())
			}
			us = append(us, cx.U(u))
			u32s = append(u32s, cx.U(uint64(uint32(u))))
			is = append(is, cx.I(iv))
			i32s = append(i32s, cx.I(int64(int32(iv))))
			bools = append(bools, cx.B(rng.Bool()))
			bss = append(bss, hex.EncodeToString(rng.Bytes(rng.Intn(4)*rng.Intn(50))))
			sss = append(sss, hex.EncodeToString([]byte(knownStrings[rng.Intn(len(knownStrings))])))
		}
		o.Put(runWrite(opUInts, fn, us, nil))
		o.Put(runWrite(opUInt32s, fn, u32s, nil))
		o.Put(runWrite(opInts, fn, is, nil))
		o.Put(runWrite(opInt32s, fn, i32s, nil))
		o.Put(runWrite(opBools, fn, bools, nil))
		o.Put(runWrite(opBytesArray, fn, nil, bss))
		o.Put(runWrite(opStrings, fn, nil, sss))
	}

	// (c0) the implementation reads back what it wrote (records "wb", Python oracle): every boundary scalar, and byte payloads
	// of 2^7, 2^14, 2^21 (+-1) bytes — the varintShortestSize thresholds seen through the length prefix
	rt := func(op, fn int, vz, vb []string) {
		w := runWrite(op, fn, vz, vb)
		w.K = "wb"
		w.BackOK = readBack(op, fn, w)
		if op == opString || op == opStrings {
			d, _ := hex.DecodeString(w.Out)
			w.BackVb = runRead(op, fn, true, d, 0, int64(len(d))).Vb
		}
		o.Put(w)
	}
	for _, v := range boundaryU {
		rt(opUInt, 1, []string{cx.U(v)}, nil)
		rt(opUInt32, 1, []string{cx.U(uint64(uint32(v)))}, nil)
		rt(opUInts, 1, []string{cx.U(v), cx.U(v)}, nil)
	}
	for _, str := range knownStrings { // strings: the reader must accept what the writer emitted (NFC-normalised)
		rt(opString, 1, nil, []string{hex.EncodeToString([]byte(str))})
		rt(opStrings, 2, nil, []string{hex.EncodeToString([]byte(str)), hex.EncodeToString([]byte("a"))})
	}
	for _, v := range boundaryI {
		rt(opInt, 1, []string{cx.I(v)}, nil)
		rt(opInt32, 1, []string{cx.I(int64(int32(v)))}, nil)
	}
	for _, e := range []uint{7, 14, 21} {
		for _, d := range []int{-1, 0, 1} {
			n := (1 << e) + d
			rt(opBytes, 1, nil, []string{hex.EncodeToString(bytes.Repeat([]byte{0x5a}, n))})
		}
	}
	{ // 2^21 also for strings, packed arrays and a nested message length prefix
		n := 1 << 21
		for _, d := range []int{-1, 0, 1} {
			rt(opString, 1, nil, []string{hex.EncodeToString(bytes.Repeat([]byte{'s'}, n+d))})
			if d != 0 { // 2M-element packed arrays: the exact boundary only (large records)
				continue
			}
			bools := make([]string, n+d)
			ones := make([]string, n+d)
			for i := range bools {
				bools[i], ones[i] = "1", "5"
			}
			rt(opBools, 1, bools, nil)
			rt(opUInts, 1, ones, nil)
		}
	}
	nestedBoundary(o)
	for _, e := range []uint{7, 14} {
		n := 1 << e
		rt(opString, 1, nil, []string{hex.EncodeToString(bytes.Repeat([]byte{'q'}, n))})
		rt(opBytesArray, 1, nil, []string{hex.EncodeToString(bytes.Repeat([]byte{1}, n)), hex.EncodeToString(bytes.Repeat([]byte{2}, n-1))})
	}

	// (c') payload sizes around the length-prefix boundaries: packed arrays of one- and two-byte elements, bytes, strings
	sizes := append([]int{}, boundarySizes...)
	if big {
		sizes = append(sizes, bigBoundarySizes...)
	}
	for _, sz := range sizes {
		for _, fn := range []int{1, 16} {
			ones, twos, bools, sones := []string{}, []string{}, []string{}, []string{}
			for i := 0; i < sz; i++ {
				ones = append(ones, cx.U(uint64(rng.Intn(128))))
				sones = append(sones, cx.I(int64(rng.Intn(64))-32)) // zig-zag one byte: -32..31 except -33.. keep within one byte
				bools = append(bools, cx.B(rng.Bool()))
				if i < sz/2 {
					twos = append(twos, cx.U(uint64(128+rng.Intn(16000))))
				}
			}
			putW := func(op int, vz, vb []string) {
				w := runWrite(op, fn, vz, vb)
				if sz > 1000 { // too large for the in-Coq evaluation: read back by the implementation, checked by a Python oracle
					w.K = "wb"
					w.BackOK = readBack(op, fn, w)
				}
				o.Put(w)
			}
			if sz < 1000 || fn == 1 {
				putW(opUInts, ones, nil)
				putW(opUInt32s, ones, nil)
				putW(opInts, sones, nil)
				putW(opInt32s, sones, nil)
				putW(opBools, bools, nil)
			}
			if sz%2 == 0 && sz < 1000 {
				o.Put(runWrite(opUInts, fn, twos, nil))
				o.Put(runWrite(opUInt32s, fn, twos, nil))
			}
			putW(opBytes, nil, []string{hex.EncodeToString(rng.Bytes(sz))})
			putW(opString, nil, []string{hex.EncodeToString(bytes.Repeat([]byte{'x'}, sz))})
			putW(opBytesArray, nil, []string{hex.EncodeToString(rng.Bytes(sz)), "", hex.EncodeToString(rng.Bytes(sz - 1))})
		}
	}

	// (d) mutated valid encodings and random bytes
	for n := 0; n < nrand; n++ {
		op := allOps[rng.Intn(len(allOps))]
		fn := fns[rng.Intn(4)]
		var w writeRec
		k := 1 + rng.Intn(3)
		var vz, vb []string
		for j := 0; j < k; j++ {
			switch op {
			case opInt, opInt32, opInts:
				vz = append(vz, cx.I(boundaryI[rng.Intn(len(boundaryI))]))
			case opBool, opBools:
				vz = append(vz, cx.B(rng.Bool()))
			case opString, opStrings:
				vb = append(vb, hex.EncodeToString([]byte(knownStrings[rng.Intn(len(knownStrings))])))
			case opBytes, opBytesArray:
				vb = append(vb, hex.EncodeToString(rng.Bytes(rng.Intn(6))))
			default:
				vz = append(vz, cx.U(boundaryU[rng.Intn(len(boundaryU))]))
			}
		}
		if hasStrict[op] {
			if len(vz) > 0 {
				vz = vz[:1]
			}
			if len(vb) > 0 {
				vb = vb[:1]
			}
		}
		w = runWrite(op, fn, vz, vb)
		d, _ := hex.DecodeString(w.Out)
		// follow with another field or garbage
		switch rng.Intn(4) {
		case 0:
			d = append(d, cx.Uvarint(uint64(fn+1)<<3)...)
			d = append(d, 0x01)
		case 1:
			d = append(d, rng.Bytes(rng.Intn(4))...)
		}
		d = cx.Mutate(rng, d, rng.Intn(3))
		rfn := fn
		if rng.Intn(8) == 0 {
			rfn = fn + 1
		}
		// read with the same op, and with a different one
		o.Put(runRead(op, rfn, rng.Bool(), d, 0, int64(len(d))))
		o.Put(runRead(allOps[rng.Intn(len(allOps))], rfn, rng.Bool(), d, 0, int64(len(d))))
	}
}

func binaryUvarint(b []byte) (uint64, int) {
	var x uint64
	var sh uint
	for i, c := range b {
		if c < 0x80 {
			return x | uint64(c)<<sh, i + 1
		}
		x |= uint64(c&0x7f) << sh
		sh += 7
	}
	return 0, 0
}

// readBack: the real reader on the bytes the real writer produced: accepted strictly, everything consumed, same values.
func readBack(op, fn int, w writeRec) bool {
	d, _ := hex.DecodeString(w.Out)
	rop := op
	if op == opInt32s {
		rop = opInts
	}
	r := runRead(rop, fn, true, d, 0, int64(len(d)))
	if r.St != 0 || r.Ix != len(d) || len(r.Vz) != len(w.Vz) || len(r.Vb) != len(w.Vb) {
		return false
	}
	for i := range r.Vz {
		if r.Vz[i] != w.Vz[i] {
			return false
		}
	}
	if op == opString || op == opStrings {
		return true // values are compared with the independently normalised input by the orchestration (BackVb)
	}
	for i := range r.Vb {
		if r.Vb[i] != w.Vb[i] {
			return false
		}
	}
	return true
}

// nestedBoundary: a Block whose nested header encoding is exactly 2^7, 2^14, 2^21 (+-1) bytes: the length prefix written by
// WriteEncodable sits on the varintShortestSize thresholds.  Record "nb": the real Decode accepts the real Encode, the
// re-encoding is identical and the nested size is the intended one.
type nbRec struct {
	K      string `json:"k"`
	Target int    `json:"target"`
	Nested int    `json:"nested"`
	OK     bool   `json:"ok"`
	Why    string `json:"why,omitempty"`
}

func nestedBoundary(o *hx.Out) {
	for _, e := range []uint{7, 14, 21} {
		for _, d := range []int{-1, 0, 1} {
			target := (1 << e) + d
			h := &blockchain.BlockHeader{Version: 2, AggregateCommit: &blockchain.AggregateCommit{}, Signature: []byte{}}
			for n := target; n >= 0; n-- { // largest signature that does not exceed the target, then exact fit or skip
				h.Signature = make([]byte, n)
				if l := len(h.Encode()); l <= target {
					break
				}
			}
			rec := nbRec{K: "nb", Target: target, Nested: len(h.Encode())}
			b := &blockchain.Block{Header: h, Transactions: []*blockchain.Transaction{}, Assets: []*blockchain.BlockAsset{}}
			enc := b.Encode()
			b2 := &blockchain.Block{}
			if err := b2.Decode(enc); err != nil {
				rec.Why = "Decode rejects Encode: " + err.Error()
			} else if !bytes.Equal(b2.Encode(), enc) {
				rec.Why = "re-encoding differs"
			} else if err := (&blockchain.Block{}).DecodeStrict(enc); err != nil {
				rec.Why = "DecodeStrict rejects Encode: " + err.Error()
			} else {
				rec.OK = true
			}
			o.Put(rec)
		}
	}
}
