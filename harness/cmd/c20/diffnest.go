// Scenario `diffnest` (C20): NESTED prefix views of the staged store (state -> module -> store), several sibling store
// views derived from the same already-derived module view, from several goroutines at once - views are created on
// every store access in the real code.  Deriving a view takes no lock; if WithPrefix extended the parent's prefix in
// place, siblings would share the backing array: a data race with getKey, and an earlier sibling silently redirected
// to a later sibling's key range.  Oracle = the sequential answer: every goroutine reads back what it last wrote
// through its own view, and afterwards the root view finds every value under the fully spelled key.
package main

import (
	"bytes"
	"runtime"
	"sync"

	"github.com/LiskHQ/lisk-engine/pkg/db"
	"github.com/LiskHQ/lisk-engine/pkg/db/diffdb"

	"verifharness/internal/hx"
)

func scenarioDiffNest(cfg config, r *hx.Rng) (rec, []mmRec) {
	n := cfg.readers
	c := newCtl("diffnest", cfg, n+1, n)
	const modules, keysPer = 3, 8
	c.params["modules"], c.params["keys_per_goroutine"], c.params["ms"] = modules, keysPer, cfg.ms
	seeds := make([]uint64, n)
	for i := range seeds {
		seeds[i] = r.U64()
	}
	return run(c, func() {
		// two INDEPENDENT staged stores (own database, own mutex, own cache), as the generator and the executer have:
		// goroutine g works on store g%2, so scans of the two stores run concurrently with nothing shared but the package
		roots := [2]*diffdb.Database{}
		for i := range roots {
			store, err := db.NewInMemoryDB()
			if err != nil {
				panic(err)
			}
			roots[i] = diffdb.New(store, []byte{10}) // blockchain.DBPrefixState
		}
		modPrefix := func(m int) []byte { return []byte{0, 0, 0, byte(m + 1)} }                // 4-byte module prefix
		storePrefix := func(g int) []byte { return []byte{byte(0x80 | g>>4), byte(g)<<4 | 1} } // 2-byte store prefix
		allMods := [2][]*diffdb.Database{}                                                     // long-lived module views, shared by the goroutines of a store
		for i := range roots {
			allMods[i] = make([]*diffdb.Database, modules)
			for m := range allMods[i] {
				allMods[i][m] = roots[i].WithPrefix(modPrefix(m))
			}
		}
		model := make([][][]byte, n) // model[g][k]: last value goroutine g wrote under its key k (nil = absent)
		var wg sync.WaitGroup
		for g := 0; g < n; g++ {
			model[g] = make([][]byte, keysPer)
			wg.Add(1)
			go func(g int) {
				defer wg.Done()
				defer c.guard("nested view user")
				rr := hx.NewRng(seeds[g])
				m := g % modules
				root, mods := roots[g%2], allMods[g%2]
				for i := 0; !c.stopped(); i++ {
					// a fresh sibling view per access, derived from the shared module view (or from a fresh chain)
					var view *diffdb.Database
					if rr.Intn(3) == 0 {
						view = root.WithPrefix(modPrefix(m)).WithPrefix(storePrefix(g))
					} else {
						view = mods[m].WithPrefix(storePrefix(g))
					}
					k := rr.Intn(keysPer)
					key := []byte{byte(k)}
					switch rr.Intn(4) {
					case 0:
						view.Del(key)
						model[g][k] = nil
					case 1, 2:
						v := rr.Bytes(6)
						view.Set(key, v)
						model[g][k] = v
					}
					got, ok := view.Get(key)
					if want := model[g][k]; ok != (want != nil) || (ok && !bytes.Equal(got, want)) {
						c.fail("nested-view: goroutine %d reads key %d through its store view: got %x (found=%v), it last wrote %x", g, k, got, ok, want)
						return
					}
					if kvs := view.Range([]byte{0}, []byte{keysPer}, -1, rr.Bool()); len(kvs) > keysPer {
						c.fail("nested-view: goroutine %d sees %d keys in the range of its store view, it only ever wrote %d", g, len(kvs), keysPer)
						return
					}
					if kvs := view.Iterate([]byte{}, -1, false); len(kvs) > keysPer {
						c.fail("nested-view: goroutine %d sees %d keys in its store view, it only ever wrote %d", g, len(kvs), keysPer)
						return
					}
					c.tick(g)
					if i%32 == 0 {
						runtime.Gosched()
					}
				}
			}(g)
		}
		c.active.Store(true)
		c.sleep(cfg.ms)
		c.active.Store(false)
		c.stop.Store(true)
		c.join(&wg)
		if c.failed() {
			return
		}
		// sequential check through the root view with the fully spelled key
		for g := 0; g < n; g++ {
			for k := 0; k < keysPer; k++ {
				full := bytes.Join([][]byte{modPrefix(g % modules), storePrefix(g), {byte(k)}}, nil)
				got, ok := roots[g%2].Get(full)
				if want := model[g][k]; ok != (want != nil) || (ok && !bytes.Equal(got, want)) {
					c.fail("nested-view: root view reads %x = %x (found=%v), goroutine %d last wrote %x there", full, got, ok, g, want)
					return
				}
			}
		}
		c.tick(n)
	})
}
