// Writer history for the tip / by-height oracles (C20, "complete committed tip").
// The single writer numbers its operations (AddBlock / RemoveBlock calls).  BEFORE operation k it records what the
// operation will establish (the tip and the block at the affected height "from k on"), AFTER the call returned it
// publishes seq = k.  A reader samples seq before (s0) and after (s1) its call: whatever it was given must have been
// current in some chain state between "after operation s0" and "after operation s1+1" (operation s1+1 may be in
// progress).  A block that was never committed, a tip removed long ago or a tip frozen forever all fall outside.
package main

import (
	"sync"
	"sync/atomic"
)

type histEnt struct {
	from uint64 // holds from the state after operation `from`
	id   string // "" = no block
}

type chainHist struct {
	mu       sync.RWMutex
	seq      atomic.Uint64
	next     uint64 // number of the operation in progress / next to start (writer only)
	tips     []histEnt
	byHeight map[uint32][]histEnt
}

func newChainHist() *chainHist { return &chainHist{byHeight: map[uint32][]histEnt{}} }

// setup records the initial chain (state after operation 0)
func (h *chainHist) setup(height uint32, id string) {
	h.mu.Lock()
	h.byHeight[height] = append(h.byHeight[height], histEnt{0, id})
	h.tips = append(h.tips[:0], histEnt{0, id})
	h.mu.Unlock()
}

// begin announces operation seq+1: block `id` ("" = removed) at `height`, and the tip it leaves
func (h *chainHist) begin(height uint32, id, tipID string) {
	h.mu.Lock()
	h.next = h.seq.Load() + 1
	h.byHeight[height] = append(h.byHeight[height], histEnt{h.next, id})
	h.tips = append(h.tips, histEnt{h.next, tipID})
	h.mu.Unlock()
}

func (h *chainHist) end() { h.seq.Store(h.next) }

// current reports whether id was the recorded value in some state of the window [s0, s1+1]
func current(ents []histEnt, s0, s1 uint64, id string) bool {
	for i, e := range ents {
		until := ^uint64(0)
		if i+1 < len(ents) {
			until = ents[i+1].from - 1
		}
		if e.id == id && e.from <= s1+1 && until >= s0 {
			return true
		}
	}
	return false
}

func (h *chainHist) tipCurrent(s0, s1 uint64, id string) bool {
	h.mu.RLock()
	defer h.mu.RUnlock()
	return current(h.tips, s0, s1, id)
}

func (h *chainHist) atHeightCurrent(height uint32, s0, s1 uint64, id string) bool {
	h.mu.RLock()
	defer h.mu.RUnlock()
	ents := h.byHeight[height]
	if len(ents) == 0 {
		return id == ""
	}
	if id == "" && ents[0].from > s0 { // nothing at this height before its first block
		return true
	}
	return current(ents, s0, s1, id)
}
