// Scenario `canary`: positive control of the -race path. Two goroutines increment one counter without synchronisation;
// a binary built with -race and run like the other scenarios must produce a race report for it (the check fails its
// race-canary obligation otherwise).  Never part of `-scenario all`.
package main

import (
	"sync"

	"verifharness/internal/hx"
)

var canaryCounter int

func scenarioCanary(cfg config, r *hx.Rng) (rec, []mmRec) {
	c := newCtl("canary", cfg, 1, 1)
	return run(c, func() {
		var wg sync.WaitGroup
		for g := 0; g < 2; g++ {
			wg.Add(1)
			go func() {
				defer wg.Done()
				for i := 0; i < 1000; i++ {
					canaryCounter++
				}
			}()
		}
		wg.Wait()
		c.tick(0)
	})
}
