// Scenarios `evclose` and `evquit` (C20): Close / Unsubscribe / UnsubscribeAll racing with Publish.
//
//	evclose: every subscriber is LIVE (keeps receiving until its channel is closed) - the hypothesis of the property.
//	         Close, Unsubscribe (by a third party) and UnsubscribeAll are issued while publishers are in full flight;
//	         publishers keep publishing afterwards; late subscribers join and a final Close ends them.
//	evquit:  subscribers behave like the real consumers (engine, generator): `select { case <-ctx.Done(): return; case m := <-ch }`,
//	         i.e. they stop reading right before Close is called.  Close and every Publish must still return.
//
// Both run many short rounds on fresh emitters; a panic (send on closed channel, close of closed channel) is reported,
// a Close/Publish/subscriber that does not return trips the watchdog.
package main

import (
	"fmt"
	"runtime"
	"sync"
	"sync/atomic"
	"time"

	"github.com/LiskHQ/lisk-engine/pkg/event"

	"verifharness/internal/hx"
)

func scenarioEvClose(cfg config, r *hx.Rng) (rec, []mmRec) {
	n := cfg.readers
	c := newCtl("evclose", cfg, n+2, n)
	const topics, subsPer = 3, 3
	c.params["topics"], c.params["subscribers_per_topic"], c.params["ms"] = topics, subsPer, cfg.ms
	seed := r.U64()
	return run(c, func() {
		rr := hx.NewRng(seed)
		name := func(t int) string { return fmt.Sprintf("topic%d", t) }
		end := time.Now().Add(time.Duration(cfg.ms) * time.Millisecond)
		rounds := 0
		c.active.Store(true)
		for time.Now().Before(end) && !c.stopped() {
			rounds++
			ee := event.New()
			var subs, pubs, misc sync.WaitGroup
			var published [topics]atomic.Int64
			var got [topics][subsPer]atomic.Int64
			chans := [topics][subsPer]chan interface{}{}
			live := func(ch chan interface{}, cnt *atomic.Int64) {
				defer subs.Done()
				defer c.guard("subscriber")
				for range ch {
					if cnt != nil {
						cnt.Add(1)
					}
				}
			}
			for t := 0; t < topics; t++ {
				for s := 0; s < subsPer; s++ {
					ch := ee.Subscribe(name(t))
					chans[t][s] = ch
					subs.Add(1)
					go live(ch, &got[t][s])
				}
			}
			var stopPub atomic.Bool
			for p := 0; p < n; p++ {
				pubs.Add(1)
				pr := hx.NewRng(rr.U64())
				go func(p int) {
					defer pubs.Done()
					defer c.guard("publisher")
					for i := 0; !stopPub.Load() && !c.stopped(); i++ {
						t := pr.Intn(topics)
						if pr.Intn(4) == 0 {
							ee.Emit(name(t), i)
						} else {
							ee.Publish(name(t), i)
						}
						published[t].Add(1)
						c.tick(p)
						if i%16 == 0 {
							runtime.Gosched()
						}
					}
				}(p)
			}
			// third parties remove subscribers while the publishers are running
			mode := rr.Intn(3)
			misc.Add(1)
			go func() {
				defer misc.Done()
				defer c.guard("closer")
				time.Sleep(time.Duration(200+rr.Intn(1500)) * time.Microsecond)
				switch mode {
				case 0:
					_ = ee.Unsubscribe(name(0), chans[0][1])
					_ = ee.UnsubscribeAll(name(1))
				case 1:
					_ = ee.UnsubscribeAll(name(2))
					_ = ee.Unsubscribe(name(2), chans[2][0]) // already gone: must be an error, not a double close
				}
				time.Sleep(time.Duration(100+rr.Intn(500)) * time.Microsecond)
				_ = ee.Close()
				c.tick(n)
				// late live subscribers after Close; ended by the final Close below
				for k := 0; k < 2; k++ {
					subs.Add(1)
					go live(ee.Subscribe(name(k)), nil)
				}
			}()
			misc.Wait()
			time.Sleep(300 * time.Microsecond) // publishers keep publishing to the late subscribers
			stopPub.Store(true)
			pubs.Wait()
			_ = ee.Close()
			subs.Wait()
			for t := 0; t < topics; t++ {
				for s := 0; s < subsPer; s++ {
					if g, p := got[t][s].Load(), published[t].Load(); g > p+int64(n) {
						c.fail("subscriber %d of topic %d received %d messages, only %d were published", s, t, g, p)
					}
				}
			}
			c.tick(n + 1)
		}
		c.active.Store(false)
		c.setParam("rounds", rounds)
	})
}

func scenarioEvQuit(cfg config, r *hx.Rng) (rec, []mmRec) {
	n := cfg.readers
	c := newCtl("evquit", cfg, n+2, n)
	const topics, subsPer = 3, 2
	c.params["topics"], c.params["subscribers_per_topic"], c.params["ms"] = topics, subsPer, cfg.ms
	seed := r.U64()
	return run(c, func() {
		rr := hx.NewRng(seed)
		name := func(t int) string { return fmt.Sprintf("topic%d", t) }
		end := time.Now().Add(time.Duration(cfg.ms) * time.Millisecond)
		rounds := 0
		c.active.Store(true)
		for time.Now().Before(end) && !c.stopped() {
			rounds++
			ee := event.New()
			quit := make(chan struct{})
			var subs, pubs sync.WaitGroup
			selfUnsub := rr.Intn(2) == 0 // the subscriber unsubscribes itself from inside its receive loop
			for t := 0; t < topics; t++ {
				for s := 0; s < subsPer; s++ {
					ch := ee.Subscribe(name(t))
					topic := name(t)
					budget := 1 + rr.Intn(20)
					subs.Add(1)
					go func() { // the consumer loop of engine.go / generator.go
						defer subs.Done()
						defer c.guard("subscriber")
						for got := 0; ; {
							select {
							case <-quit:
								return
							case _, ok := <-ch:
								if !ok {
									return
								}
								got++
								if selfUnsub && got == budget {
									// stops reading and removes itself while publishers may be sending to it
									_ = ee.Unsubscribe(topic, ch)
									return
								}
							}
						}
					}()
				}
			}
			// somebody subscribes while publishers may be blocked on a reader that quit; must not wait for them
			var lateWG sync.WaitGroup
			lateWG.Add(1)
			lateDelay := time.Duration(100+rr.Intn(300)) * time.Microsecond
			lateSubscribed := make(chan struct{})
			go func() {
				defer lateWG.Done()
				defer c.guard("late subscriber")
				time.Sleep(lateDelay)
				ch := ee.Subscribe(name(0))
				close(lateSubscribed)
				for range ch {
				}
			}()
			var stopPub atomic.Bool
			for p := 0; p < n; p++ {
				pubs.Add(1)
				pr := hx.NewRng(rr.U64())
				go func(p int) {
					defer pubs.Done()
					defer c.guard("publisher")
					for i := 0; !stopPub.Load() && !c.stopped(); i++ {
						ee.Publish(name(pr.Intn(topics)), i)
						c.tick(p)
						if i%16 == 0 {
							runtime.Gosched()
						}
					}
				}(p)
			}
			time.Sleep(time.Duration(200+rr.Intn(800)) * time.Microsecond)
			close(quit) // ctx.Done(): the consumers stop reading ...
			subs.Wait()
			c.setParam("phase", 1) // ... and then the owner shuts the emitter down (Executer.Stop / TransactionPool.End)
			_ = ee.Close()
			c.setParam("phase", 2)
			stopPub.Store(true)
			pubs.Wait()
			c.setParam("phase", 3)
			<-lateSubscribed // Subscribe itself must not hang (watchdog)
			_ = ee.Close()   // ends the late subscriber if it subscribed after the first Close
			lateWG.Wait()
			c.setParam("phase", 0)
			c.tick(n + 1)
		}
		c.active.Store(false)
		c.setParam("rounds", rounds)
	})
}
