// C20 concurrency stress driver: runs the real shared chain-data objects (block cache / data access, bulk
// lookups, certificate pool, event emitter, diff database) under concurrent load with a watchdog, and writes
// one JSONL record per scenario (plus, for `bulk`, one record per mismatching lookup, at most 20).
package main

import (
	"bytes"
	"errors"
	"flag"
	"fmt"
	"os"
	"runtime"
	"sort"
	"strings"
	"sync"
	"sync/atomic"
	"time"

	"github.com/LiskHQ/lisk-engine/pkg/blockchain"
	"github.com/LiskHQ/lisk-engine/pkg/codec"
	"github.com/LiskHQ/lisk-engine/pkg/consensus/certificate"
	"github.com/LiskHQ/lisk-engine/pkg/crypto"
	"github.com/LiskHQ/lisk-engine/pkg/db"
	"github.com/LiskHQ/lisk-engine/pkg/db/diffdb"
	"github.com/LiskHQ/lisk-engine/pkg/event"
	"github.com/LiskHQ/lisk-engine/pkg/trie/rmt"

	"verifharness/internal/hx"
)

const unknownItem = -999

type rec struct {
	K       string         `json:"k"`
	Sub     string         `json:"sub"`
	OK      bool           `json:"ok"`
	Hang    bool           `json:"hang"`
	Panic   string         `json:"panic"`
	What    string         `json:"what"`
	Ops     int            `json:"ops"`
	Readers int            `json:"readers"`
	Params  map[string]int `json:"params"`
	Dump    string         `json:"dump,omitempty"`
}

type mmRec struct {
	rec
	Req  []int `json:"req"`
	Want []int `json:"want"`
	Got  []int `json:"got"`
}

type config struct {
	readers, ms, rounds int
	wd                  time.Duration
}

// ctl is the per-scenario control block: progress counters, stop flag, first failure, first panic, mismatches.
type ctl struct {
	name    string
	readers int
	wd      time.Duration
	cnt     []atomic.Int64 // progress counters, one slot per worker
	nops    int            // ops = sum of cnt[:nops]
	stop    atomic.Bool
	active  atomic.Bool  // the op workers (slots < nops) are supposed to be running
	joinAt  atomic.Int64 // unix nanos at which the final join started (0 = not joining)
	mu      sync.Mutex
	what    string
	pan     string
	mism    []mmRec
	nmism   int
	params  map[string]int
}

func newCtl(name string, cfg config, slots, nops int) *ctl {
	return &ctl{name: name, readers: cfg.readers, wd: cfg.wd, cnt: make([]atomic.Int64, slots), nops: nops, params: map[string]int{}}
}

func (c *ctl) tick(i int)    { c.cnt[i].Add(1) }
func (c *ctl) stopped() bool { return c.stop.Load() }
func (c *ctl) sum(n int) int64 {
	var t int64
	for i := 0; i < n; i++ {
		t += c.cnt[i].Load()
	}
	return t
}
func (c *ctl) setParam(k string, v int) {
	c.mu.Lock()
	c.params[k] = v
	c.mu.Unlock()
}

// fail records the first violation and asks the workers to stop.
func (c *ctl) fail(format string, a ...interface{}) {
	c.mu.Lock()
	if c.what == "" {
		c.what = fmt.Sprintf(format, a...)
	}
	c.mu.Unlock()
	c.stop.Store(true)
}

// guard must be deferred directly by every goroutine that calls code under test.
func (c *ctl) guard(who string) {
	r := recover()
	if r == nil {
		return
	}
	site := panicSite()
	c.mu.Lock()
	if c.pan == "" {
		c.pan = fmt.Sprintf("%v @ %s [%s]", r, site, who)
	}
	c.mu.Unlock()
	c.stop.Store(true)
}

// panicSite returns the innermost frame of the code under test on the panicking stack.
func panicSite() string {
	pcs := make([]uintptr, 64)
	n := runtime.Callers(3, pcs)
	frames := runtime.CallersFrames(pcs[:n])
	first := ""
	for {
		f, more := frames.Next()
		if !strings.HasPrefix(f.Function, "runtime.") && first == "" {
			first = fmt.Sprintf("%s:%d", f.Function, f.Line)
		}
		if strings.Contains(f.Function, "lisk-engine") {
			return fmt.Sprintf("%s:%d", f.Function, f.Line)
		}
		if !more {
			return first
		}
	}
}

// sleep waits for the stress duration or until a worker asked to stop.
func (c *ctl) sleep(ms int) {
	end := time.Now().Add(time.Duration(ms) * time.Millisecond)
	for time.Now().Before(end) && !c.stopped() {
		time.Sleep(5 * time.Millisecond)
	}
}

// join is the final join of the workers: the watchdog bounds its duration.
func (c *ctl) join(wg *sync.WaitGroup) {
	c.joinAt.Store(time.Now().UnixNano())
	wg.Wait()
	c.joinAt.Store(0)
}

func (c *ctl) mismatch(sub, what string, req, want, got []int) {
	c.mu.Lock()
	defer c.mu.Unlock()
	c.nmism++
	if len(c.mism) >= 20 {
		return
	}
	nz := func(a []int) []int { return append([]int{}, a...) }
	c.mism = append(c.mism, mmRec{rec: rec{K: c.name, Sub: sub, What: what, Readers: c.readers, Params: map[string]int{}},
		Req: nz(req), Want: nz(want), Got: nz(got)})
}

// stacks is runtime.Stack(all) with the goroutines inside the code under test moved to the front (distinct stacks first),
// truncated to 6000 bytes.
func stacks() string {
	buf := make([]byte, 4<<20)
	buf = buf[:runtime.Stack(buf, true)]
	var in, dup, other []string
	seen := map[string]bool{}
	for _, g := range strings.Split(string(buf), "\n\n") {
		if !strings.Contains(g, "lisk-engine/pkg") {
			other = append(other, g)
			continue
		}
		// signature = the source positions of the stack: goroutines blocked at the same place come once first
		sig := ""
		for _, l := range strings.Split(g, "\n") {
			if strings.HasPrefix(l, "\t") {
				sig += strings.SplitN(l, " +0x", 2)[0]
			}
		}
		if seen[sig] {
			dup = append(dup, g)
		} else {
			seen[sig] = true
			in = append(in, g)
		}
	}
	s := strings.Join(append(append(in, dup...), other...), "\n\n")
	if len(s) > 6000 {
		s = s[:6000]
	}
	return s
}

// run executes body under the watchdog and returns the summary record and the mismatch records.
func run(c *ctl, body func()) (rec, []mmRec) {
	done := make(chan struct{})
	go func() {
		defer close(done)
		defer c.guard("scenario body")
		body()
	}()
	hang, dump := false, ""
	last, lastT := c.sum(len(c.cnt)), time.Now()
	lastOps, lastOpsT := c.sum(c.nops), lastT
	tk := time.NewTicker(20 * time.Millisecond)
	defer tk.Stop()
loop:
	for {
		select {
		case <-done:
			break loop
		case now := <-tk.C:
			if t := c.sum(len(c.cnt)); t != last {
				last, lastT = t, now
			}
			if t := c.sum(c.nops); t != lastOps || !c.active.Load() {
				lastOps, lastOpsT = t, now
			}
			j := c.joinAt.Load()
			if now.Sub(lastT) > c.wd || now.Sub(lastOpsT) > c.wd || (j != 0 && time.Duration(now.UnixNano()-j) > c.wd) {
				hang, dump = true, stacks()
				c.stop.Store(true) // workers that are not stuck exit; the stuck ones are leaked
				break loop
			}
		}
	}
	c.mu.Lock()
	defer c.mu.Unlock()
	r := rec{K: c.name, Hang: hang, Panic: c.pan, What: c.what, Ops: int(c.sum(c.nops)), Readers: c.readers, Params: map[string]int{}, Dump: dump}
	for k, v := range c.params {
		r.Params[k] = v
	}
	if c.name == "bulk" {
		r.Params["mismatches"] = c.nmism
	}
	if hang && r.What == "" {
		r.What = fmt.Sprintf("no progress / join not finished within %d ms", c.wd.Milliseconds())
	}
	if r.Panic != "" && r.What == "" {
		r.What = "panic in worker"
	}
	if c.nmism > 0 && r.What == "" {
		r.What = fmt.Sprintf("%d mismatching lookups", c.nmism)
	}
	r.OK = !hang && r.Panic == "" && r.What == ""
	return r, append([]mmRec{}, c.mism...)
}

// ---------------------------------------------------------------------------------------------------------
// chain fixture shared by `cache` and `bulk`

type blkInfo struct {
	height uint32
	ntx    int
}

type fixture struct {
	chain    *blockchain.Chain
	da       *blockchain.DataAccess
	database *db.DB
	blocks   []*blockchain.Block          // stable prefix, index = height (0 = genesis); never modified after setup
	reg      sync.Map                     // string(block id) -> blkInfo, registered BEFORE AddBlock
	enc      sync.Map                     // string(block id) -> encoded block, registered BEFORE AddBlock
	recent   [64]atomic.Pointer[recentID] // id last committed at height h, slot h%64
	tip      atomic.Uint32                // height last published by the writer (approximate for readers)
	hist     *chainHist
	maxDepth uint32 // the writer never goes more than this below the highest height reached (0 = 10)
	maxRun   int    // longest run of consecutive removals/additions (0 = 5)
}

func mkBlock(r *hx.Rng, height uint32, prev []byte, ntx int) *blockchain.Block {
	b := &blockchain.Block{Header: &blockchain.BlockHeader{
		Version: 2, Timestamp: height * 10, Height: height, PreviousBlockID: prev, GeneratorAddress: r.Bytes(20),
		AssetRoot: r.Bytes(32), EventRoot: r.Bytes(32), StateRoot: r.Bytes(32), ValidatorsHash: r.Bytes(32),
		AggregateCommit: &blockchain.AggregateCommit{}, Signature: r.Bytes(64),
	}}
	if height == 0 {
		b.Header.Version, b.Header.GeneratorAddress, b.Header.Signature = 0, make([]byte, 20), []byte{}
	}
	ids := make([][]byte, ntx)
	for i := 0; i < ntx; i++ {
		tx := &blockchain.Transaction{Module: "token", Command: "transfer", Nonce: r.U64(), Fee: uint64(r.U32()),
			SenderPublicKey: r.Bytes(32), Params: r.Bytes(40), Signatures: []codec.Hex{r.Bytes(64)}}
		tx.Init()
		b.Transactions = append(b.Transactions, tx)
		ids[i] = tx.ID
	}
	b.Header.TransactionRoot = rmt.CalculateRoot(ids)
	if ntx > 0 {
		b.Assets = blockchain.BlockAssets{{Module: "c20", Data: r.Bytes(24)}}
	}
	b.Init()
	return b
}

func newFixture(c *ctl, r *hx.Rng, slot, height, ntx int) *fixture {
	return newFixtureCache(c, r, slot, height, ntx, 32)
}

func (f *fixture) register(b *blockchain.Block, ntx int) {
	f.reg.Store(string(b.Header.ID), blkInfo{b.Header.Height, ntx})
	f.enc.Store(string(b.Header.ID), b.Encode())
	f.recent[b.Header.Height%64].Store(&recentID{height: b.Header.Height, id: append([]byte{}, b.Header.ID...)})
}

type recentID struct {
	height uint32
	id     []byte
}

func newFixtureCache(c *ctl, r *hx.Rng, slot, height, ntx, cache int) *fixture {
	database, err := db.NewInMemoryDB()
	if err != nil {
		panic(err)
	}
	f := &fixture{database: database, hist: newChainHist()}
	f.chain = blockchain.NewChain(&blockchain.ChainConfig{ChainID: []byte{4, 0, 0, 0}, MaxTransactionsLength: 1 << 24, MaxBlockCache: cache, KeepEventsForHeights: -1})
	genesis := mkBlock(r, 0, make([]byte, 32), 0)
	f.chain.Init(genesis, database)
	f.da = f.chain.DataAccess()
	f.register(genesis, 0)
	if err := f.chain.AddBlock(database.NewBatch(), genesis, []*blockchain.Event{}, 0, false); err != nil {
		panic(err)
	}
	f.blocks = []*blockchain.Block{genesis}
	f.hist.setup(0, string(genesis.Header.ID))
	for h := 1; h <= height; h++ {
		b := mkBlock(r, uint32(h), f.blocks[h-1].Header.ID, ntx)
		f.register(b, ntx)
		if err := f.chain.AddBlock(database.NewBatch(), b, []*blockchain.Event{}, 0, false); err != nil {
			panic(err)
		}
		f.blocks = append(f.blocks, b)
		f.hist.setup(uint32(h), string(b.Header.ID))
		c.tick(slot)
	}
	f.tip.Store(uint32(height))
	return f
}

// churn is the single writer: add 1..5 blocks, remove 1..5 blocks, never below minH and never more than 10 below
// the highest height ever reached (the cache of 32 blocks never becomes empty).
func (f *fixture) churn(c *ctl, slot int, r *hx.Rng, minH uint32, ntx int) {
	defer c.guard("writer")
	own := append([]*blockchain.Block{}, f.blocks...) // index = height
	cur := uint32(len(own) - 1)
	maxEver := cur
	depth, run := uint32(10), 5
	if f.maxDepth > 0 {
		depth = f.maxDepth
	}
	if f.maxRun > 0 {
		run = f.maxRun
	}
	for !c.stopped() {
		for a := 1 + r.Intn(run); a > 0 && !c.stopped(); a-- {
			b := mkBlock(r, cur+1, own[cur].Header.ID, ntx)
			f.register(b, ntx) // content only (for byte comparison); currency is decided by the history bracket
			f.hist.begin(cur+1, string(b.Header.ID), string(b.Header.ID))
			if err := f.chain.AddBlock(f.database.NewBatch(), b, []*blockchain.Event{}, 0, false); err != nil {
				c.fail("AddBlock(height %d): %v", cur+1, err)
				return
			}
			f.hist.end()
			own = append(own, b)
			cur++
			f.tip.Store(cur)
			if cur > maxEver {
				maxEver = cur
			}
			c.tick(slot)
		}
		for d := 1 + r.Intn(run); d > 0 && !c.stopped(); d-- {
			if cur <= minH || cur+depth <= maxEver {
				break
			}
			f.hist.begin(cur, "", string(own[cur-1].Header.ID))
			if err := f.chain.RemoveBlock(f.database.NewBatch(), false); err != nil {
				c.fail("RemoveBlock(height %d): %v", cur, err)
				return
			}
			f.hist.end()
			own = own[:cur]
			cur--
			f.tip.Store(cur)
			c.tick(slot)
		}
		runtime.Gosched()
	}
	c.setParam("max_height", int(maxEver))
}

// ---------------------------------------------------------------------------------------------------------
// scenario 1: cache

func scenarioCache(cfg config, r *hx.Rng) (rec, []mmRec) {
	n := cfg.readers
	c := newCtl("cache", cfg, n+2, n+1)
	const base, minH, ntx = 40, 30, 2
	c.params["height"], c.params["min_height"], c.params["txs"], c.params["max_block_cache"], c.params["ms"] = base, minH, ntx, 32, cfg.ms
	seeds := make([]uint64, n+2)
	for i := range seeds {
		seeds[i] = r.U64()
	}
	return run(c, func() {
		f := newFixture(c, hx.NewRng(seeds[n+1]), n+1, base, ntx)
		var torn atomic.Int64
		var wg sync.WaitGroup
		wg.Add(1)
		go func() { defer wg.Done(); f.churn(c, n, hx.NewRng(seeds[n]), minH, ntx) }()
		for i := 0; i < n; i++ {
			wg.Add(1)
			go func(i int) { defer wg.Done(); f.cacheReader(c, i, hx.NewRng(seeds[i]), minH, &torn) }(i)
		}
		c.active.Store(true)
		c.sleep(cfg.ms)
		c.active.Store(false)
		c.stop.Store(true)
		c.join(&wg)
		c.setParam("torn_reads", int(torn.Load()))
	})
}

// tipInBracket: the tip a reader was given must have been the chain tip in some state between the writer operation that
// had completed when the call started and the one that may be in progress when it returned.
func (f *fixture) tipInBracket(c *ctl, site string, b *blockchain.Block, s0 uint64) {
	s1 := f.hist.seq.Load()
	if b == nil || b.Header == nil {
		c.fail("nil-tip: %s returned a nil block", site)
		return
	}
	if !f.hist.tipCurrent(s0, s1, string(b.Header.ID)) {
		c.fail("stale-tip: %s returned the block of height %d, which was not the tip in any chain state between writer operations %d and %d", site, b.Header.Height, s0, s1+1)
	}
}

func (f *fixture) cacheReader(c *ctl, slot int, r *hx.Rng, minH uint32, torn *atomic.Int64) {
	defer c.guard("reader")
	da := f.da
	// complete: a committed block the writer created, whole (registered height and transaction count).
	complete := func(site string, b *blockchain.Block) {
		if b == nil || b.Header == nil {
			c.fail("%s returned a nil block or a nil header", site)
			return
		}
		v, ok := f.reg.Load(string(b.Header.ID))
		if !ok {
			c.fail("%s returned block %x (height %d) that the writer never created", site, []byte(b.Header.ID), b.Header.Height)
			return
		}
		if in := v.(blkInfo); in.height != b.Header.Height || in.ntx != len(b.Transactions) {
			c.fail("%s returned block %x with height %d / %d txs, registered as height %d / %d txs", site, []byte(b.Header.ID), b.Header.Height, len(b.Transactions), in.height, in.ntx)
		}
	}
	header := func(site string, hd *blockchain.BlockHeader, wantH int64) bool {
		if hd == nil {
			c.fail("%s returned a nil header without error", site)
			return false
		}
		v, ok := f.reg.Load(string(hd.ID))
		if !ok {
			c.fail("%s returned header %x (height %d) that the writer never created", site, []byte(hd.ID), hd.Height)
			return false
		}
		if in := v.(blkInfo); in.height != hd.Height || (wantH >= 0 && int64(hd.Height) != wantH) {
			c.fail("%s returned header %x with height %d (registered %d, requested %d)", site, []byte(hd.ID), hd.Height, in.height, wantH)
			return false
		}
		return true
	}
	// miss handles an error return: not-found is fine in the churn zone only.
	miss := func(site string, err error, stable bool) {
		if !errors.Is(err, db.ErrDataNotFound) {
			c.fail("%s: unexpected error %v", site, err)
		} else if stable {
			c.fail("%s: not found for an item that is never removed", site)
		}
	}
	var lastID []byte
	for n := 0; !c.stopped(); n++ {
		tip := int(f.tip.Load())
		h := uint32(tip - 12 + r.Intn(15))
		switch r.Intn(8) {
		case 0:
			s0 := f.hist.seq.Load()
			b := f.chain.LastBlock()
			f.tipInBracket(c, "Chain.LastBlock", b, s0)
			complete("Chain.LastBlock", b)
		case 1:
			s0 := f.hist.seq.Load()
			if b, err := da.GetLastBlock(); err != nil {
				c.fail("nil-tip: DataAccess.GetLastBlock: %v", err)
			} else {
				f.tipInBracket(c, "DataAccess.GetLastBlock", b, s0)
				complete("DataAccess.GetLastBlock", b)
			}
		case 2:
			s0 := f.hist.seq.Load()
			b := da.CachedLastBlock()
			f.tipInBracket(c, "DataAccess.CachedLastBlock", b, s0)
			complete("DataAccess.CachedLastBlock", b)
		case 3:
			da.Cached(h)
		case 4:
			if hd, err := da.GetBlockHeaderByHeight(h); err != nil {
				miss(fmt.Sprintf("GetBlockHeaderByHeight(%d)", h), err, h <= minH)
			} else if header(fmt.Sprintf("GetBlockHeaderByHeight(%d)", h), hd, int64(h)) {
				lastID = hd.ID
			}
		case 5:
			id, stable := lastID, false
			if id == nil || r.Intn(3) == 0 {
				id, stable = f.blocks[1+r.Intn(int(minH))].Header.ID, true
			} else if r.Intn(8) == 0 {
				id = r.Bytes(32)
			}
			if hd, err := da.GetBlockHeader(id); err != nil {
				miss("GetBlockHeader", err, stable)
			} else if header("GetBlockHeader", hd, -1) && !bytes.Equal(hd.ID, id) {
				c.fail("GetBlockHeader(%x) returned header %x", id, []byte(hd.ID))
			}
		case 6:
			if b, err := da.GetBlockByHeight(h); err != nil {
				miss(fmt.Sprintf("GetBlockByHeight(%d)", h), err, h <= minH)
			} else if b == nil {
				c.fail("GetBlockByHeight(%d) returned nil without error", h)
			} else if header(fmt.Sprintf("GetBlockByHeight(%d)", h), b.Header, int64(h)) {
				if v, _ := f.reg.Load(string(b.Header.ID)); v.(blkInfo).ntx != len(b.Transactions) {
					if h <= minH {
						c.fail("GetBlockByHeight(%d) returned %d transactions for a stable block", h, len(b.Transactions))
					}
					torn.Add(1) // informational: non-atomic database read of a block removed meanwhile
				}
			}
		case 7:
			s0 := f.hist.seq.Load()
			if hd, err := da.GetLastBlockHeader(); err != nil {
				miss("GetLastBlockHeader", err, false)
			} else if hd != nil && !f.hist.tipCurrent(s0, f.hist.seq.Load(), string(hd.ID)) {
				c.fail("stale-tip: GetLastBlockHeader returned the header of height %d, which was not the tip in any chain state of the call's bracket", hd.Height)
			} else {
				header("GetLastBlockHeader", hd, -1)
			}
		}
		c.tick(slot)
		if n%64 == 0 {
			runtime.Gosched()
		}
	}
}

// ---------------------------------------------------------------------------------------------------------
// scenario 2: bulk

func sortedCopy(a []int) []int {
	b := append([]int{}, a...)
	sort.Ints(b)
	return b
}

func sameInts(a, b []int) bool {
	if len(a) != len(b) {
		return false
	}
	for i := range a {
		if a[i] != b[i] {
			return false
		}
	}
	return true
}

// pickMixed returns k distinct values of lo..hi mixed, at random positions, with -1..-miss (deliberately missing).
func pickMixed(r *hx.Rng, lo, hi, k, miss int) []int {
	pool := make([]int, hi-lo+1)
	for i := range pool {
		pool[i] = lo + i
	}
	for i := 0; i < k; i++ {
		j := i + r.Intn(len(pool)-i)
		pool[i], pool[j] = pool[j], pool[i]
	}
	req := pool[:k]
	for m := 1; m <= miss; m++ {
		req = append(req, -m)
		j := r.Intn(len(req))
		req[j], req[len(req)-1] = req[len(req)-1], req[j]
	}
	return req
}

func existing(req []int) []int {
	w := []int{}
	for _, v := range req {
		if v >= 0 {
			w = append(w, v)
		}
	}
	return sortedCopy(w)
}

func scenarioBulk(cfg config, r *hx.Rng) (rec, []mmRec) {
	n := cfg.readers
	c := newCtl("bulk", cfg, n+2, n)
	const base, ntx = 40, 3
	c.params["height"], c.params["txs"], c.params["rounds"], c.params["max_block_cache"] = base, ntx, cfg.rounds, 32
	seeds := make([]uint64, n+2)
	for i := range seeds {
		seeds[i] = r.U64()
	}
	return run(c, func() {
		f := newFixture(c, hx.NewRng(seeds[n+1]), n+1, base, ntx)
		blockIdx, txIdx := map[string]int{}, map[string]int{}
		txIDs := [][]byte{}
		for h := 1; h <= base; h++ {
			blockIdx[string(f.blocks[h].Header.ID)] = h
			for _, tx := range f.blocks[h].Transactions {
				txIdx[string(tx.ID)] = len(txIDs)
				txIDs = append(txIDs, tx.ID)
			}
		}
		hdrs := func(hs []*blockchain.BlockHeader) []int {
			got := []int{}
			for _, hd := range hs {
				idx, ok := 0, false
				if hd != nil {
					idx, ok = blockIdx[string(hd.ID)]
					ok = ok && int(hd.Height) == idx
				}
				if !ok {
					idx = unknownItem
				}
				got = append(got, idx)
			}
			return sortedCopy(got)
		}
		lookup := func(r *hx.Rng) {
			var sub, what string
			var req, want, got []int
			var err error
			switch r.Intn(4) {
			case 0:
				sub = "GetBlockHeaders"
				req = pickMixed(r, 1, base, 1+r.Intn(24), r.Intn(5))
				ids := make([][]byte, len(req))
				for i, v := range req {
					if v >= 0 {
						ids[i] = f.blocks[v].Header.ID
					} else {
						ids[i] = r.Bytes(32)
					}
				}
				var hs []*blockchain.BlockHeader
				hs, err = f.da.GetBlockHeaders(ids)
				want, got = existing(req), hdrs(hs)
			case 1:
				sub = "GetBlockHeadersByHeights"
				req = pickMixed(r, 1, base, 1+r.Intn(24), r.Intn(4))
				heights := make([]uint32, len(req))
				for i, v := range req {
					if v >= 0 {
						heights[i] = uint32(v)
					} else {
						heights[i] = uint32(1_000_000 - v)
					}
				}
				var hs []*blockchain.BlockHeader
				hs, err = f.da.GetBlockHeadersByHeights(heights)
				want, got = existing(req), hdrs(hs)
			case 2:
				sub = "GetTransactions"
				req = pickMixed(r, 0, len(txIDs)-1, 1+r.Intn(24), r.Intn(5))
				ids := make([][]byte, len(req))
				for i, v := range req {
					if v >= 0 {
						ids[i] = txIDs[v]
					} else {
						ids[i] = r.Bytes(32)
					}
				}
				var txs []*blockchain.Transaction
				txs, err = f.da.GetTransactions(ids)
				want, got = existing(req), []int{}
				for _, tx := range txs {
					idx, ok := 0, false
					if tx != nil {
						idx, ok = txIdx[string(tx.ID)]
					}
					if !ok {
						idx = unknownItem
					}
					got = append(got, idx)
				}
				got = sortedCopy(got)
			case 3:
				sub = "GetBlocksBetweenHeight"
				from := 1 + r.Intn(base)
				to := from + r.Intn(base-from+1)
				req = []int{from, to}
				var bs []*blockchain.Block
				bs, err = f.da.GetBlocksBetweenHeight(uint32(from), uint32(to))
				want, got = []int{}, []int{}
				for h := from; h <= to; h++ {
					want = append(want, h)
				}
				for _, b := range bs {
					idx, ok := 0, false
					if b != nil && b.Header != nil {
						idx, ok = blockIdx[string(b.Header.ID)]
						ok = ok && len(b.Transactions) == ntx
					}
					if !ok {
						idx = unknownItem
					}
					got = append(got, idx)
				}
				got = sortedCopy(got)
			}
			if err != nil {
				what = "error: " + err.Error()
			} else if !sameInts(want, got) {
				what = fmt.Sprintf("expected %d items, got %d (or different items)", len(want), len(got))
			}
			if what != "" {
				c.mismatch(sub, what, req, want, got)
			}
		}
		var wwg, wg sync.WaitGroup
		wwg.Add(1)
		go func() { defer wwg.Done(); f.churn(c, n, hx.NewRng(seeds[n]), base, ntx) }()
		for i := 0; i < n; i++ {
			wg.Add(1)
			go func(i int) {
				defer wg.Done()
				defer c.guard("lookup")
				rr := hx.NewRng(seeds[i])
				for k := 0; k < cfg.rounds && !c.stopped(); k++ {
					lookup(rr)
					c.tick(i)
					runtime.Gosched()
				}
			}(i)
		}
		c.active.Store(true)
		wg.Wait() // lookups: the watchdog requires them to make progress
		c.active.Store(false)
		c.stop.Store(true)
		c.join(&wwg)
	})
}

// ---------------------------------------------------------------------------------------------------------
// scenario 3: certpool

// mkCommit builds an external (not internal) SingleCommit through the exported codec, as a decoded gossip message.
func mkCommit(blockID []byte, height uint32, addr, sig []byte) *certificate.SingleCommit {
	w := codec.NewWriter()
	w.WriteBytes(1, blockID)
	w.WriteUInt32(2, height)
	w.WriteBytes(3, addr)
	w.WriteBytes(4, sig)
	sc := &certificate.SingleCommit{}
	if err := sc.Decode(w.Result()); err != nil {
		panic(err)
	}
	return sc
}

func scenarioCertpool(cfg config, r *hx.Rng) (rec, []mmRec) {
	n := cfg.readers
	c := newCtl("certpool", cfg, n+1, n)
	const maxAdds, internalPer = 300, 2
	c.params["max_adds_per_goroutine"], c.params["internal_per_goroutine"], c.params["ms"] = maxAdds, internalPer, cfg.ms
	seeds := make([]uint64, n+1)
	for i := range seeds {
		seeds[i] = r.U64()
	}
	return run(c, func() {
		pool := certificate.NewPool()
		r0 := hx.NewRng(seeds[n])
		kp := crypto.BLSKeyGen(r0.Bytes(32))
		internal := make([][]*certificate.SingleCommit, n) // internal=true commits through the exported constructor
		for g := 0; g < n; g++ {
			for j := 0; j < internalPer; j++ {
				hd := &blockchain.BlockHeader{ID: append([]byte{0xee, byte(g), byte(j)}, r0.Bytes(29)...), Height: uint32(1 + r0.Intn(300)), StateRoot: r0.Bytes(32), ValidatorsHash: r0.Bytes(32)}
				internal[g] = append(internal[g], certificate.NewSingleCommit(hd, r0.Bytes(20), []byte{4, 0, 0, 0}, kp.PrivateKey))
				c.tick(n)
			}
		}
		var started, finished atomic.Int64
		var wg sync.WaitGroup
		for g := 0; g < n; g++ {
			wg.Add(1)
			go func(g int) {
				defer wg.Done()
				defer c.guard("pool worker")
				rr := hx.NewRng(seeds[g])
				own := []*certificate.SingleCommit{}
				var lastSel certificate.SingleCommits
				fresh := func() *certificate.SingleCommit {
					id := append([]byte{byte(g), byte(len(own) >> 8), byte(len(own))}, rr.Bytes(29)...)
					return mkCommit(id, uint32(1+rr.Intn(300)), append([]byte{byte(g)}, rr.Bytes(19)...), rr.Bytes(96))
				}
				for k := 0; !c.stopped(); k++ {
					switch op := rr.Intn(10); {
					case op <= 2:
						if len(own) >= maxAdds {
							break
						}
						sc := fresh()
						if len(own) < internalPer {
							sc = internal[g][len(own)]
						}
						started.Add(1)
						pool.Add(sc)
						finished.Add(1)
						own = append(own, sc)
					case op == 3:
						if len(own) > 0 && !pool.Has(own[rr.Intn(len(own))]) {
							c.fail("Has(own added commit) = false although nothing is ever cleaned up")
						}
					case op == 4:
						if pool.Has(fresh()) {
							c.fail("Has(never added commit) = true")
						}
					case op == 5:
						lo := finished.Load()
						s := int64(pool.Size())
						if hi := started.Load(); s < lo || s > hi {
							c.fail("Size() = %d outside [%d adds finished before, %d adds started after]", s, lo, hi)
						}
					case op == 6:
						h := uint32(1 + rr.Intn(300))
						for _, sc := range pool.Get(h) {
							if sc == nil || sc.Height() != h {
								c.fail("Get(%d) returned a nil commit or a commit of another height", h)
							}
						}
					case op == 7:
						limit := rr.Intn(21)
						sel := pool.Select(uint32(rr.Intn(600)), limit)
						if len(sel) > limit {
							c.fail("Select(limit %d) returned %d commits", limit, len(sel))
						}
						for _, sc := range sel {
							if sc == nil {
								c.fail("Select returned a nil entry")
							}
						}
						lastSel = sel
					case op == 8:
						pool.Upgrade(lastSel)
					case op == 9:
						pool.Cleanup(func(h uint32) bool { return true })
					}
					c.tick(g)
					if k%16 == 0 {
						runtime.Gosched()
					}
				}
			}(g)
		}
		c.active.Store(true)
		c.sleep(cfg.ms)
		c.active.Store(false)
		c.stop.Store(true)
		c.join(&wg)
		c.setParam("adds", int(finished.Load()))
		if s := pool.Size(); int64(s) != finished.Load() && !c.failed() {
			c.fail("final Size() = %d, total Adds = %d", s, finished.Load())
		}
	})
}

// failed reports whether a failure or a panic was already recorded (final checks are then moot).
func (c *ctl) failed() bool {
	c.mu.Lock()
	defer c.mu.Unlock()
	return c.what != "" || c.pan != ""
}

// ---------------------------------------------------------------------------------------------------------
// scenario 4: events

func scenarioEvents(cfg config, r *hx.Rng) (rec, []mmRec) {
	n := cfg.readers
	c := newCtl("events", cfg, n+2, n)
	const topics, early, maxK, minK, maxLate = 4, 3, 20000, 200, 40
	c.params["topics"], c.params["early_subscribers"], c.params["max_publishes"], c.params["ms"] = topics, early, maxK, cfg.ms
	seeds := make([]uint64, n+1)
	for i := range seeds {
		seeds[i] = r.U64()
	}
	return run(c, func() {
		ee := event.New()
		name := func(t int) string { return fmt.Sprintf("topic%d", t) }
		var subs sync.WaitGroup // all subscriber goroutines
		var counts [topics][early]atomic.Int64
		var ended atomic.Int64
		receive := func(ch chan interface{}, cnt *atomic.Int64) {
			defer subs.Done()
			k := int64(0)
			for range ch {
				k++
			}
			if cnt != nil {
				cnt.Store(k)
			}
			ended.Add(1)
		}
		for t := 0; t < topics; t++ {
			for l := 0; l < early; l++ {
				subs.Add(1)
				go receive(ee.Subscribe(name(t)), &counts[t][l])
			}
		}
		var totals [topics]atomic.Int64
		var pubs, late sync.WaitGroup
		var pubsDone atomic.Bool
		deadline := time.Now().Add(time.Duration(cfg.ms) * time.Millisecond)
		for p := 0; p < n; p++ {
			pubs.Add(1)
			go func(p int) {
				defer pubs.Done()
				defer c.guard("publisher")
				rr := hx.NewRng(seeds[p])
				for i := 0; i < maxK && !c.stopped(); i++ {
					if i >= minK && time.Now().After(deadline) {
						break
					}
					t := rr.Intn(topics)
					ee.Publish(name(t), i)
					totals[t].Add(1)
					c.tick(p)
					if i%32 == 0 {
						runtime.Gosched()
					}
				}
			}(p)
		}
		nlate := 0
		late.Add(1)
		go func() {
			defer late.Done()
			defer c.guard("late subscriber")
			rr := hx.NewRng(seeds[n])
			for !pubsDone.Load() && !c.stopped() && nlate < maxLate {
				t := name(rr.Intn(topics))
				subs.Add(1)
				if rr.Bool() {
					go receive(ee.Subscribe(t), nil)
				} else {
					ch := make(chan interface{})
					go receive(ch, nil) // live before it is registered
					ee.On(t, ch)
				}
				nlate++
				c.tick(n)
				time.Sleep(time.Duration(200+rr.Intn(800)) * time.Microsecond)
			}
		}()
		c.active.Store(true)
		pubs.Wait() // the watchdog requires the publishers to make progress
		c.active.Store(false)
		pubsDone.Store(true)
		c.joinAt.Store(time.Now().UnixNano())
		late.Wait()
		func() {
			defer c.guard("Close")
			if err := ee.Close(); err != nil {
				c.fail("Close: %v", err)
			}
		}()
		subs.Wait()
		c.joinAt.Store(0)
		c.setParam("late_subscribers", nlate)
		c.setParam("subscribers_ended", int(ended.Load()))
		if c.failed() {
			return
		}
		for t := 0; t < topics; t++ {
			for l := 0; l < early; l++ {
				if got, want := counts[t][l].Load(), totals[t].Load(); got != want {
					c.fail("early subscriber %d of topic %d received %d messages, %d were published", l, t, got, want)
				}
			}
		}
	})
}

// ---------------------------------------------------------------------------------------------------------
// scenario 5: diffdb

func scenarioDiffdb(cfg config, r *hx.Rng) (rec, []mmRec) {
	n := cfg.readers
	c := newCtl("diffdb", cfg, n+1, n)
	const views, keysPer, prepopulated = 4, 16, 50
	c.params["views"], c.params["keys_per_goroutine"], c.params["prepopulated"], c.params["ms"] = views, keysPer, prepopulated, cfg.ms
	seeds := make([]uint64, n+1)
	for i := range seeds {
		seeds[i] = r.U64()
	}
	return run(c, func() {
		store, err := db.NewInMemoryDB()
		if err != nil {
			panic(err)
		}
		r0 := hx.NewRng(seeds[n])
		// model[g][k] = last value written by goroutine g under its key {g,k}; nil = absent
		model := make([][][]byte, n)
		for g := range model {
			model[g] = make([][]byte, keysPer)
		}
		for i := 0; i < prepopulated; i++ {
			g, k := i%n, (i/n)%keysPer
			v := r0.Bytes(8)
			store.Set([]byte{1, byte(g % views), byte(g), byte(k)}, v)
			model[g][k] = v
		}
		root := diffdb.New(store, []byte{1})
		vs := make([]*diffdb.Database, views)
		for i := range vs {
			vs[i] = root.WithPrefix([]byte{byte(i)})
		}
		// expect lists goroutine g's present keys in order, as Range/Iterate over its whole key space must return them.
		expect := func(g int, reverse bool, limit int) [][2][]byte {
			out := [][2][]byte{}
			for k := 0; k < keysPer; k++ {
				kk := k
				if reverse {
					kk = keysPer - 1 - k
				}
				if model[g][kk] != nil {
					out = append(out, [2][]byte{{byte(g), byte(kk)}, model[g][kk]})
				}
			}
			if limit > -1 && len(out) > limit {
				out = out[:limit]
			}
			return out
		}
		same := func(kvs []db.KeyValue, want [][2][]byte) bool {
			if len(kvs) != len(want) {
				return false
			}
			for i, kv := range kvs {
				if kv == nil || !bytes.Equal(kv.Key(), want[i][0]) || !bytes.Equal(kv.Value(), want[i][1]) {
					return false
				}
			}
			return true
		}
		var wg sync.WaitGroup
		for g := 0; g < n; g++ {
			wg.Add(1)
			go func(g int) {
				defer wg.Done()
				defer c.guard("diffdb worker")
				rr := hx.NewRng(seeds[g])
				v := vs[g%views]
				for i := 0; !c.stopped(); i++ {
					k := rr.Intn(keysPer)
					key := []byte{byte(g), byte(k)}
					limit, reverse := rr.Intn(keysPer+3)-1, rr.Bool()
					switch rr.Intn(8) {
					case 0, 1:
						val := rr.Bytes(1 + rr.Intn(12)) // never modified after Set: the store keeps the slice
						v.Set(key, val)
						model[g][k] = val
					case 2:
						if got, ok := v.Get(key); ok != (model[g][k] != nil) || !bytes.Equal(got, model[g][k]) {
							c.fail("goroutine %d: Get(%v) = %x,%v but its last write was %x", g, key, got, ok, model[g][k])
						}
					case 3:
						if ok := v.Has(key); ok != (model[g][k] != nil) {
							c.fail("goroutine %d: Has(%v) = %v but its last write was %x", g, key, ok, model[g][k])
						}
					case 4:
						v.Del(key)
						model[g][k] = nil
					case 5:
						if kvs := v.Range([]byte{byte(g), 0}, []byte{byte(g), 255}, limit, reverse); !same(kvs, expect(g, reverse, limit)) {
							c.fail("goroutine %d: Range over its own keys (limit %d, reverse %v) returned %d entries that differ from its last writes", g, limit, reverse, len(kvs))
						}
					case 6:
						if kvs := v.Iterate([]byte{byte(g)}, limit, reverse); !same(kvs, expect(g, reverse, limit)) {
							c.fail("goroutine %d: Iterate over its own keys (limit %d, reverse %v) returned %d entries that differ from its last writes", g, limit, reverse, len(kvs))
						}
					case 7: // somebody else's keys, through any view: unchecked
						o := rr.Intn(n)
						if rr.Bool() {
							vs[o%views].Iterate([]byte{byte(o)}, limit, reverse)
						} else {
							vs[rr.Intn(views)].Range([]byte{0}, []byte{255, 255}, limit, reverse)
						}
					}
					c.tick(g)
					if i%16 == 0 {
						runtime.Gosched()
					}
				}
			}(g)
		}
		c.active.Store(true)
		c.sleep(cfg.ms)
		c.active.Store(false)
		c.stop.Store(true)
		c.join(&wg)
		if c.failed() {
			return
		}
		for g := 0; g < n; g++ {
			for k := 0; k < keysPer; k++ {
				key := []byte{byte(g), byte(k)}
				if got, ok := vs[g%views].Get(key); ok != (model[g][k] != nil) || !bytes.Equal(got, model[g][k]) {
					c.fail("after join: goroutine %d key %v holds %x,%v but its last write was %x", g, key, got, ok, model[g][k])
				}
				c.tick(n)
			}
		}
	})
}

// ---------------------------------------------------------------------------------------------------------

func main() {
	out := flag.String("out", "", "output JSONL file (required)")
	scenario := flag.String("scenario", "all", "cache|bulk|torn|certpool|events|evclose|evquit|diffdb|diffnest|syncfan|canary|all")
	readers := flag.Int("readers", 8, "number of concurrent reader / worker goroutines")
	ms := flag.Int("ms", 1500, "stress duration per scenario in milliseconds")
	rounds := flag.Int("rounds", 200, "bulk lookup rounds (each of the concurrent goroutines performs one lookup per round)")
	watchdog := flag.Int("watchdog", 5000, "watchdog in milliseconds")
	flag.Parse()
	if *out == "" {
		fmt.Fprintln(os.Stderr, "c20: -out is required")
		os.Exit(2)
	}
	if *readers < 1 {
		*readers = 1
	}
	if *readers > 200 {
		*readers = 200 // goroutine numbers are embedded in single key bytes
	}
	type sc struct {
		name string
		fn   func(config, *hx.Rng) (rec, []mmRec)
	}
	all := []sc{{"cache", scenarioCache}, {"bulk", scenarioBulk}, {"torn", scenarioTorn}, {"certpool", scenarioCertpool}, {"events", scenarioEvents}, {"evclose", scenarioEvClose}, {"evquit", scenarioEvQuit}, {"diffdb", scenarioDiffdb}, {"syncfan", scenarioSyncFan}, {"diffnest", scenarioDiffNest}, {"canary", scenarioCanary}}
	todo := []sc{}
	for _, s := range all {
		if (*scenario == "all" && s.name != "canary") || *scenario == s.name {
			todo = append(todo, s)
		}
	}
	if len(todo) == 0 {
		fmt.Fprintf(os.Stderr, "c20: unknown scenario %q\n", *scenario)
		os.Exit(2)
	}
	cfg := config{readers: *readers, ms: *ms, rounds: *rounds, wd: time.Duration(*watchdog) * time.Millisecond}
	r := hx.NewRng(hx.SeedFromEnv())
	o := hx.NewOut(*out)
	defer o.Close()
	for _, s := range todo {
		summary, mism := s.fn(cfg, hx.NewRng(r.U64()))
		for _, m := range mism {
			o.Put(m)
		}
		o.Put(summary)
		fmt.Fprintf(os.Stderr, "c20: %-8s ok=%v hang=%v ops=%d %s %s\n", summary.K, summary.OK, summary.Hang, summary.Ops, summary.What, summary.Panic)
	}
}
