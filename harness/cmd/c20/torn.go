// Scenario `torn` (C20): multi-read getters against a writer that removes blocks WITH transactions and assets.
// The block cache is tiny (2) and the writer removes up to 30 blocks in a row (up to 40 below the highest height), so that readers are served from the
// database while the batch that deletes a block is applied, and so that the cache runs empty and is reloaded.
// Oracle: every block returned by GetBlockByHeight / GetBlock / GetBlocksBetweenHeight / LastBlock / GetLastBlock is
// byte-identical (Encode) to a block the writer committed under that id, at the requested height; the only acceptable
// error is "not found" for heights/ids in the churn zone; the tip is never nil.
package main

import (
	"bytes"
	"errors"
	"runtime"
	"sync"

	"github.com/LiskHQ/lisk-engine/pkg/blockchain"
	"github.com/LiskHQ/lisk-engine/pkg/db"

	"verifharness/internal/hx"
)

func scenarioTorn(cfg config, r *hx.Rng) (rec, []mmRec) {
	n := cfg.readers
	c := newCtl("torn", cfg, n+2, n+1)
	const base, minH, ntx, cache = 70, 30, 3, 2
	c.params["height"], c.params["min_height"], c.params["txs"], c.params["max_block_cache"], c.params["ms"] = base, minH, ntx, cache, cfg.ms
	seeds := make([]uint64, n+2)
	for i := range seeds {
		seeds[i] = r.U64()
	}
	return run(c, func() {
		f := newFixtureCache(c, hx.NewRng(seeds[n+1]), n+1, base, ntx, cache)
		f.maxDepth, f.maxRun = 40, 30 // long removal runs: many more removals in a row than the cache holds
		var wg sync.WaitGroup
		wg.Add(1)
		go func() { defer wg.Done(); f.churn(c, n, hx.NewRng(seeds[n]), minH, ntx) }()
		for i := 0; i < n; i++ {
			wg.Add(1)
			go func(i int) { defer wg.Done(); f.tornReader(c, i, hx.NewRng(seeds[i]), minH) }(i)
		}
		c.active.Store(true)
		c.sleep(cfg.ms)
		c.active.Store(false)
		c.stop.Store(true)
		c.join(&wg)
	})
}

func (f *fixture) tornReader(c *ctl, slot int, r *hx.Rng, minH uint32) {
	defer c.guard("reader")
	da := f.da
	// exact: b is byte-identical to a block committed under its id; wantH = 0 means "any height"
	exact := func(site string, b *blockchain.Block, wantH uint32, checkH bool) bool {
		if b == nil || b.Header == nil {
			c.fail("nil-tip: %s returned a nil block or a nil header", site)
			return false
		}
		v, ok := f.enc.Load(string(b.Header.ID))
		if !ok {
			c.fail("torn-read: %s returned a block with an id that was never committed (height %d)", site, b.Header.Height)
			return false
		}
		if checkH && b.Header.Height != wantH {
			c.fail("torn-read: %s(%d) returned the block of height %d", site, wantH, b.Header.Height)
			return false
		}
		for _, tx := range b.Transactions {
			if tx == nil {
				c.fail("torn-read: %s returned block %x (height %d) with a nil transaction", site, b.Header.ID[:4], b.Header.Height)
				return false
			}
		}
		if !bytes.Equal(b.Encode(), v.([]byte)) {
			info, _ := f.reg.Load(string(b.Header.ID))
			c.fail("torn-read: %s returned block %x (height %d) with %d transactions and %d assets; the committed block has %d transactions and 1 asset",
				site, b.Header.ID[:4], b.Header.Height, len(b.Transactions), len(b.Assets), info.(blkInfo).ntx)
			return false
		}
		return true
	}
	notFound := func(site string, err error, h uint32) bool {
		if errors.Is(err, db.ErrDataNotFound) && h > minH {
			return true
		}
		c.fail("torn-read: %s(height %d): unexpected error %v", site, h, err)
		return false
	}
	for i := 0; !c.stopped(); i++ {
		tip := f.tip.Load()
		h := minH - 3 + uint32(r.Intn(int(tip-minH)+5))
		switch r.Intn(5) {
		case 0:
			s0 := f.hist.seq.Load()
			b, err := da.GetBlockByHeight(h)
			s1 := f.hist.seq.Load()
			if err != nil {
				if !notFound("GetBlockByHeight", err, h) {
					return
				}
				if !f.hist.atHeightCurrent(h, s0, s1, "") {
					c.fail("torn-read: GetBlockByHeight(%d): not found although a block was at that height in every chain state between writer operations %d and %d", h, s0, s1+1)
					return
				}
			} else if !exact("GetBlockByHeight", b, h, true) {
				return
			} else if !f.hist.atHeightCurrent(h, s0, s1, string(b.Header.ID)) {
				c.fail("stale-read: GetBlockByHeight(%d) returned a block that was not at that height in any chain state between writer operations %d and %d", h, s0, s1+1)
				return
			}
		case 1:
			rid := f.recent[h%64].Load()
			if rid == nil {
				break
			}
			b, err := da.GetBlock(rid.id)
			if err != nil {
				if !notFound("GetBlock", err, rid.height) {
					return
				}
			} else if !exact("GetBlock", b, 0, false) {
				return
			}
		case 2:
			to := h + uint32(r.Intn(6))
			if to > tip {
				to = tip
			}
			if to < h {
				break
			}
			bs, err := da.GetBlocksBetweenHeight(h, to)
			if err != nil {
				if !notFound("GetBlocksBetweenHeight", err, to) {
					return
				}
				break
			}
			if len(bs) != int(to-h+1) {
				c.fail("torn-read: GetBlocksBetweenHeight(%d,%d) returned %d blocks", h, to, len(bs))
				return
			}
			for k, b := range bs {
				if !exact("GetBlocksBetweenHeight", b, h+uint32(k), true) {
					return
				}
			}
		case 3:
			s0 := f.hist.seq.Load()
			b := f.chain.LastBlock()
			f.tipInBracket(c, "Chain.LastBlock", b, s0)
			if c.stopped() || !exact("Chain.LastBlock", b, 0, false) {
				return
			}
		case 4:
			s0 := f.hist.seq.Load()
			b, err := da.GetLastBlock()
			if err != nil {
				c.fail("nil-tip: GetLastBlock: %v", err)
				return
			}
			f.tipInBracket(c, "GetLastBlock", b, s0)
			if c.stopped() || !exact("GetLastBlock", b, 0, false) {
				return
			}
		}
		c.tick(slot)
		if i%64 == 0 {
			runtime.Gosched()
		}
	}
}
