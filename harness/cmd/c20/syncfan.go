// Scenario `syncfan` (C20): the goroutine fan-out of blockSyncer.Sync (one goroutine per connected peer asks for the
// peer's last block header; the answers are collected for best-peer selection) under the race detector.
// Node A (real Executer + real sync.Syncer) is connected over real loopback libp2p to ONE honest peer B that is far
// ahead (block sync) and to K scripted peers that answer getLastBlock with older blocks of B's chain.  Every round B's
// chain grows by more than two rounds and A runs Sync once.  Oracle: A ends on B's tip (a lost node info of B makes the
// selection fall on a scripted peer, which cannot serve blocks), Sync returns without error, no race report.
// Built on the loopback recipe of harness/internal/gsx (builder of C19).
package main

import (
	"bytes"
	"context"
	"fmt"
	"sync/atomic"
	"time"

	"github.com/LiskHQ/lisk-engine/pkg/blockchain"
	"github.com/LiskHQ/lisk-engine/pkg/codec"
	csync "github.com/LiskHQ/lisk-engine/pkg/consensus/sync"
	"github.com/LiskHQ/lisk-engine/pkg/consensus/validator"
	"github.com/LiskHQ/lisk-engine/pkg/log"
	"github.com/LiskHQ/lisk-engine/pkg/p2p"

	"verifharness/internal/exh"
	"verifharness/internal/hx"
)

func scenarioSyncFan(cfg config, r *hx.Rng) (rec, []mmRec) {
	k := cfg.readers
	c := newCtl("syncfan", cfg, 2, 1)
	const nVal = 3
	c.params["validators"], c.params["scripted_peers"], c.params["ms"] = nVal, k, cfg.ms
	return run(c, func() {
		a, err := exh.New(exh.Options{N: nVal})
		if err != nil {
			c.fail("harness: node A: %v", err)
			return
		}
		defer a.DB.Close()
		c.tick(1) // setup progress is progress too: the watchdog must not fire while nodes and libp2p hosts are built
		b, err := exh.New(exh.Options{N: nVal, GenesisTime: a.Opt.GenesisTime})
		if err != nil {
			c.fail("harness: node B: %v", err)
			return
		}
		defer b.DB.Close()
		if !bytes.Equal(a.Genesis.Header.ID, b.Genesis.Header.ID) {
			c.fail("harness: genesis blocks differ")
			return
		}
		lg, _ := log.NewSilentLogger()
		slot := validator.NewBlockSlot(a.Opt.GenesisTime, a.Opt.BlockTime)
		newConn := func() *p2p.Connection {
			return p2p.NewConnection(lg, &p2p.Config{ChainID: a.Opt.ChainID, Addresses: []string{"/ip4/127.0.0.1/tcp/0"}})
		}
		noProc := func(ctx context.Context, block *blockchain.Block, publish bool, removeTemp bool) error {
			return fmt.Errorf("not used")
		}
		noRev := func(ctx context.Context, deletingBlock *blockchain.Block, saveTemp bool) error {
			return fmt.Errorf("not used")
		}
		connA, connB := newConn(), newConn()
		syncerB := csync.NewSyncer(b.Chain, slot, connB, lg, noProc, noRev)
		_ = connB.RegisterRPCHandler(csync.RPCEndpointGetLastBlock, syncerB.HandleRPCEndpointGetLastBlock())
		_ = connB.RegisterRPCHandler(csync.RPCEndpointGetHighestCommonBlock, syncerB.HandleRPCEndpointGetHighestCommonBlock())
		_ = connB.RegisterRPCHandler(csync.RPCEndpointGetBlocksFromID, syncerB.HandleRPCEndpointGetBlocksFromID())
		proc := func(ctx context.Context, block *blockchain.Block, publish bool, removeTemp bool) error {
			return a.Exec.VerifC03ProcessValidated(ctx, block, false, removeTemp)
		}
		rev := func(ctx context.Context, block *blockchain.Block, saveTemp bool) error {
			return a.Exec.VerifC03DeleteBlock(ctx, block, saveTemp)
		}
		syncerA := csync.NewSyncer(a.Chain, slot, connA, lg, proc, rev)
		_ = connA.RegisterRPCHandler(csync.RPCEndpointGetLastBlock, syncerA.HandleRPCEndpointGetLastBlock())
		_ = connA.RegisterRPCHandler(csync.RPCEndpointGetHighestCommonBlock, syncerA.HandleRPCEndpointGetHighestCommonBlock())
		_ = connA.RegisterRPCHandler(csync.RPCEndpointGetBlocksFromID, syncerA.HandleRPCEndpointGetBlocksFromID())
		// scripted peers: an older block of B's chain as "last block", nothing else
		older := make([]atomic.Pointer[[]byte], k)
		scripted := make([]*p2p.Connection, k)
		for i := 0; i < k; i++ {
			i := i
			sc := newConn()
			_ = sc.RegisterRPCHandler(csync.RPCEndpointGetLastBlock, func(w p2p.ResponseWriter, r *p2p.Request) {
				if d := older[i].Load(); d != nil {
					w.Write(*d)
					return
				}
				w.Error(fmt.Errorf("scripted peer: nothing yet"))
			})
			refuse := func(w p2p.ResponseWriter, r *p2p.Request) { w.Error(fmt.Errorf("scripted peer: not served")) }
			_ = sc.RegisterRPCHandler(csync.RPCEndpointGetHighestCommonBlock, refuse)
			_ = sc.RegisterRPCHandler(csync.RPCEndpointGetBlocksFromID, refuse)
			scripted[i] = sc
		}
		if err := connA.Start([]byte{}); err != nil {
			c.fail("harness: start A: %v", err)
			return
		}
		defer connA.Stop() //nolint:errcheck
		connect := func(to *p2p.Connection) bool {
			if err := to.Start([]byte{}); err != nil {
				c.fail("harness: start peer: %v", err)
				return false
			}
			addrs, err := to.Peer.MultiAddress()
			if err != nil || len(addrs) == 0 {
				c.fail("harness: peer has no address")
				return false
			}
			info, err := p2p.AddrInfoFromMultiAddr(addrs[0])
			if err != nil {
				c.fail("harness: addr: %v", err)
				return false
			}
			if err := connA.Peer.Connect(context.Background(), *info); err != nil {
				c.fail("harness: connect: %v", err)
				return false
			}
			c.tick(1)
			return true
		}
		if !connect(connB) {
			return
		}
		defer connB.Stop() //nolint:errcheck
		for _, sc := range scripted {
			if !connect(sc) {
				return
			}
			defer sc.Stop() //nolint:errcheck
		}
		vals := make([]codec.Lisk32, 0, nVal)
		for _, ad := range a.GeneratorAddrs() {
			vals = append(vals, ad)
		}
		end := time.Now().Add(time.Duration(cfg.ms) * time.Millisecond)
		rounds := 0
		c.active.Store(true)
		for (rounds == 0 || time.Now().Before(end)) && !c.stopped() {
			for i := 0; i < 2*nVal+3; i++ {
				blk := b.NextValid(exh.Build{})
				if res := b.ProcessValidated(blk, false); !res.OK() {
					c.fail("harness: block on B: %v %s", res.Err, res.Panic)
					return
				}
				c.tick(1)
			}
			tip := b.Tip()
			for i := 0; i < k; i++ {
				ob, err := b.Chain.DataAccess().GetBlockByHeight(tip.Header.Height - 1 - uint32(i%3))
				if err != nil {
					c.fail("harness: older block: %v", err)
					return
				}
				enc := ob.Encode()
				older[i].Store(&enc)
			}
			if n := len(connA.ConnectedPeers()); n != k+1 {
				c.fail("harness: A is connected to %d peers, expected %d", n, k+1)
				return
			}
			fin, err := a.Finalized()
			if err != nil {
				c.fail("harness: finalized: %v", err)
				return
			}
			tipCopy, _ := blockchain.NewBlock(tip.Encode())
			ctx, cancel := context.WithTimeout(context.Background(), 25*time.Second)
			sctx := &csync.SyncContext{Ctx: ctx, Block: tipCopy, FinalizedBlockHeader: a.HeaderAt(fin), PeerID: connB.Peer.ID(), CurrentValidators: vals}
			err = syncerA.Sync(sctx)
			cancel()
			if err != nil {
				c.fail("sync-fanout: Sync returned %q in round %d (A at height %d, best peer at %d)", err.Error(), rounds, a.Tip().Header.Height, tip.Header.Height)
				return
			}
			if !bytes.Equal(a.Tip().Header.ID, tip.Header.ID) {
				c.fail("sync-fanout: after Sync A is at height %d, the best peer's tip is at %d (round %d)", a.Tip().Header.Height, tip.Header.Height, rounds)
				return
			}
			rounds++
			c.tick(0)
		}
		c.active.Store(false)
		c.setParam("rounds", rounds)
		c.setParam("final_height", int(a.Tip().Header.Height))
	})
}
