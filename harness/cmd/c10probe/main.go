package main

import (
	"fmt"
	"sync"

	"github.com/LiskHQ/lisk-engine/pkg/codec"

	"github.com/LiskHQ/lisk-engine/pkg/crypto"
	"github.com/LiskHQ/lisk-engine/pkg/trie/smt"
)

type memDB struct {
	mu sync.Mutex
	m  map[string][]byte
}

func (d *memDB) Get(k []byte) ([]byte, bool) {
	d.mu.Lock()
	defer d.mu.Unlock()
	v, ok := d.m[string(k)]
	return v, ok
}
func (d *memDB) Set(k, v []byte) { d.mu.Lock(); d.m[string(k)] = append([]byte{}, v...); d.mu.Unlock() }
func (d *memDB) Del(k []byte)    { d.mu.Lock(); delete(d.m, string(k)); d.mu.Unlock() }

func key(b0 byte) []byte { k := make([]byte, 32); k[0] = b0; return k }
func main() {
	db := &memDB{m: map[string][]byte{}}
	t := smt.NewTrie(nil, 32)
	ks := [][]byte{key(0x00), key(0x40), key(0x80)}
	vs := [][]byte{crypto.Hash([]byte{1}), crypto.Hash([]byte{2}), crypto.Hash([]byte{3})}
	root, err := t.Update(db, ks, vs)
	fmt.Println("root", err, len(root))
	{
		p, _ := t.Prove(db, [][]byte{ks[1]})
		kB := key(0x41)
		forged := &smt.Proof{SiblingHashes: p.SiblingHashes, Queries: []*smt.QueryProof{p.Queries[0], {Key: kB, Value: crypto.Hash([]byte{9}), Bitmap: p.Queries[0].Bitmap}}}
		ok, err := smt.Verify([][]byte{ks[1], kB}, forged, root, 32)
		fmt.Println("FORGED inclusion of absent key verifies:", ok, err)
		forged2 := &smt.Proof{SiblingHashes: p.SiblingHashes, Queries: []*smt.QueryProof{p.Queries[0], {Key: ks[1], Value: []byte{}, Bitmap: p.Queries[0].Bitmap}}}
		ok, err = smt.Verify([][]byte{ks[1], ks[1]}, forged2, root, 32)
		fmt.Println("FORGED2 same key absent+present:", ok, err)
	}
	{
		// honest proof for ks[1] (leaf at path 01, height 2) + forged deeper query below it
		p, _ := t.Prove(db, [][]byte{ks[1]})
		for _, b0 := range []byte{0x41, 0x7f} {
			kY := key(b0)
			junk := crypto.Hash([]byte{77})
			sib := append([]codec.Hex{junk}, p.SiblingHashes...)
			forged := &smt.Proof{SiblingHashes: sib, Queries: []*smt.QueryProof{p.Queries[0], {Key: kY, Value: crypto.Hash([]byte{9}), Bitmap: []byte{0x07}}}}
			ok, err := smt.Verify([][]byte{ks[1], kY}, forged, root, 32)
			fmt.Printf("FORGED3 deeper query %x verifies: %v %v\n", b0, ok, err)
			sib2 := append(append([]codec.Hex{junk}, p.SiblingHashes[0], junk, p.SiblingHashes[1]), junk)
			forged = &smt.Proof{SiblingHashes: sib2, Queries: []*smt.QueryProof{p.Queries[0], {Key: kY, Value: crypto.Hash([]byte{9}), Bitmap: []byte{0x07}}}}
			ok, err = smt.Verify([][]byte{ks[1], kY}, forged, root, 32)
			fmt.Printf("FORGED4 deeper query interleaved %x verifies: %v %v\n", b0, ok, err)
		}
	}
	for _, q := range [][][]byte{{ks[1], ks[2]}, {ks[2], ks[1]}, {ks[1]}, {ks[2]}, {ks[0], ks[1], ks[2]}, {ks[0], ks[2]}} {
		p, err := t.Prove(db, q)
		if err != nil {
			fmt.Println("prove err", err)
			continue
		}
		ok, err := smt.Verify(q, p, root, 32)
		fmt.Println(len(q), "verify:", ok, err, "sibs", len(p.SiblingHashes))
		for _, qq := range p.Queries {
			fmt.Printf("   key %x.. bitmap %x\n", qq.Key[:1], []byte(qq.Bitmap))
		}
	}
}
