// C06 reorg scenario on the real Executer (harness/internal/exh): a valid single commit for a not yet finalised block at a
// parameter-change height is admitted to the pool, the block is deleted and replaced by a sibling, the sibling is
// finalised and honestly certified; GetAggregateCommit's output is fed to verifyAggregateCommit.
// One JSONL record: {"k":"reorg", ..., "verify": "<result class>"}.
package main

import (
	"context"
	"flag"
	"fmt"

	"github.com/LiskHQ/lisk-engine/pkg/blockchain"
	"github.com/LiskHQ/lisk-engine/pkg/consensus"
	"github.com/LiskHQ/lisk-engine/pkg/consensus/certificate"
	"github.com/LiskHQ/lisk-engine/pkg/labi"
	"github.com/LiskHQ/lisk-engine/pkg/p2p"

	"verifharness/internal/exh"
	"verifharness/internal/hx"
)

type rec struct {
	K         string   `json:"k"`
	Len       int      `json:"len"`
	H         uint32   `json:"h"`
	Stale     int      `json:"stale_signer"`
	Honest    []int    `json:"honest_signers"`
	Admitted  bool     `json:"stale_admitted"`
	PoolAtH   int      `json:"pool_commits_at_h"`
	StaleLeft bool     `json:"stale_left_after_reorg"`
	Mhp       uint32   `json:"mhp"`
	Mhc       uint32   `json:"mhc"`
	AggHeight uint32   `json:"agg_height"`
	Bits      []int    `json:"bits"`
	Verify    string   `json:"verify"`
	Steps     []string `json:"steps"`
}

func must(r exh.Result, what string) {
	if !r.OK() {
		panic(fmt.Sprintf("%s: %v %s", what, r.Err, r.Panic))
	}
}

func single(n *exh.Node, hd *blockchain.BlockHeader, v *exh.Validator) *certificate.SingleCommit {
	sc := certificate.NewSingleCommit(hd, v.Addr, n.Opt.ChainID, v.BLS.PrivateKey)
	vw := certificate.SingleCommits{sc}.VerifC06View()[0]
	vw.Internal = false
	return certificate.VerifC06NewSingleCommit(vw)
}

func gossip(n *exh.Node, cs ...*certificate.SingleCommit) p2p.ValidationResult {
	return n.Exec.VerifC06SingleCommitValidator(context.Background(), consensus.VerifC06EncodePostSingleCommits(cs))
}

func poolAt(n *exh.Node, h uint32) []certificate.VerifC06SingleCommit {
	g, ng := n.Exec.VerifC06Pool().VerifC06Dump()
	out := []certificate.VerifC06SingleCommit{}
	for _, c := range append(g, ng...) {
		if c.Height == h {
			out = append(out, c)
		}
	}
	return out
}

func run(length int, stale int, honest []int) rec {
	n, err := exh.New(exh.Options{N: 4})
	if err != nil {
		panic(err)
	}
	r := rec{K: "reorg", Len: length, Stale: stale, Honest: honest}
	for i := 0; i < length; i++ {
		must(n.ProcessValidated(n.NextValid(exh.Build{}), false), "extend")
	}
	// block B: the application changes the BFT parameters (certificate threshold 3 -> 4): parameters stored at height(B)+1
	lv := []*labi.Validator{}
	for _, v := range n.Vals[:4] {
		lv = append(lv, v.Labi())
	}
	n.ABI.S = &exh.Script{NextValidators: lv, PreCommitThreshold: 3, CertificateThreshold: 4}
	must(n.ProcessValidated(n.NextValid(exh.Build{}), false), "B")
	n.ABI.S = nil
	// block C at the parameter-change height h
	c := n.NextValid(exh.Build{})
	must(n.ProcessValidated(c, false), "C")
	h := c.Header.Height
	r.H = h
	ex, _ := n.Exec.VerifC06LiskBFT().API().ExistBFTParameters(n.Exec.VerifC06ConsensusStore(), h)
	r.Steps = append(r.Steps, fmt.Sprintf("params exist at h=%d: %v", h, ex))
	// a validator signs the certificate of the not yet finalised block C and gossips it
	gossip(n, single(n, c.Header, n.Vals[stale]))
	r.Admitted = len(poolAt(n, h)) == 1
	// reorg: C is deleted, a sibling C' (next slot) takes its place
	must(n.DeleteBlock(c, false), "delete C")
	c2 := n.NextValid(exh.Build{SkipSlots: 1})
	must(n.ProcessValidated(c2, false), "C'")
	if string(c2.Header.ID) == string(c.Header.ID) {
		panic("sibling has the same id")
	}
	for _, x := range poolAt(n, h) {
		if string(x.BlockID) == string(c.Header.ID) {
			r.StaleLeft = true
		}
	}
	// extend until h is finalised
	for i := 0; i < 40; i++ {
		_, mhp, _ := n.Heights()
		if mhp >= h+1 {
			break
		}
		must(n.ProcessValidated(n.NextValid(exh.Build{}), false), "extend2")
	}
	// certify h-1 first (GetAggregateCommit stops below the next parameter height until then)
	prev := n.HeaderAt(h - 1)
	for _, v := range n.Vals[:4] {
		gossip(n, single(n, prev, v))
	}
	ac, err := n.Exec.GetAggregateCommit()
	if err != nil {
		panic(err)
	}
	r.Steps = append(r.Steps, fmt.Sprintf("first aggregate commit height %d (h-1=%d)", ac.Height, h-1))
	must(n.ProcessValidated(n.NextValid(exh.Build{Agg: ac}), false), "block carrying certificate of h-1")
	// honest validators certify C'
	for _, i := range honest {
		gossip(n, single(n, c2.Header, n.Vals[i]))
	}
	r.PoolAtH = len(poolAt(n, h))
	_, r.Mhp, r.Mhc = n.Heights()
	ac, err = n.Exec.GetAggregateCommit()
	if err != nil {
		panic(err)
	}
	r.AggHeight = ac.Height
	for _, b := range ac.AggregationBits {
		r.Bits = append(r.Bits, int(b))
	}
	verr := n.Exec.VerifC06VerifyAggregateCommit(ac)
	if verr == nil {
		r.Verify = "accept"
	} else {
		r.Verify = "reject: " + verr.Error()
	}
	return r
}

func main() {
	out := flag.String("out", "cases.jsonl", "output")
	cases := flag.Int("cases", 3, "random cases (after the two fixed ones)")
	flag.Parse()
	o := hx.NewOut(*out)
	defer o.Close()
	r := hx.NewRng(hx.SeedFromEnv())
	o.Put(run(110, 0, []int{0, 1, 2, 3}))
	o.Put(run(110, 1, []int{0, 1, 2, 3}))
	for i := 0; i < *cases; i++ {
		honest := []int{}
		for v := 0; v < 4; v++ {
			if r.Intn(4) != 0 {
				honest = append(honest, v)
			}
		}
		o.Put(run(104+r.Intn(20), r.Intn(4), honest))
	}
}
