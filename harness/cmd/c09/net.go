// C09 part 2: malformed input through the real network-facing validators and handlers (not only the decoders):
// block / transaction / single-commit gossip validators and handlers, the fork-choice entry point on every block the
// validator lets through, verifyAggregateCommit, the sync RPC handlers, the txpool RPC handler, Ed25519 / block
// signature verification with wrong-size keys and signatures.  Records "n": entry point, payload, outcome class.
// Also records "m": the bytes allocated by one decoder call on a length-prefix bomb (memory bounded by input size).
package main

import (
	"bytes"
	"context"
	"encoding/hex"
	"fmt"
	"runtime"
	"runtime/debug"
	"strings"
	"time"

	"github.com/LiskHQ/lisk-engine/pkg/blockchain"
	"github.com/LiskHQ/lisk-engine/pkg/codec"
	"github.com/LiskHQ/lisk-engine/pkg/consensus"
	"github.com/LiskHQ/lisk-engine/pkg/consensus/certificate"
	csync "github.com/LiskHQ/lisk-engine/pkg/consensus/sync"
	"github.com/LiskHQ/lisk-engine/pkg/consensus/validator"
	"github.com/LiskHQ/lisk-engine/pkg/crypto"
	"github.com/LiskHQ/lisk-engine/pkg/labi"
	"github.com/LiskHQ/lisk-engine/pkg/log"
	"github.com/LiskHQ/lisk-engine/pkg/p2p"
	"github.com/LiskHQ/lisk-engine/pkg/txpool"

	"verifharness/internal/c05x"
	"verifharness/internal/cx"
	"verifharness/internal/cxs"
	"verifharness/internal/exh"
	"verifharness/internal/hx"
)

type nRec struct {
	K     string `json:"k"`
	F     string `json:"f"`
	D     string `json:"d"`
	Gen   string `json:"gen"`
	St    int    `json:"st"`
	Res   string `json:"res"`
	Panic string `json:"panic,omitempty"`
	Ms    int64  `json:"ms"`
	Alloc uint64 `json:"alloc"`
}

type capW struct {
	wrote bool
	n     int
	err   error
}

func (w *capW) Write(d []byte)  { w.wrote, w.n = true, len(d) }
func (w *capW) Error(err error) { w.err = err }
func (w *capW) res() string {
	switch {
	case w.err != nil:
		return "error"
	case w.wrote:
		return "wrote"
	}
	return "silent"
}

// fake p2p connection of the transaction pool: captures what Init registers
type poolConn struct {
	rpc       map[string]p2p.RPCHandler
	handler   map[string]p2p.EventHandler
	validator map[string]p2p.Validator
}

func (c *poolConn) Broadcast(ctx context.Context, event string, data []byte) error { return nil }
func (c *poolConn) RegisterRPCHandler(endpoint string, handler p2p.RPCHandler, opts ...p2p.RPCHandlerOption) error {
	c.rpc[endpoint] = handler
	return nil
}
func (c *poolConn) RegisterEventHandler(name string, handler p2p.EventHandler, validator p2p.Validator) error {
	c.handler[name], c.validator[name] = handler, validator
	return nil
}
func (c *poolConn) ApplyPenalty(pid p2p.PeerID, score int) {}
func (c *poolConn) RequestFrom(ctx context.Context, peerID p2p.PeerID, procedure string, data []byte) p2p.Response {
	return p2p.Response{}
}
func (c *poolConn) Publish(ctx context.Context, topicName string, data []byte) error {
	return nil
}

type poolABI struct{}

func (poolABI) VerifyTransaction(req *labi.VerifyTransactionRequest) (*labi.VerifyTransactionResponse, error) {
	return &labi.VerifyTransactionResponse{Result: labi.TxVerifyResultOk}, nil
}

type nopLog struct{}

func (nopLog) Debug(string, ...interface{})    {}
func (nopLog) Info(string, ...interface{})     {}
func (nopLog) Error(string, ...interface{})    {}
func (nopLog) Debugf(string, ...interface{})   {}
func (nopLog) Infof(string, ...interface{})    {}
func (nopLog) Errorf(string, ...interface{})   {}
func (nopLog) Warning(string, ...interface{})  {}
func (nopLog) Warningf(string, ...interface{}) {}
func (nopLog) With(...interface{}) log.Logger  { return nopLog{} }

type netEnv struct {
	node   *exh.Node
	conn   *p2p.Connection
	syncer *csync.Syncer
	pool   *txpool.TransactionPool
	pconn  *poolConn
	ctx    context.Context
}

const netBlocks = 6

// newNetEnv: a real Executer over a chain of netBlocks valid blocks (fixed genesis time: deterministic IDs), a started
// loopback p2p connection for the Syncer (BanPeer needs a live host), a transaction pool wired to a capturing connection.
func newNetEnv() *netEnv {
	n, err := exh.New(exh.Options{N: 4, GenesisTime: 1600000000})
	c05x.Must(err)
	for i := 0; i < netBlocks; i++ {
		b := n.NextValid(exh.Build{})
		if r := n.ProcessValidated(b, false); !r.OK() {
			panic(fmt.Sprintf("harness: cannot build chain: %v %s", r.Err, r.Panic))
		}
	}
	lg, _ := log.NewSilentLogger()
	conn := p2p.NewConnection(lg, &p2p.Config{ChainID: n.Opt.ChainID, Addresses: []string{"/ip4/127.0.0.1/tcp/0"}})
	c05x.Must(conn.Start([]byte{}))
	slot := validator.NewBlockSlot(n.Opt.GenesisTime, n.Opt.BlockTime)
	noProc := func(ctx context.Context, block *blockchain.Block, publish bool, removeTemp bool) error {
		return fmt.Errorf("not used")
	}
	noRev := func(ctx context.Context, deletingBlock *blockchain.Block, saveTemp bool) error {
		return fmt.Errorf("not used")
	}
	env := &netEnv{node: n, conn: conn, ctx: context.Background()}
	env.syncer = csync.NewSyncer(n.Chain, slot, conn, nopLog{}, noProc, noRev)
	env.pconn = &poolConn{rpc: map[string]p2p.RPCHandler{}, handler: map[string]p2p.EventHandler{}, validator: map[string]p2p.Validator{}}
	env.pool = txpool.NewTransactionPool(&txpool.TransactionPoolConfig{})
	c05x.Must(env.pool.Init(env.ctx, nopLog{}, n.DB, n.Chain, env.pconn, poolABI{}))
	return env
}

func (e *netEnv) close() { _ = e.conn.Stop() }

func vres(v p2p.ValidationResult) string {
	switch v {
	case p2p.ValidationAccept:
		return "accept"
	case p2p.ValidationReject:
		return "reject"
	case p2p.ValidationIgnore:
		return "ignore"
	}
	return fmt.Sprintf("result-%d", int(v))
}

const attacker = p2p.PeerID("12D3KooWverifattacker")

// run one entry point on one payload
func (e *netEnv) run(f string, d []byte, gen string) (rec nRec) {
	rec = nRec{K: "n", F: f, D: hex.EncodeToString(d), Gen: gen}
	if hung[f] { // a call of this entry point timed out: its goroutine (possibly holding locks) cannot be killed
		rec.St, rec.Res = 4, "skipped-after-timeout"
		return rec
	}
	t0 := time.Now()
	var m0 runtime.MemStats
	runtime.ReadMemStats(&m0)
	defer func() {
		var m1 runtime.MemStats
		runtime.ReadMemStats(&m1)
		rec.Ms, rec.Alloc = int64(time.Since(t0)/time.Millisecond), m1.TotalAlloc-m0.TotalAlloc
		if rec.St == 3 {
			hung[f] = true
		}
	}()
	st, msg := cx.Guard(func() {
		n := e.node
		switch f {
		case "blockValidator": // + what the network layer does next with an accepted block
			v := n.Exec.VerifC09BlockValidator(e.ctx, d)
			rec.Res = vres(v)
			if v == p2p.ValidationAccept {
				n.Exec.VerifC09OnBlockReceived(attacker, d)
				rec.Res += fmt.Sprintf(":queued%d", n.Exec.VerifC09DrainProcessQueue())
				// the consensus loop then runs the fork-choice entry point on it
				b, err := blockchain.NewBlock(d)
				if err != nil {
					rec.Res += ":undecodable"
					return
				}
				tip := n.Tip().Header.ID
				th := n.Tip().Header
				successor := b.Header.Height == th.Height+1 && bytes.Equal(b.Header.PreviousBlockID, th.ID)
				sibling := b.Header.Height == th.Height && bytes.Equal(b.Header.PreviousBlockID, th.PreviousBlockID) &&
					b.Header.MaxHeightPrevoted == th.MaxHeightPrevoted
				if !successor && !sibling {
					// fork choice would classify it as a different chain and start a network sync (needs live peers) or discard it
					rec.Res += ":process-skipped"
					return
				}
				r := n.Process(b)
				if r.Panic != "" {
					panic("process: " + r.Panic)
				}
				rec.Res += ":process-" + errRes(r.Err)
				if !bytes.Equal(n.Tip().Header.ID, tip) { // keep the environment fixed for the next cases / replays
					for !bytes.Equal(n.Tip().Header.ID, tip) && n.Tip().Header.Height > 0 {
						if dr := n.DeleteBlock(n.Tip(), false); !dr.OK() {
							panic(fmt.Sprintf("harness: cannot restore the tip: %v %s", dr.Err, dr.Panic))
						}
					}
					rec.Res += ":applied"
				}
			}
		case "verifyBlock": // consensus verification of any decodable block (as block sync / fast sync feed it)
			b, err := blockchain.NewBlock(d)
			if err != nil {
				rec.Res = "undecodable"
				return
			}
			r := n.VerifyBlock(b)
			if r.Panic != "" {
				panic("verifyBlock: " + r.Panic)
			}
			rec.Res = errRes(r.Err)
		case "verifyAggregateCommit":
			a := &blockchain.AggregateCommit{}
			if err := a.Decode(d); err != nil {
				rec.Res = "undecodable"
				return
			}
			rec.Res = errRes(n.Exec.VerifC03VerifyAggregateCommit(a))
		case "singleCommitValidator":
			rec.Res = vres(n.Exec.VerifC06SingleCommitValidator(e.ctx, d))
		case "transactionValidator":
			v := e.pconn.validator[txpool.RPCEventPostTransactionAnnouncement](e.ctx, &p2p.Message{Data: d})
			rec.Res = vres(v)
			if v == p2p.ValidationAccept {
				e.pconn.handler[txpool.RPCEventPostTransactionAnnouncement](p2p.NewEvent(attacker, txpool.RPCEventPostTransactionAnnouncement, d))
				rec.Res += ":handled"
			}
		case "txpool.getTransactions":
			w := &capW{}
			e.pool.HandleRPCEndpointGetTransaction(w, &p2p.Request{ID: "1", Procedure: txpool.RPCEndpointGetTransactions, Data: d, PeerID: attacker})
			rec.Res = w.res()
		case "sync.getLastBlock", "sync.getHighestCommonBlock", "sync.getBlocksFromID":
			var h p2p.RPCHandler
			switch f {
			case "sync.getLastBlock":
				h = e.syncer.HandleRPCEndpointGetLastBlock()
			case "sync.getHighestCommonBlock":
				h = e.syncer.HandleRPCEndpointGetHighestCommonBlock()
			default:
				h = e.syncer.HandleRPCEndpointGetBlocksFromID()
			}
			w := &capW{}
			var data []byte
			if gen != "nil" {
				data = d
			}
			h(w, &p2p.Request{ID: "1", Procedure: f, Data: data, PeerID: attacker})
			rec.Res = w.res()
		case "ed25519": // d = key | 0xfe 0xfe | signature | 0xfe 0xfe | message  (hex fields separated for replay)
			parts := bytes.SplitN(d, []byte{0xfe, 0xfe}, 3)
			for len(parts) < 3 {
				parts = append(parts, []byte{})
			}
			rec.Res = errRes(crypto.VerifySignature(parts[0], parts[1], parts[2]))
			rec.Res += ":" + boolRes(blockchain.ValidateBlockSignature(parts[0], parts[1], n.Opt.ChainID, parts[2]))
		case "header.VerifySignature":
			h, err := blockchain.NewBlockHeader(d)
			if err != nil {
				rec.Res = "undecodable"
				return
			}
			res := []string{}
			for _, k := range [][]byte{{}, make([]byte, 31), n.Vals[0].Pub, make([]byte, 33)} {
				res = append(res, boolRes(h.VerifySignature(n.Opt.ChainID, k)))
			}
			rec.Res = strings.Join(res, ",")
		default:
			panic("harness: unknown entry point " + f)
		}
	})
	if st != 0 {
		rec.St, rec.Panic, rec.Res = st, msg, ""
	}
	return rec
}

// payload family of one valid message: itself, every truncation, hostile varints, random mutations
func family(rng *hx.Rng, valid []byte, nmut int, put func(d []byte, gen string)) {
	put(valid, "valid")
	for k := 0; k < len(valid); k++ {
		put(valid[:k], "trunc")
	}
	for _, m := range cxs.VarintAttacks(valid) {
		put(m, "varint")
	}
	for i := 0; i < nmut; i++ {
		put(cx.Mutate(rng, valid, 1+rng.Intn(2)), "mut")
	}
}

func genNet(o *hx.Out, rng *hx.Rng, scale int) {
	env := newNetEnv()
	defer env.close()
	n := env.node
	put := func(f string) func(d []byte, gen string) {
		return func(d []byte, gen string) { o.Put(env.run(f, d, gen)) }
	}
	sized := func(l int, fill byte) []byte { return bytes.Repeat([]byte{fill}, l) }

	// ---- blocks: a valid successor of the tip, with and without payload
	tx := c05x.GenTx(rng)
	next := n.NextValid(exh.Build{})
	nextTx := n.NextValid(exh.Build{Txs: []*blockchain.Transaction{tx}, Assets: []*blockchain.BlockAsset{{Module: "mod", Data: []byte{1, 2}}}})
	for _, b := range []*blockchain.Block{next, nextTx} {
		enc := b.Encode()
		family(rng, enc, 30*scale, put("blockValidator"))
		family(rng, enc, 10*scale, put("verifyBlock"))
		// structure-aware corruptions: wrong-size IDs / addresses / signatures / roots, hostile aggregate commits, re-signed
		mutate := func(gen string, f func(h *blockchain.BlockHeader), resign bool) {
			c := &blockchain.Block{}
			c05x.Must(c.Decode(enc))
			f(c.Header)
			if resign {
				n.Sign(c.Header, n.ValidatorByAddr(b.Header.GeneratorAddress))
			}
			c.Init()
			put("blockValidator")(c.Encode(), gen)
			put("verifyBlock")(c.Encode(), gen)
		}
		for _, resign := range []bool{false, true} {
			for _, l := range []int{0, 1, 31, 33, 64} {
				l := l
				mutate("prev-size", func(h *blockchain.BlockHeader) { h.PreviousBlockID = sized(l, 1) }, resign)
				mutate("root-size", func(h *blockchain.BlockHeader) { h.TransactionRoot, h.StateRoot = sized(l, 2), sized(l, 3) }, resign)
				mutate("vhash-size", func(h *blockchain.BlockHeader) { h.ValidatorsHash = sized(l, 4) }, resign)
			}
			for _, l := range []int{0, 19, 21} {
				l := l
				mutate("addr-size", func(h *blockchain.BlockHeader) { h.GeneratorAddress = sized(l, 5) }, false)
			}
			for _, l := range []int{0, 63, 65} {
				l := l
				mutate("sig-size", func(h *blockchain.BlockHeader) { h.Signature = sized(l, 6) }, false)
			}
			for _, hgt := range []uint32{0, 1, netBlocks - 1, netBlocks, netBlocks + 1, 1 << 31, 1<<32 - 1} {
				for _, bl := range []int{0, 1, 2, 9} {
					for _, sl := range []int{0, 1, 95, 96, 97} {
						hgt, bl, sl := hgt, bl, sl
						mutate("aggregate", func(h *blockchain.BlockHeader) {
							h.AggregateCommit = &blockchain.AggregateCommit{Height: hgt, AggregationBits: sized(bl, 0xff), CertificateSignature: sized(sl, 0xc0)}
						}, resign)
					}
				}
			}
			for _, v := range []uint32{0, 1, 3, 1<<32 - 1} {
				v := v
				mutate("version", func(h *blockchain.BlockHeader) { h.Version = v }, resign)
				mutate("height", func(h *blockchain.BlockHeader) { h.Height = v }, resign)
				mutate("timestamp", func(h *blockchain.BlockHeader) { h.Timestamp = v }, resign)
				mutate("mhp", func(h *blockchain.BlockHeader) { h.MaxHeightPrevoted, h.MaxHeightGenerated = v, v }, resign)
			}
		}
	}
	// over-long lists: many transactions / assets in one block
	{
		c := &blockchain.Block{}
		c05x.Must(c.Decode(nextTx.Encode()))
		for i := 0; i < 300; i++ {
			c.Transactions = append(c.Transactions, c.Transactions[0])
			c.Assets = append(c.Assets, &blockchain.BlockAsset{Module: fmt.Sprintf("m%03d", i), Data: []byte{byte(i)}})
		}
		c.Init()
		put("blockValidator")(c.Encode(), "long-lists")
		put("verifyBlock")(c.Encode(), "long-lists")
	}

	// ---- aggregate commits against the consensus store
	for _, hgt := range []uint32{0, 1, 2, netBlocks, netBlocks + 1, 1<<32 - 1} {
		for _, bl := range []int{0, 1, 2, 9} {
			for _, sl := range []int{0, 1, 96, 97} {
				a := &blockchain.AggregateCommit{Height: hgt, AggregationBits: sized(bl, 0xff), CertificateSignature: sized(sl, 0xc0)}
				put("verifyAggregateCommit")(a.Encode(), "sizes")
			}
		}
	}
	// right-length bitmap (4 validators: one byte) with padding bits set, at every stored height
	for hgt := uint32(0); hgt <= netBlocks+1; hgt++ {
		for _, bits := range []byte{0x0f, 0x1f, 0x10, 0x20, 0x40, 0x80, 0x8f, 0xf0, 0xff} {
			for _, sl := range []int{96} {
				a := &blockchain.AggregateCommit{Height: hgt, AggregationBits: []byte{bits}, CertificateSignature: sized(sl, 0xc0)}
				put("verifyAggregateCommit")(a.Encode(), "padding-bits")
			}
		}
	}
	family(rng, (&blockchain.AggregateCommit{Height: 2, AggregationBits: []byte{0x0f}, CertificateSignature: sized(96, 0xc0)}).Encode(), 20*scale, put("verifyAggregateCommit"))

	// ---- single commits
	hdr := n.HeaderAt(2)
	v0 := n.Vals[0]
	good := certificate.NewSingleCommit(hdr, v0.Addr, n.Opt.ChainID, v0.BLS.PrivateKey)
	family(rng, consensus.VerifC06EncodePostSingleCommits([]*certificate.SingleCommit{good}), 40*scale, put("singleCommitValidator"))
	mk := func(id []byte, h uint32, addr, sig []byte) *certificate.SingleCommit {
		return certificate.VerifC06NewSingleCommit(certificate.VerifC06SingleCommit{BlockID: id, Height: h, ValidatorAddress: addr, CertificateSignature: sig})
	}
	gv := certificate.SingleCommits{good}.VerifC06View()[0]
	for _, h := range []uint32{0, 1, 2, netBlocks, netBlocks + 1, 100, 1 << 31, 1<<32 - 1} {
		for _, il := range []int{0, 31, 32, 33} {
			for _, al := range []int{0, 19, 20, 21} {
				for _, sl := range []int{0, 95, 96, 97} {
					id, addr, sig := sized(il, 7), sized(al, 8), sized(sl, 0xc0)
					if il == 32 {
						id = gv.BlockID
					}
					if al == 20 {
						addr = gv.ValidatorAddress
					}
					if sl == 96 {
						sig = gv.CertificateSignature
					}
					put("singleCommitValidator")(consensus.VerifC06EncodePostSingleCommits([]*certificate.SingleCommit{mk(id, h, addr, sig)}), "sizes")
				}
			}
		}
	}
	put("singleCommitValidator")(consensus.VerifC06EncodePostSingleCommits([]*certificate.SingleCommit{}), "empty-list")
	many := []*certificate.SingleCommit{}
	for i := 0; i < 2000; i++ {
		many = append(many, mk(gv.BlockID, uint32(i), gv.ValidatorAddress, gv.CertificateSignature))
	}
	put("singleCommitValidator")(consensus.VerifC06EncodePostSingleCommits(many), "long-list")

	// ---- transactions
	family(rng, tx.Encode(), 40*scale, put("transactionValidator"))
	// decodable but non-canonical forms of a statically valid transaction: each field removed, an unknown trailing field,
	// non-shortest varints, a widened key, fields out of order, a duplicated field.  Whatever the validator accepts is handed
	// to the announcement handler with the same bytes, as the network layer does.
	for _, base := range []*blockchain.Transaction{tx, {Module: "token", Command: "transfer", Nonce: 0, Fee: 0, SenderPublicKey: sized(32, 1),
		Params: []byte{}, Signatures: []codec.Hex{sized(64, 2)}}} {
		enc := base.Encode()
		fields := tlvSplit(enc)
		for i := range fields {
			without := []byte{}
			for j, f := range fields {
				if j != i {
					without = append(without, f...)
				}
			}
			put("transactionValidator")(without, "field-removed")
			dup := append(append([]byte{}, enc...), fields[i]...)
			put("transactionValidator")(dup, "field-duplicated")
			if i+1 < len(fields) {
				sw := [][]byte{}
				sw = append(sw, fields...)
				sw[i], sw[i+1] = sw[i+1], sw[i]
				put("transactionValidator")(bytes.Join(sw, nil), "fields-swapped")
			}
		}
		for _, tail := range [][]byte{{0x40, 0x01}, {0x42, 0x00}, {0x00}, {0x38, 0x00}, {0x3a, 0x00}} {
			put("transactionValidator")(append(append([]byte{}, enc...), tail...), "trailing-field")
		}
		// nonce (field 3) and fee (field 4) as padded varints, params length padded
		padded := []byte{}
		for _, f := range fields {
			if f[0] == 0x18 || f[0] == 0x20 {
				v := append([]byte{}, f[1:]...)
				v[len(v)-1] |= 0x80
				v = append(v, 0x00)
				padded = append(append(padded, f[0]), v...)
			} else {
				padded = append(padded, f...)
			}
		}
		put("transactionValidator")(padded, "padded-varint")
		for _, m := range cxs.KeyAttacks(enc) {
			put("transactionValidator")(m, "widekey")
		}
	}
	for _, kl := range []int{0, 31, 33} {
		for _, sl := range []int{0, 63, 65} {
			t := &blockchain.Transaction{Module: "token", Command: "transfer", Nonce: 1, Fee: 1, SenderPublicKey: sized(kl, 1), Params: []byte{}, Signatures: []codec.Hex{sized(sl, 2)}}
			put("transactionValidator")(t.Encode(), "sizes")
		}
	}
	{
		t := &blockchain.Transaction{Module: "token", Command: "transfer", SenderPublicKey: sized(32, 1), Params: sized(20000, 9), Signatures: []codec.Hex{}}
		put("transactionValidator")(t.Encode(), "long-params")
		for i := 0; i < 500; i++ {
			t.Signatures = append(t.Signatures, sized(64, byte(i)))
		}
		t.Params = []byte{}
		put("transactionValidator")(t.Encode(), "long-list")
	}
	family(rng, []byte{}, 0, put("txpool.getTransactions"))
	family(rng, (&txpool.GetTransactionsResponse{Transactions: []*blockchain.Transaction{tx}}).Encode(), 10*scale, put("txpool.getTransactions"))

	// ---- sync RPC handlers
	put("sync.getLastBlock")([]byte{}, "nil")
	put("sync.getLastBlock")(sized(40, 0xff), "garbage")
	ids := [][]byte{n.HeaderAt(1).ID, n.HeaderAt(3).ID, sized(32, 0xee)}
	put("sync.getHighestCommonBlock")([]byte{}, "nil")
	put("sync.getHighestCommonBlock")([]byte{}, "empty")
	family(rng, (&csync.GetHighestCommonBlockRequest{IDs: ids}).Encode(), 40*scale, put("sync.getHighestCommonBlock"))
	for _, l := range []int{0, 1, 31, 33, 64} {
		put("sync.getHighestCommonBlock")((&csync.GetHighestCommonBlockRequest{IDs: [][]byte{ids[0], sized(l, 1)}}).Encode(), "id-size")
		put("sync.getBlocksFromID")((&csync.GetBlocksFromIDRequest{ID: sized(l, 1)}).Encode(), "id-size")
	}
	// repeated known ids, mixes of repeated known / unknown ids
	known, other, unk := n.HeaderAt(2).ID, n.HeaderAt(4).ID, sized(32, 0xee)
	for _, list := range [][][]byte{{known, known}, {known, known, known}, {known, other, known, other}, {unk, unk}, {known, unk, known},
		{unk, known, known, unk, unk}, {known, known, other, other, other, unk}} {
		put("sync.getHighestCommonBlock")((&csync.GetHighestCommonBlockRequest{IDs: list}).Encode(), "repeated-ids")
	}
	rep := [][]byte{}
	for i := 0; i < 500; i++ {
		rep = append(rep, known)
	}
	put("sync.getHighestCommonBlock")((&csync.GetHighestCommonBlockRequest{IDs: rep}).Encode(), "repeated-ids")
	long := [][]byte{}
	for i := 0; i < 3000; i++ {
		long = append(long, sized(32, byte(i)))
	}
	put("sync.getHighestCommonBlock")((&csync.GetHighestCommonBlockRequest{IDs: long}).Encode(), "long-list")
	put("sync.getBlocksFromID")([]byte{}, "nil")
	put("sync.getBlocksFromID")([]byte{}, "empty")
	for _, h := range []uint32{0, 1, netBlocks - 1, netBlocks} {
		family(rng, (&csync.GetBlocksFromIDRequest{ID: n.HeaderAt(h).ID}).Encode(), 10*scale, put("sync.getBlocksFromID"))
	}
	put("sync.getBlocksFromID")((&csync.GetBlocksFromIDRequest{ID: sized(32, 0xee)}).Encode(), "unknown-id")

	// ---- Ed25519 / block signature with wrong-size keys and signatures
	msg := sized(32, 3)
	sig := crypto.Sign(v0.Priv, crypto.Hash(msg))
	sep := []byte{0xfe, 0xfe}
	for _, kl := range []int{0, 1, 31, 32, 33, 64} {
		for _, sl := range []int{0, 1, 63, 64, 65, 128} {
			k, s := sized(kl, 0x11), sized(sl, 0x22)
			if kl == 32 {
				k = v0.Pub
			}
			if sl == 64 {
				s = sig
			}
			put("ed25519")(bytes.Join([][]byte{k, s, msg}, sep), "sizes")
		}
	}
	family(rng, next.Header.Encode(), 5*scale, put("header.VerifySignature"))
}

// ---- memory: bytes allocated by one call on a length-prefix bomb
type mRec struct {
	K       string `json:"k"`
	F       string `json:"f"`
	D       string `json:"d"`
	Len     int    `json:"len"`
	Claimed string `json:"claimed"`
	St      int    `json:"st"`
	Alloc   uint64 `json:"alloc"` // TotalAlloc delta of the call (single goroutine, GC off)
	Panic   string `json:"panic,omitempty"`
}

// measure: smallest TotalAlloc delta of three runs (a background allocation during one run does not count)
func measure(f func()) (uint64, int, string) {
	best, st, msg := measureOnce(f)
	for i := 0; i < 2 && st == 0; i++ {
		if a, s2, m2 := measureOnce(f); s2 != 0 {
			return a, s2, m2
		} else if a < best {
			best = a
		}
	}
	return best, st, msg
}

func measureOnce(f func()) (uint64, int, string) {
	old := debug.SetGCPercent(-1)
	defer debug.SetGCPercent(old)
	runtime.GC()
	var m0, m1 runtime.MemStats
	var st int
	var msg string
	runtime.ReadMemStats(&m0)
	func() {
		defer func() {
			if r := recover(); r != nil {
				st, msg = 2, fmt.Sprint(r)
			}
		}()
		f()
	}()
	runtime.ReadMemStats(&m1)
	return m1.TotalAlloc - m0.TotalAlloc, st, msg
}

func genMem(o *hx.Out, rng *hx.Rng) {
	claims := []uint64{1 << 20, 1 << 31, 1<<32 + 5, 1<<63 - 1, 1 << 63, 1<<64 - 1}
	for _, e := range cxs.Entries() {
		base := cxs.GenValue(rng, e, 0, false)
		for _, f := range e.Fields {
			wt := 2
			switch f.Ty {
			case "TBool", "TU32", "TU64", "TI32", "TI64":
				continue
			}
			for _, c := range claims {
				// field key, a length prefix claiming c bytes, then a little payload
				d := append(cx.Uvarint(uint64(f.Fn)<<3|uint64(wt)), cx.Uvarint(c)...)
				d = append(d, base[:min(len(base), 24)]...)
				for _, strict := range []bool{false, true} {
					v := e.New()
					in := append([]byte{}, d...)
					alloc, st, msg := measure(func() {
						if strict {
							_ = v.(interface{ DecodeStrict([]byte) error }).DecodeStrict(in)
						} else {
							_ = v.Decode(in)
						}
					})
					name := e.Name + ".Decode"
					if strict {
						name = e.Name + ".DecodeStrict"
					}
					o.Put(mRec{K: "m", F: name, D: hex.EncodeToString(d), Len: len(d), Claimed: cx.U(c), St: st, Alloc: alloc, Panic: msg})
				}
			}
		}
	}
	// packed-array amplification: n one-byte varints decode to n uint64 (8 bytes each, slice growth <= 2x)
	for _, n := range []int{100, 1000, 10000} {
		body := bytes.Repeat([]byte{0x01}, n)
		d := append(append(cx.Uvarint(uint64(2)<<3|2), cx.Uvarint(uint64(n))...), body...)
		for _, nm := range []string{"pkg/trie/rmt.Proof"} {
			e := cxs.Lookup(nm)
			v := e.New()
			alloc, st, msg := measure(func() { _ = v.Decode(d) })
			o.Put(mRec{K: "m", F: nm + ".Decode(packed)", D: hex.EncodeToString(d), Len: len(d), Claimed: cx.U(uint64(n)), St: st, Alloc: alloc, Panic: msg})
		}
	}
}

func min(a, b int) int {
	if a < b {
		return a
	}
	return b
}

func replayMem(r mRec) mRec {
	name := strings.TrimSuffix(strings.TrimSuffix(strings.TrimSuffix(r.F, ".Decode(packed)"), ".DecodeStrict"), ".Decode")
	e := cxs.Lookup(name)
	if e == nil {
		panic("unknown struct " + name)
	}
	d := unhex(r.D)
	strict := strings.HasSuffix(r.F, ".DecodeStrict")
	v := e.New()
	alloc, st, msg := measure(func() {
		if strict {
			_ = v.(interface{ DecodeStrict([]byte) error }).DecodeStrict(d)
		} else {
			_ = v.Decode(d)
		}
	})
	r.Alloc, r.St, r.Panic = alloc, st, msg
	return r
}

// tlvSplit cuts a flat encoding into its top-level (key, value) fields.
func tlvSplit(d []byte) [][]byte {
	var out [][]byte
	i := 0
	for i < len(d) {
		start := i
		_, ks := uvarN(d[i:])
		if ks <= 0 {
			break
		}
		wt := d[i] & 7
		i += ks
		v, vs := uvarN(d[i:])
		if vs <= 0 {
			break
		}
		i += vs
		if wt == 2 {
			i += int(v)
		}
		if i > len(d) {
			break
		}
		out = append(out, d[start:i])
	}
	return out
}

func uvarN(b []byte) (uint64, int) {
	var x uint64
	var s uint
	for i, c := range b {
		if i == 10 {
			return 0, -1
		}
		if c < 0x80 {
			return x | uint64(c)<<s, i + 1
		}
		x |= uint64(c&0x7f) << s
		s += 7
	}
	return 0, 0
}
