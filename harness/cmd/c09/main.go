// C09 correspondence driver: untrusted input against every decoder / verifier entry point, with outcome classes
// {ok, error, PANIC(recovered), TIMEOUT}.  A recovered panic or a timeout is directly a violation with the input.
//
//	s : Decode / DecodeStrict of every generated struct (shared with C08's evaluator for model agreement) on
//	    exhaustive short byte strings, truncations of valid messages at every offset, corrupted length prefixes
//	    (past the buffer, 2^31, 2^63-1, 2^63, 2^64-1), over-long / non-canonical varints, random mutations
//	v : verifier / constructor entry points: NewBlock, NewBlockHeader, NewTransaction(+Validate), NewBlockAsset,
//	    BLS aggregate verification with short / long bitmaps and garbage keys, certificate aggregate verification,
//	    smt.Verify and rmt.VerifyProof / CalculateRootFromAppendPath with malformed proofs (also decoded from bytes)
package main

import (
	"bytes"
	"encoding/hex"
	"encoding/json"
	"flag"
	"fmt"
	"os"
	"runtime"
	"strings"
	"time"

	"github.com/LiskHQ/lisk-engine/pkg/blockchain"
	"github.com/LiskHQ/lisk-engine/pkg/codec"
	"github.com/LiskHQ/lisk-engine/pkg/consensus/certificate"
	"github.com/LiskHQ/lisk-engine/pkg/crypto"
	"github.com/LiskHQ/lisk-engine/pkg/trie/rmt"
	"github.com/LiskHQ/lisk-engine/pkg/trie/smt"

	"verifharness/internal/c08reg"
	"verifharness/internal/cx"
	"verifharness/internal/cxs"
	"verifharness/internal/hx"
)

// verifier-call record: F = entry point, A = arguments (hex / numbers), St 0 returned / 2 panic / 3 timeout,
// Res = projected result ("true", "false", "err", "ok")
type vRec struct {
	K     string            `json:"k"`
	F     string            `json:"f"`
	A     map[string]string `json:"a"`
	St    int               `json:"st"`
	Res   string            `json:"res"`
	Panic string            `json:"panic,omitempty"`
	Obs   map[string]string `json:"obs,omitempty"` // decoded proof fields (model evaluation)
	Ms    int64             `json:"ms"`            // wall time of the call
	Alloc uint64            `json:"alloc"`         // TotalAlloc delta of the process during the call (informative: background goroutines count)
}

func hx2(b []byte) string { return hex.EncodeToString(b) }
func unhex(s string) []byte {
	b, err := hex.DecodeString(s)
	if err != nil {
		panic(err)
	}
	return b
}
func hexList(l [][]byte) string {
	p := make([]string, len(l))
	for i, b := range l {
		p[i] = hx2(b)
	}
	return strings.Join(p, ",")
}
func unhexList(s string) [][]byte {
	if s == "" {
		return [][]byte{}
	}
	var out [][]byte
	for _, p := range strings.Split(s, ",") {
		out = append(out, unhex(p))
	}
	return out
}
func u64List(l []uint64) string {
	p := make([]string, len(l))
	for i, v := range l {
		p[i] = cx.U(v)
	}
	return strings.Join(p, ",")
}
func unU64List(s string) []uint64 {
	if s == "" {
		return []uint64{}
	}
	var out []uint64
	for _, p := range strings.Split(s, ",") {
		out = append(out, cx.ParseU(p))
	}
	return out
}

func boolRes(b bool) string {
	if b {
		return "true"
	}
	return "false"
}
func errRes(err error) string {
	if err != nil {
		return "err"
	}
	return "ok"
}

// runV executes one verifier entry point on its (string-encoded) arguments.
// entry points that timed out once: their spinning goroutine cannot be killed, so they are not called again in this run
var hung = map[string]bool{}

func runV(f string, a map[string]string) (rec vRec) {
	rec = vRec{K: "v", F: f, A: a}
	if hung[f] {
		rec.St, rec.Res = 4, "skipped-after-timeout"
		return rec
	}
	t0 := time.Now()
	var m0 runtime.MemStats
	runtime.ReadMemStats(&m0)
	defer func() {
		var m1 runtime.MemStats
		runtime.ReadMemStats(&m1)
		rec.Ms, rec.Alloc = int64(time.Since(t0)/time.Millisecond), m1.TotalAlloc-m0.TotalAlloc
		if rec.St == 3 {
			hung[f] = true
		}
	}()
	st, msg := cx.Guard(func() {
		switch f {
		case "NewBlock":
			b, err := blockchain.NewBlock(unhex(a["d"]))
			rec.Res = errRes(err)
			if err == nil {
				rec.Res = "ok:" + errRes(b.Validate())
			}
		case "NewBlockHeader":
			h, err := blockchain.NewBlockHeader(unhex(a["d"]))
			rec.Res = errRes(err)
			if err == nil {
				rec.Res = "ok:" + errRes(h.Validate())
			}
		case "NewTransaction":
			t, err := blockchain.NewTransaction(unhex(a["d"]))
			rec.Res = errRes(err)
			if err == nil {
				rec.Res = "ok:" + errRes(t.Validate())
			}
		case "NewBlockAsset":
			_, err := blockchain.NewBlockAsset(unhex(a["d"]))
			rec.Res = errRes(err)
		case "BlockDecodeInitValidate": // path of handlers that decode a Block directly
			b := &blockchain.Block{}
			err := b.Decode(unhex(a["d"]))
			rec.Res = errRes(err)
			if err == nil {
				b.Init()
				rec.Res = "ok:" + errRes(b.Validate())
			}
		case "BLSVerifyWeightedAggSig":
			rec.Res = boolRes(crypto.BLSVerifyWeightedAggSig(unhexList(a["keys"]), unhex(a["bits"]), unhex(a["sig"]), unU64List(a["weights"]), cx.ParseU(a["threshold"]), unhex(a["msg"])))
		case "BLSVerifyAggSig":
			rec.Res = boolRes(crypto.BLSVerifyAggSig(unhexList(a["keys"]), unhex(a["bits"]), unhex(a["sig"]), unhex(a["msg"])))
		case "BLSVerify":
			rec.Res = boolRes(crypto.BLSVerify(unhex(a["msg"]), unhex(a["sig"]), unhex(a["key"])))
		case "BLSPopVerify":
			rec.Res = boolRes(crypto.BLSPopVerify(unhex(a["key"]), unhex(a["sig"])))
		case "CertVerifyAggregate":
			c := &certificate.Certificate{}
			if err := c.Decode(unhex(a["d"])); err != nil {
				rec.Res = "err"
				return
			}
			rec.Res = boolRes(c.VerifyAggregateCertificateSignature(unhexList(a["keys"]), unU64List(a["weights"]), cx.ParseU(a["threshold"]), unhex(a["chain"])))
		case "lisk32.json": // JSON member of type codec.Lisk32 (RPC parameters), then the text conversions
			var v struct {
				A codec.Lisk32 `json:"a"`
			}
			err := json.Unmarshal(unhex(a["json"]), &v)
			rec.Res = errRes(err)
			if err == nil {
				rec.Res += ":" + v.A.String()[:0] + "ok"
			}
		case "lisk32.text":
			t := string(unhex(a["text"]))
			_, err := codec.Lisk32ToBytes(t)
			rec.Res = errRes(err) + ":" + errRes(codec.ValidateLisk32(t))
		case "SingleCommitValidate":
			c := &certificate.SingleCommit{}
			if err := c.Decode(unhex(a["d"])); err != nil {
				rec.Res = "err"
				return
			}
			rec.Res = errRes(c.Validate())
		case "smt.Verify":
			p := &smt.Proof{}
			if err := p.Decode(unhex(a["proof"])); err != nil {
				rec.Res = "err"
				return
			}
			ok, err := smt.Verify(unhexList(a["keys"]), p, unhex(a["root"]), int(cx.ParseI(a["keylen"])))
			rec.Res = boolRes(ok) + ":" + errRes(err)
		case "rmt.VerifyProof":
			p := &rmt.Proof{}
			if err := p.Decode(unhex(a["proof"])); err != nil {
				rec.Res = "err"
				return
			}
			rec.Obs = map[string]string{"size": cx.U(p.Size), "idxs": u64List(p.Idxs), "sibs": hexList(p.SiblingHashes)}
			rec.Res = boolRes(rmt.VerifyProof(unhexList(a["hashes"]), p, unhex(a["root"])))
		case "rmt.CalculateRootFromAppendPath":
			r := rmt.CalculateRootFromAppendPath(unhex(a["value"]), unhexList(a["path"]), cx.ParseU(a["size"]))
			rec.Res = boolRes(r != nil)
		case "rmt.VerifyRightWitness":
			rec.Res = boolRes(rmt.VerifyRightWitness(cx.ParseU(a["idx"]), unhexList(a["path"]), unhexList(a["witness"]), unhex(a["root"])))
		case "rmt.CalculateRootFromUpdateData":
			p := &rmt.Proof{}
			if err := p.Decode(unhex(a["proof"])); err != nil {
				rec.Res = "err"
				return
			}
			rec.Obs = map[string]string{"size": cx.U(p.Size), "idxs": u64List(p.Idxs), "sibs": hexList(p.SiblingHashes)}
			root, err := rmt.CalculateRootFromUpdateData(unhexList(a["hashes"]), p)
			rec.Res = errRes(err)
			rec.Obs["root"] = hx2(root)
		default:
			panic("harness: unknown entry point " + f)
		}
	})
	if st != 0 {
		rec.St, rec.Panic, rec.Res = st, msg, ""
	}
	return rec
}

// entry points that receive bytes straight from the network / RPC
var netEntries = []string{
	"pkg/blockchain.Block", "pkg/blockchain.RawBlock", "pkg/blockchain.BlockHeader", "pkg/blockchain.Transaction", "pkg/blockchain.BlockAsset",
	"pkg/blockchain.AggregateCommit", "pkg/consensus/certificate.SingleCommit", "pkg/consensus/certificate.Certificate",
	"pkg/p2p.Message", "pkg/p2p.Request", "pkg/p2p.responseMsg",
	"pkg/consensus/sync.getBlocksFromIDRequest", "pkg/consensus/sync.getBlocksFromIDResponse",
	"pkg/consensus/sync.getHighestCommonBlockRequest", "pkg/consensus/sync.getHighestCommonBlockResponse",
	"pkg/consensus.EventPostBlock", "pkg/consensus.EventPostSingleCommits", "pkg/txpool.GetTransactionsResponse", "pkg/consensus/sync.GetBlocksFromIDRequest", "pkg/consensus/sync.GetBlocksFromIDResponse", "pkg/consensus/sync.GetHighestCommonBlockRequest", "pkg/consensus/sync.GetHighestCommonBlockResponse", "pkg/consensus/sync.NodeInfo",
	"pkg/trie/smt.Proof", "pkg/trie/rmt.Proof",
}

func alphabetFor(e *c08reg.Entry) []byte {
	al := []byte{0x00, 0x01, 0x7f, 0x80, 0xff}
	seen := map[byte]bool{}
	for _, b := range al {
		seen[b] = true
	}
	add := func(k uint64) {
		if k < 256 && !seen[byte(k)] {
			seen[byte(k)] = true
			al = append(al, byte(k))
		}
	}
	nb := 0
	for i, f := range e.Fields {
		wt := uint64(2)
		switch f.Ty {
		case "TBool", "TU32", "TU64", "TI32", "TI64":
			wt = 0
		}
		if i < 2 {
			add(uint64(f.Fn)<<3 | wt)
		}
		if f.Ty == "TBool" && nb == 0 {
			add(uint64(f.Fn)<<3 | wt)
			nb++
		}
	}
	return al
}

func genStructCases(o *hx.Out, rng *hx.Rng, exh, nvals, nmut int) {
	isNet := map[string]bool{}
	for _, n := range netEntries {
		if cxs.Lookup(n) == nil {
			panic("harness: network entry point not registered: " + n)
		}
		isNet[n] = true
	}
	for _, e := range cxs.Entries() {
		// (a) exhaustive short strings over a per-struct boundary alphabet (network entry points: length exh, others exh-1)
		n := exh - 1
		if isNet[e.Name] {
			n = exh
		}
		al := alphabetFor(e)
		var rec func(prefix []byte, k int)
		rec = func(prefix []byte, k int) {
			o.Put(cxs.RunStruct(e, append([]byte{}, prefix...), "exh"))
			if k == 0 {
				return
			}
			for _, b := range al {
				rec(append(prefix, b), k-1)
			}
		}
		rec([]byte{}, n)
		for i := 0; i < nvals; i++ {
			d := cxs.GenValue(rng, e, 0, false)
			if len(d) > 400 {
				d = cxs.GenValue(rng, e, 3, false)
			}
			o.Put(cxs.RunStruct(e, d, "gen"))
			// (b) truncation at every offset
			for k := 0; k < len(d); k++ {
				o.Put(cxs.RunStruct(e, d[:k], "trunc"))
			}
			// (c) corrupted length prefixes / varints at every varint position reachable by a shallow scan
			for _, m := range cxs.VarintAttacks(d) {
				o.Put(cxs.RunStruct(e, m, "varint"))
			}
			// (d) random mutations
			for j := 0; j < nmut; j++ {
				o.Put(cxs.RunStruct(e, cx.Mutate(rng, d, 1+rng.Intn(3)), "mut"))
			}
		}
	}
}

func genVerifierCases(o *hx.Out, rng *hx.Rng, n int) {
	put := func(f string, a map[string]string) { o.Put(runV(f, a)) }
	o.Put(runDownloader("empty-lists"))
	// ---- constructors on generated / truncated / mutated bytes
	for _, pair := range [][2]string{{"NewBlock", "pkg/blockchain.RawBlock"}, {"NewBlockHeader", "pkg/blockchain.BlockHeader"},
		{"NewTransaction", "pkg/blockchain.Transaction"}, {"NewBlockAsset", "pkg/blockchain.BlockAsset"},
		{"BlockDecodeInitValidate", "pkg/blockchain.Block"}, {"SingleCommitValidate", "pkg/consensus/certificate.SingleCommit"}} {
		e := cxs.Lookup(pair[1])
		put(pair[0], map[string]string{"d": ""})
		for i := 0; i < n; i++ {
			var d []byte
			if pair[0] == "NewBlock" { // raw block: header / tx / asset bytes are themselves encodings
				d = rawBlock(rng)
			} else {
				d = cxs.GenValue(rng, e, 0, false)
			}
			put(pair[0], map[string]string{"d": hx2(d)})
			for k := 0; k < len(d) && k < 160; k++ {
				put(pair[0], map[string]string{"d": hx2(d[:k])})
			}
			for _, m := range cxs.VarintAttacks(d) {
				put(pair[0], map[string]string{"d": hx2(m)})
			}
			for j := 0; j < 10; j++ {
				put(pair[0], map[string]string{"d": hx2(cx.Mutate(rng, d, 1+rng.Intn(2)))})
			}
		}
	}
	// a header that ends right after the key of a bool field (the historic readBool panic), and friends
	for _, d := range []string{"60", "6001", "6002", "08"} {
		put("NewBlockHeader", map[string]string{"d": d})
		put("BlockDecodeInitValidate", map[string]string{"d": "0a" + fmt.Sprintf("%02x", len(d)/2) + d})
	}

	// ---- BLS: bitmaps of every length around the right one, garbage keys / signatures
	msg := bytes.Repeat([]byte{7}, 32)
	kp := make([]*crypto.BLSKeyPair, 17)
	for i := range kp {
		kp[i] = crypto.BLSKeyGen(bytes.Repeat([]byte{byte(i + 1)}, 32))
	}
	for _, nk := range []int{0, 1, 7, 8, 9, 16, 17} {
		keys := [][]byte{}
		weights := []uint64{}
		pairs := []*crypto.BLSPublicKeySignaturePair{}
		for i := 0; i < nk; i++ {
			keys = append(keys, kp[i].PublicKey)
			weights = append(weights, uint64(i+1))
			pairs = append(pairs, &crypto.BLSPublicKeySignaturePair{PublicKey: kp[i].PublicKey, Signature: crypto.BLSSign(msg, kp[i].PrivateKey)})
		}
		goodBits, sig := []byte{}, bytes.Repeat([]byte{1}, 96)
		if nk > 0 {
			goodBits, sig = crypto.BLSCreateAggSig(keys, pairs)
		}
		right := (nk + 7) / 8
		// right-length bitmaps with padding bits set (key counts that are not a multiple of 8): all ones, each single padding
		// bit, each single padding bit on top of the genuine bitmap
		if nk%8 != 0 {
			pads := [][]byte{bytes.Repeat([]byte{0xff}, right)}
			for bit := nk; bit < right*8; bit++ {
				one := make([]byte, right)
				one[bit/8] |= 1 << uint(bit%8)
				pads = append(pads, one)
				both := append([]byte{}, goodBits...)
				both[bit/8] |= 1 << uint(bit%8)
				pads = append(pads, both)
			}
			for _, bits := range pads {
				a := map[string]string{"keys": hexList(keys), "bits": hx2(bits), "sig": hx2(sig), "weights": u64List(weights), "threshold": "1", "msg": hx2(msg)}
				put("BLSVerifyWeightedAggSig", a)
				put("BLSVerifyAggSig", a)
				c := &certificate.Certificate{BlockID: bytes.Repeat([]byte{1}, 32), Height: 5, StateRoot: bytes.Repeat([]byte{2}, 32),
					ValidatorsHash: bytes.Repeat([]byte{3}, 32), AggregationBits: bits, Signature: sig}
				put("CertVerifyAggregate", map[string]string{"d": hx2(c.Encode()), "keys": hexList(keys), "weights": u64List(weights), "threshold": "1", "chain": "00000000"})
			}
		}
		for bl := 0; bl <= right+2; bl++ {
			for _, fill := range []byte{0xff, 0x00, 0x01} {
				bits := bytes.Repeat([]byte{fill}, bl)
				if bl == right && fill == 0xff {
					bits = goodBits
				}
				a := map[string]string{"keys": hexList(keys), "bits": hx2(bits), "sig": hx2(sig), "weights": u64List(weights), "threshold": "1", "msg": hx2(msg)}
				put("BLSVerifyWeightedAggSig", a)
				put("BLSVerifyAggSig", a)
				if len(weights) > 0 {
					b := map[string]string{}
					for k, v := range a {
						b[k] = v
					}
					b["weights"] = u64List(weights[:len(weights)-1])
					put("BLSVerifyWeightedAggSig", b)
				}
				// the same bitmap inside a certificate, through Certificate.VerifyAggregateCertificateSignature
				c := &certificate.Certificate{BlockID: bytes.Repeat([]byte{1}, 32), Height: 5, StateRoot: bytes.Repeat([]byte{2}, 32),
					ValidatorsHash: bytes.Repeat([]byte{3}, 32), AggregationBits: bits, Signature: sig}
				put("CertVerifyAggregate", map[string]string{"d": hx2(c.Encode()), "keys": hexList(keys), "weights": u64List(weights), "threshold": "1", "chain": "00000000"})
			}
		}
	}
	for _, kl := range []int{0, 1, 47, 48, 49, 96} {
		for _, sl := range []int{0, 1, 95, 96, 97} {
			for _, fill := range []byte{0x00, 0x01, 0xff, 0xc0} {
				k, s := bytes.Repeat([]byte{fill}, kl), bytes.Repeat([]byte{fill}, sl)
				put("BLSVerify", map[string]string{"msg": hx2(msg), "sig": hx2(s), "key": hx2(k)})
				put("BLSPopVerify", map[string]string{"sig": hx2(s), "key": hx2(k)})
				put("BLSVerifyWeightedAggSig", map[string]string{"keys": hx2(k), "bits": "01", "sig": hx2(s), "weights": "1", "threshold": "1", "msg": hx2(msg)})
			}
		}
	}

	// ---- Lisk32 texts from JSON / RPC: non-ASCII runes, invalid UTF-8, wrong lengths, at every position class
	{
		good, _ := codec.BytesToLisk32(bytes.Repeat([]byte{0x42}, 20))
		texts := []string{"", good, "lsk", good[:40], good + "z", "LSK" + good[3:]}
		for _, bad := range []string{"\u00e9", "\u20ac", "\U0001f600", "\xff", "\xc3", "\x80", "\x00", "\x7f", " ", "1"} {
			for pos := 0; pos <= 40; pos++ {
				t := []byte(good)
				// keep the byte length at 41 where possible: overwrite as many bytes as the replacement has
				if pos+len(bad) <= len(t) {
					copy(t[pos:], bad)
				} else {
					t = append(t[:pos], bad...)
				}
				texts = append(texts, string(t))
			}
		}
		for _, t := range texts {
			put("lisk32.text", map[string]string{"text": hx2([]byte(t))})
			js, _ := json.Marshal(map[string]string{"a": t})
			put("lisk32.json", map[string]string{"json": hx2(js)})
			put("lisk32.json", map[string]string{"json": hx2([]byte("{\"a\":\"" + t + "\"}"))}) // raw bytes inside the JSON string
		}
	}

	// ---- BLS: special points next to valid ones
	genBLSMatrix(rng, put)

	// ---- SMT proofs
	h32 := func(b byte) []byte { return bytes.Repeat([]byte{b}, 32) }
	for i := 0; i < n*40; i++ {
		kl := []int{0, 1, 2, 4, 32}[rng.Intn(5)]
		nq := rng.Intn(4)
		keys := [][]byte{}
		p := &smt.Proof{}
		for q := 0; q < nq; q++ {
			k := rng.Bytes(kl)
			if rng.Intn(4) == 0 && q > 0 {
				k = keys[0]
			}
			keys = append(keys, k)
			qk := k
			switch rng.Intn(6) {
			case 0:
				qk = rng.Bytes(kl)
			case 1:
				qk = rng.Bytes(rng.Intn(kl + 3))
			}
			var bm []byte
			switch rng.Intn(6) {
			case 0:
				bm = []byte{}
			case 1:
				bm = bytes.Repeat([]byte{0xff}, kl+1+rng.Intn(3)) // longer than the key
			case 2:
				bm = append([]byte{0x00}, rng.Bytes(rng.Intn(3))...)
			default:
				bm = rng.Bytes(rng.Intn(kl + 1))
			}
			val := rng.Bytes([]int{0, 1, 32}[rng.Intn(3)])
			p.Queries = append(p.Queries, &smt.QueryProof{Key: qk, Value: val, Bitmap: bm})
		}
		for s := rng.Intn(5); s > 0; s-- {
			p.SiblingHashes = append(p.SiblingHashes, rng.Bytes([]int{32, 32, 0, 31, 33, 64, 65}[rng.Intn(7)]))
		}
		if rng.Intn(5) == 0 && len(keys) > 0 {
			keys = keys[:len(keys)-1]
		}
		enc := p.Encode()
		if rng.Intn(6) == 0 {
			enc = cx.Mutate(rng, enc, 1)
		}
		put("smt.Verify", map[string]string{"keys": hexList(keys), "proof": hx2(enc), "root": hx2(h32(9)), "keylen": cx.I(int64(kl))})
	}
	// sibling hashes of every length at every position of a walked path (one query, bitmap selecting 1..4 siblings)
	for _, hl := range []int{0, 1, 31, 32, 33, 64, 65} {
		for nb := 1; nb <= 4; nb++ {
			for pos := 0; pos < nb; pos++ {
				k := bytes.Repeat([]byte{0xa5}, 4)
				p := &smt.Proof{Queries: []*smt.QueryProof{{Key: k, Value: bytes.Repeat([]byte{1}, 32), Bitmap: []byte{byte(1<<uint(nb) - 1)}}}}
				for i := 0; i < nb; i++ {
					l := 32
					if i == pos {
						l = hl
					}
					p.SiblingHashes = append(p.SiblingHashes, bytes.Repeat([]byte{byte(0x60 + i)}, l))
				}
				put("smt.Verify", map[string]string{"keys": hx2(k), "proof": hx2(p.Encode()), "root": hx2(h32(1)), "keylen": "4"})
			}
		}
	}
	// the historic witness: bitmap longer than the key, key equal to the query key
	{
		k := []byte{1, 1}
		p := &smt.Proof{Queries: []*smt.QueryProof{{Key: k, Value: []byte{1}, Bitmap: []byte{0xff, 0xff, 0xff}}}}
		put("smt.Verify", map[string]string{"keys": hx2(k), "proof": hx2(p.Encode()), "root": hx2(h32(1)), "keylen": "2"})
	}

	// ---- RMT proofs: extreme sizes first (a size-dependent loop that does not terminate shows up as TIMEOUT)
	for _, size := range []uint64{1 << 62, 1<<63 - 1, 1 << 63, 1<<63 + 1, 1<<64 - 1} {
		for _, nq := range []int{0, 1} {
			for _, ns := range []int{0, 1} {
				p := &rmt.Proof{Size: size}
				hashes := [][]byte{}
				for q := 0; q < nq; q++ {
					hashes = append(hashes, h32(byte(q+1)))
					p.Idxs = append(p.Idxs, size) // the first leaf index of a tree of that size
				}
				for q := 0; q < ns; q++ {
					p.SiblingHashes = append(p.SiblingHashes, h32(0x55))
				}
				a := map[string]string{"hashes": hexList(hashes), "proof": hx2(p.Encode()), "root": hx2(h32(9))}
				put("rmt.VerifyProof", a)
				put("rmt.CalculateRootFromUpdateData", a)
			}
		}
	}
	// accepting proofs: real trees of 1..12 leaves, genuine proofs for one / two / all leaves; VerifyProof against the real root
	// (true) and a wrong one (false); CalculateRootFromUpdateData must recompute the real root (compared with the model's root)
	for nl := 1; nl <= 12; nl++ {
		tree := rmt.NewRegularMerkleTree(newMemDB())
		vals, lh := [][]byte{}, [][]byte{}
		for i := 0; i < nl; i++ {
			v := []byte{byte(nl), byte(i), 0x33}
			vals = append(vals, v)
			lh = append(lh, crypto.Hash(append([]byte{0x00}, v...)))
			if err := tree.Append(v); err != nil {
				panic(err)
			}
		}
		subsets := [][]int{{0}, {nl - 1}, {nl / 2}, {0, nl - 1}}
		all := []int{}
		for i := 0; i < nl; i++ {
			all = append(all, i)
		}
		subsets = append(subsets, all)
		for _, sub := range subsets {
			qh, qv := [][]byte{}, [][]byte{}
			seen := map[int]bool{}
			for _, i := range sub {
				if !seen[i] {
					seen[i] = true
					qh, qv = append(qh, lh[i]), append(qv, vals[i])
				}
			}
			proof, err := tree.GenerateProof(qh)
			if err != nil {
				panic(err)
			}
			enc := hx2(proof.Encode())
			put("rmt.VerifyProof", map[string]string{"hashes": hexList(qh), "proof": enc, "root": hx2(tree.Root()), "gen": "accepting"})
			put("rmt.VerifyProof", map[string]string{"hashes": hexList(qh), "proof": enc, "root": hx2(h32(9)), "gen": "wrong-root"})
			put("rmt.CalculateRootFromUpdateData", map[string]string{"hashes": hexList(qv), "proof": enc, "root": hx2(tree.Root()), "gen": "accepting"})
			if len(proof.SiblingHashes) > 0 { // one sibling replaced
				bad := &rmt.Proof{Size: proof.Size, Idxs: proof.Idxs, SiblingHashes: append([][]byte{h32(0x13)}, proof.SiblingHashes[1:]...)}
				put("rmt.VerifyProof", map[string]string{"hashes": hexList(qh), "proof": hx2(bad.Encode()), "root": hx2(tree.Root()), "gen": "bad-sibling"})
			}
		}
	}
	// append paths and right witnesses with hashes of every length (both non-empty: an empty pair is the known
	// VerifyRightWitness(nil, nil) issue owned by builder-tries)
	for _, hl := range []int{0, 1, 31, 32, 33, 63, 64, 65, 100} {
		mk := func(n int, l int) [][]byte {
			out := [][]byte{}
			for i := 0; i < n; i++ {
				out = append(out, bytes.Repeat([]byte{byte(0x50 + i)}, l))
			}
			return out
		}
		for _, size := range []uint64{1, 2, 3, 5, 7, 8, 257, 1000, 65537, 1<<32 + 1, 1<<63 + 5} {
			pc := 0
			for x := size; x > 0; x &= x - 1 {
				pc++
			}
			for _, other := range []int{32, hl} {
				path := mk(pc, other)
				if len(path) > 0 {
					path[len(path)-1] = bytes.Repeat([]byte{0x77}, hl) // one odd-length hash among regular ones
				}
				put("rmt.CalculateRootFromAppendPath", map[string]string{"value": "01", "path": hexList(path), "size": cx.U(size)})
				for _, nw := range []int{1, 2} {
					put("rmt.VerifyRightWitness", map[string]string{"idx": cx.U(size), "path": hexList(path), "witness": hexList(mk(nw, hl)), "root": hx2(h32(9))})
					put("rmt.VerifyRightWitness", map[string]string{"idx": cx.U(size), "path": hexList(mk(pc, 32)), "witness": hexList(mk(nw, hl)), "root": hx2(h32(9))})
				}
			}
		}
	}
	// sibling / query hashes of every length on paths that are really walked (small trees, genuine leaf indexes)
	for _, size := range []uint64{2, 3, 4, 5, 8} {
		h := uint64(1)
		for (uint64(1) << (h - 1)) < size {
			h++
		}
		for leaf := uint64(0); leaf < size && leaf < 3; leaf++ {
			for _, hl := range []int{0, 1, 31, 32, 33, 63, 64, 65, 100} {
				for _, ql := range []int{32, 33, 0} {
					p := &rmt.Proof{Size: size, Idxs: []uint64{(uint64(1) << (h - 1)) + leaf}}
					for q := uint64(0); q < h; q++ {
						p.SiblingHashes = append(p.SiblingHashes, bytes.Repeat([]byte{byte(0x30 + q)}, hl))
					}
					a := map[string]string{"hashes": hx2(bytes.Repeat([]byte{7}, ql)), "proof": hx2(p.Encode()), "root": hx2(h32(9))}
					put("rmt.VerifyProof", a)
					put("rmt.CalculateRootFromUpdateData", a)
				}
			}
		}
	}
	for i := 0; i < n*40; i++ {
		size := []uint64{0, 1, 2, 3, 4, 5, 8, 9, 257, 1 << 20, 1<<63 - 1, 1 << 63, 1<<64 - 1}[rng.Intn(13)]
		p := &rmt.Proof{Size: size}
		nq := rng.Intn(4)
		hashes := [][]byte{}
		for q := 0; q < nq; q++ {
			hashes = append(hashes, rng.Bytes(32))
			var ix uint64
			switch rng.Intn(5) {
			case 0:
				ix = rng.U64()
			case 1:
				ix = size + uint64(rng.Intn(4))
			case 2:
				ix = 0
			default:
				ix = uint64(rng.Intn(20))
			}
			p.Idxs = append(p.Idxs, ix)
		}
		switch rng.Intn(4) {
		case 0:
			if len(p.Idxs) > 0 {
				p.Idxs = p.Idxs[:len(p.Idxs)-1]
			}
		case 1:
			p.Idxs = append(p.Idxs, uint64(rng.Intn(9)))
		}
		for s := rng.Intn(4); s > 0; s-- {
			p.SiblingHashes = append(p.SiblingHashes, rng.Bytes(32))
		}
		a := map[string]string{"hashes": hexList(hashes), "proof": hx2(p.Encode()), "root": hx2(h32(9))}
		put("rmt.VerifyProof", a)
		put("rmt.CalculateRootFromUpdateData", a)
	}
	put("rmt.VerifyProof", map[string]string{"hashes": hx2(h32(1)), "proof": hx2((&rmt.Proof{Size: 4, Idxs: []uint64{4}}).Encode()), "root": hx2(h32(1))})
	for _, size := range []uint64{0, 1, 2, 3, 4, 7, 8, 255, 256} {
		for pl := 0; pl <= 4; pl++ {
			path := [][]byte{}
			for j := 0; j < pl; j++ {
				path = append(path, h32(byte(j)))
			}
			put("rmt.CalculateRootFromAppendPath", map[string]string{"value": "01", "path": hexList(path), "size": cx.U(size)})
		}
	}
}

func rawBlock(rng *hx.Rng) []byte {
	hdr := cxs.GenValue(rng, cxs.Lookup("pkg/blockchain.BlockHeader"), 0, false)
	w := codec.NewWriter()
	w.WriteBytes(1, hdr)
	var txs, assets [][]byte
	for i := rng.Intn(3); i > 0; i-- {
		txs = append(txs, cxs.GenValue(rng, cxs.Lookup("pkg/blockchain.Transaction"), 0, false))
	}
	for i := rng.Intn(3); i > 0; i-- {
		assets = append(assets, cxs.GenValue(rng, cxs.Lookup("pkg/blockchain.BlockAsset"), 0, false))
	}
	w.WriteBytesArray(2, txs)
	w.WriteBytesArray(3, assets)
	return w.Result()
}

func main() {
	out := flag.String("out", "cases.jsonl", "output")
	exh := flag.Int("exh", 2, "exhaustive byte-string length (network entry points; others one less)")
	nvals := flag.Int("vals", 1, "generated values per struct (each truncated at every offset)")
	nmut := flag.Int("mut", 4, "random mutations per value")
	nver := flag.Int("ver", 2, "scale of verifier cases")
	nnet := flag.Int("net", 1, "scale of the validator / handler sweep (0 = skip)")
	parts := flag.String("parts", "struct,ver,net,mem", "which parts to run")
	in := flag.String("in", "", "replay: JSONL of records to re-run")
	flag.Parse()
	if *parts == "p2p" { // separate invocation: the output is written unbuffered, case by case
		runP2P(*out, *nnet, *in)
		return
	}
	rng := hx.NewRng(hx.SeedFromEnv())
	o := hx.NewOut(*out)
	defer o.Close()
	if *in != "" {
		data, err := os.ReadFile(*in)
		if err != nil {
			panic(err)
		}
		var env *netEnv
		defer func() {
			if env != nil {
				env.close()
			}
		}()
		for _, line := range strings.Split(string(data), "\n") {
			if strings.TrimSpace(line) == "" {
				continue
			}
			var k struct {
				K string `json:"k"`
			}
			if err := json.Unmarshal([]byte(line), &k); err != nil {
				panic(err)
			}
			switch k.K {
			case "s":
				var r cxs.StructRec
				if err := json.Unmarshal([]byte(line), &r); err != nil {
					panic(err)
				}
				e := cxs.Lookup(r.Name)
				if e == nil {
					panic("unknown struct " + r.Name)
				}
				o.Put(cxs.RunStruct(e, unhex(r.D), r.Gen))
			case "n":
				var r nRec
				if err := json.Unmarshal([]byte(line), &r); err != nil {
					panic(err)
				}
				if env == nil {
					env = newNetEnv()
				}
				o.Put(env.run(r.F, unhex(r.D), r.Gen))
			case "m":
				var r mRec
				if err := json.Unmarshal([]byte(line), &r); err != nil {
					panic(err)
				}
				o.Put(replayMem(r))
			case "v":
				var r vRec
				if err := json.Unmarshal([]byte(line), &r); err != nil {
					panic(err)
				}
				if r.F == "sync.Downloader" {
					o.Put(runDownloader(r.A["peer"]))
				} else {
					o.Put(runV(r.F, r.A))
				}
			default:
				panic("unknown record kind " + k.K)
			}
		}
		return
	}
	want := map[string]bool{}
	for _, p := range strings.Split(*parts, ",") {
		want[p] = true
	}
	if want["mem"] { // first: before any Executer / libp2p host (background goroutines allocate) exists in the process
		genMem(o, hx.NewRng(hx.SeedFromEnv()+7))
	}
	if want["struct"] {
		genStructCases(o, rng, *exh, *nvals, *nmut)
	}
	if want["ver"] {
		genVerifierCases(o, rng, *nver)
	}
	if want["net"] && *nnet > 0 {
		genNet(o, rng, *nnet)
	}
}

type memDB struct{ m map[string][]byte }

func newMemDB() *memDB                       { return &memDB{m: map[string][]byte{}} }
func (m *memDB) Get(k []byte) ([]byte, bool) { v, ok := m.m[string(k)]; return v, ok }
func (m *memDB) Set(k, v []byte)             { m.m[string(k)] = append([]byte{}, v...) }
func (m *memDB) Del(k []byte)                { delete(m.m, string(k)) }
