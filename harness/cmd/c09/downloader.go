package main

import (
	"context"
	"fmt"
	"sync/atomic"
	"time"

	csync "github.com/LiskHQ/lisk-engine/pkg/consensus/sync"
	"github.com/LiskHQ/lisk-engine/pkg/log"
	"github.com/LiskHQ/lisk-engine/pkg/p2p"
)

// runDownloader: the real sync.Downloader of node A against a peer B (real loopback libp2p connections) that answers
// every getBlocksFromID request with a well-formed response carrying the given number of blocks (0 = empty list).
// "No peer message can hang the node": Start must return (the consumer ranges over a channel only Start closes).
func runDownloader(mode string) vRec {
	rec := vRec{K: "v", F: "sync.Downloader", A: map[string]string{"peer": mode}}
	lg, _ := log.NewSilentLogger()
	chainID := []byte{0, 0, 0, 1}
	mk := func() *p2p.Connection {
		return p2p.NewConnection(lg, &p2p.Config{ChainID: chainID, Addresses: []string{"/ip4/127.0.0.1/tcp/0"}})
	}
	connA, connB := mk(), mk()
	var served int64
	_ = connB.RegisterRPCHandler(csync.RPCEndpointGetBlocksFromID, func(w p2p.ResponseWriter, r *p2p.Request) {
		atomic.AddInt64(&served, 1)
		// a response that decodes (leniently) to an empty block list: one unknown field, no field 1.  (The encoding of
		// an empty list is empty, and an empty response never reaches the requester.)
		w.Write([]byte{0x10, 0x00})
	})
	// every node registers the sync endpoints; responses for a procedure the receiver does not know are dropped
	_ = connA.RegisterRPCHandler(csync.RPCEndpointGetBlocksFromID, func(w p2p.ResponseWriter, r *p2p.Request) { w.Write(nil) })
	if err := connA.Start([]byte{}); err != nil {
		rec.St, rec.Res = 5, "harness: "+err.Error()
		return rec
	}
	defer connA.Stop() //nolint:errcheck
	if err := connB.Start([]byte{}); err != nil {
		rec.St, rec.Res = 5, "harness: "+err.Error()
		return rec
	}
	defer connB.Stop() //nolint:errcheck
	addrs, err := connB.Peer.MultiAddress()
	if err != nil || len(addrs) == 0 {
		rec.St, rec.Res = 5, "harness: no address"
		return rec
	}
	info, err := p2p.AddrInfoFromMultiAddr(addrs[0])
	if err != nil {
		rec.St, rec.Res = 5, "harness: "+err.Error()
		return rec
	}
	if err := connA.Peer.Connect(context.Background(), *info); err != nil {
		rec.St, rec.Res = 5, "harness: "+err.Error()
		return rec
	}
	ctx, cancel := context.WithCancel(context.Background())
	defer cancel()
	start, end := make([]byte, 32), make([]byte, 32)
	end[0] = 1
	d := csync.NewDownloader(ctx, nopLog{}, connA, nil, connB.Peer.ID(), start, 5, end, 9)
	done := make(chan struct{})
	go func() { d.Start(); close(done) }()
	go func() { // the consumer of block_sync.go / fast_sync.go
		for range d.Downloaded() {
		}
	}()
	select {
	case <-done:
		rec.Res = fmt.Sprintf("returned after %d requests", atomic.LoadInt64(&served))
	case <-time.After(2500 * time.Millisecond):
		// same rule as cx.Guard: the same call gets four times more before it is reported
		select {
		case <-done:
			rec.Res = fmt.Sprintf("returned after %d requests (slow)", atomic.LoadInt64(&served))
			return rec
		case <-time.After(10 * time.Second):
		}
		rec.St = 3
		rec.Panic = fmt.Sprintf("Downloader.Start still running after 12.5 s and %d answered requests (peer keeps sending empty block lists) @ sync.Downloader.Start", atomic.LoadInt64(&served))
		cancel()
		select {
		case <-done:
		case <-time.After(2 * time.Second):
		}
	}
	return rec
}
