// C09 part 3: raw bytes on the request / response streams of a real loopback libp2p MessageProtocol (onRequest /
// onResponse and everything behind them).  The receiving node lives in this process, so a panic in one of its stream
// goroutines kills the process: every case is written (unbuffered) as "pending" before it is sent and as "done" after the
// receiver answered a ping; the orchestration reports the pending cases of a crashed run as the violating inputs.
package main

import (
	"bytes"
	"context"
	"encoding/hex"
	"encoding/json"
	"fmt"
	"os"
	"runtime"
	"time"

	"github.com/LiskHQ/lisk-engine/pkg/p2p"

	"verifharness/internal/cx"
	"verifharness/internal/hx"
)

type pRec struct {
	K     string `json:"k"`
	I     int    `json:"i"`
	Phase string `json:"phase"` // pending | done
	Resp  bool   `json:"resp"`  // sent on the response protocol
	D     string `json:"d"`
	Gen   string `json:"gen"`
	Send  string `json:"send,omitempty"` // error of the send, if any (e.g. sender banned)
	Alive bool   `json:"alive"`
	// hang / memory oracle: goroutines above the count before the send once the stream has been handled (or the settle
	// deadline passed), time it took, bytes allocated by the whole process meanwhile (TotalAlloc delta)
	GLeak    int    `json:"gleak"`
	SettleMs int    `json:"settle_ms"`
	Alloc    uint64 `json:"alloc"`
}

const settleDeadline = 10 * time.Second // 2 s, plus four times more on the same observation before a hang is reported

type p2pPair struct {
	a, b *p2p.VerifC18Node
}

// harnessExit: an error of the driver's own setup (listen, connect, first ping of a fresh pair) — never a property
// violation: a "harness" record and a distinct exit code, which the orchestration maps to an obligation failure after one retry.
const harnessExit = 3

var harnessFail func(why string)

func tryPair() (*p2pPair, error) {
	hs := []p2p.VerifC18Handler{{Name: "ping", Reply: []byte("pong"), Limit: 1 << 30}, {Name: "echo", Handler: func(w p2p.ResponseWriter, r *p2p.Request) { w.Write(r.Data) }, Limit: 1 << 30}}
	a, err := p2p.VerifC18NewNode("/ip4/127.0.0.1/tcp/0", 30*time.Millisecond, 10*time.Millisecond, 0, nil, hs)
	if err != nil {
		return nil, err
	}
	b, err := p2p.VerifC18NewNode("/ip4/127.0.0.1/tcp/0", 30*time.Millisecond, 10*time.Millisecond, 0, nil, hs)
	if err != nil {
		a.Close()
		return nil, err
	}
	if err := a.Connect(context.Background(), b); err != nil {
		a.Close()
		b.Close()
		return nil, err
	}
	p := &p2pPair{a: a, b: b}
	for try := 0; try < 10; try++ { // a fresh pair must answer before it is used (loaded machine: be patient)
		if p.ping() {
			return p, nil
		}
		time.Sleep(200 * time.Millisecond)
	}
	p.close()
	return nil, fmt.Errorf("fresh loopback pair does not answer ping")
}

func newPair() *p2pPair {
	var last error
	for try := 0; try < 5; try++ {
		p, err := tryPair()
		if err == nil {
			return p
		}
		last = err
		time.Sleep(300 * time.Millisecond)
	}
	harnessFail("cannot set up a loopback pair: " + last.Error())
	return nil
}

func (p *p2pPair) close() { p.a.Close(); p.b.Close() }

func (p *p2pPair) ping() bool {
	ctx, cancel := context.WithTimeout(context.Background(), time.Second)
	defer cancel()
	res, err := p.a.Request(ctx, p.b.ID(), "ping", nil, 500*time.Millisecond)
	return err == nil && string(res) == "pong"
}

func runP2P(outPath string, scale int, inPath string) {
	f, err := os.Create(outPath)
	if err != nil {
		panic(err)
	}
	defer f.Close()
	emit := func(r pRec) {
		b, _ := json.Marshal(r)
		if _, err := f.Write(append(b, '\n')); err != nil {
			panic(err)
		}
	}
	harnessFail = func(why string) {
		emit(pRec{K: "p", I: -2, Phase: "harness", Gen: why})
		f.Close()
		os.Exit(harnessExit)
	}
	rng := hx.NewRng(hx.SeedFromEnv())
	pair := newPair()
	defer func() {
		if pair != nil {
			pair.close()
		}
	}()
	i := 0
	dead := 0
	charged := 0 // goroutines inside the stream handlers already attributed to a case
	lastI, lastResp, lastD, lastGen := 0, false, "", ""
	one := func(resp bool, d []byte, gen string) {
		i++
		rec := pRec{K: "p", I: i, Phase: "pending", Resp: resp, D: hex.EncodeToString(d), Gen: gen}
		emit(rec)
		// a handler that got stuck after the previous case had been judged (it started late) is charged to that case
		if sb := handlersSettled(charged); sb > charged {
			emit(pRec{K: "p", I: lastI, Phase: "late", Resp: lastResp, D: lastD, Gen: lastGen, GLeak: sb - charged, SettleMs: -1, Alive: true})
			charged = sb
		} else if sb < charged {
			charged = sb // stuck handlers of a closed pair died with their streams
		}
		var m0, m1 runtime.MemStats
		runtime.ReadMemStats(&m0)
		ctx, cancel := context.WithTimeout(context.Background(), 2*time.Second)
		if err := pair.a.SendRaw(ctx, pair.b.ID(), resp, d); err != nil {
			rec.Send = "error"
		}
		cancel()
		time.Sleep(time.Millisecond)
		// a full request / response round trip with the receiver (or its refusal: a malformed message makes it ban the sender's
		// IP address): by then the handler of the message under test has been started
		banned := !pair.ping()
		if banned {
			// a refusal must be explained by the receiver's gater (it penalised the sender's address for the malformed message);
			// otherwise the receiver is not answering: patience first (load), then the case is reported as unresponsive
			// (the pairs use a 30 ms ban expiry: on a loaded machine the entry may already have been swept, and the connection the ban
			// closed stays closed: reconnect and ask again — a receiver that answers then is alive)
			_, _, scored := pair.b.Score("127.0.0.1")
			if !scored && len(pair.b.Banned()) == 0 {
				answered := false
				for try := 0; try < 15 && !answered && !scored; try++ {
					time.Sleep(200 * time.Millisecond)
					ctx, cancel := context.WithTimeout(context.Background(), 2*time.Second)
					_ = pair.a.Connect(ctx, pair.b)
					cancel()
					answered = pair.ping()
					_, _, scored = pair.b.Score("127.0.0.1")
					scored = scored || len(pair.b.Banned()) > 0
				}
				if !answered && !scored {
					rec.Send += "unresponsive"
				}
			}
		}
		// the receiver's stream goroutine must be gone within the deadline: goroutines still inside onRequest / onResponse (or
		// anything they call) are counted in a dump of all goroutine stacks; those not yet charged to a case are charged here
		t0 := time.Now()
		stuck := inHandlers()
		for stuck > charged && time.Since(t0) < settleDeadline {
			time.Sleep(5 * time.Millisecond)
			stuck = inHandlers()
		}
		runtime.ReadMemStats(&m1)
		rec.GLeak, rec.SettleMs, rec.Alloc = stuck-charged, int(time.Since(t0)/time.Millisecond), m1.TotalAlloc-m0.TotalAlloc
		if rec.GLeak < 0 {
			rec.GLeak = 0
		}
		if stuck > charged {
			charged = stuck
		}
		lastI, lastResp, lastD, lastGen = i, resp, rec.D, gen
		rec.Phase, rec.Alive = "done", true
		if banned {
			rec.Send += "banned"
			dead++
			pair.close()
			pair = newPair()
		}
		emit(rec)
	}
	if inPath != "" {
		data, err := os.ReadFile(inPath)
		if err != nil {
			panic(err)
		}
		for _, line := range splitLines(data) {
			var r pRec
			if err := json.Unmarshal(line, &r); err != nil {
				panic(err)
			}
			if r.K == "p" {
				d, _ := hex.DecodeString(r.D)
				one(r.Resp, d, r.Gen)
			}
		}
		time.Sleep(300 * time.Millisecond)
		if sb := handlersSettled(charged); sb > charged {
			emit(pRec{K: "p", I: lastI, Phase: "late", Resp: lastResp, D: lastD, Gen: lastGen, GLeak: sb - charged, SettleMs: -1, Alive: true})
		}
		emit(pRec{K: "p", I: -1, Phase: "end", Alive: pair.ping()})
		return
	}
	fam := func(resp bool, valid []byte, nmut int) {
		family(rng, valid, nmut, func(d []byte, gen string) { one(resp, d, gen) })
	}
	me := pair.a.ID()
	fam(false, p2p.VerifC18EncodeRequest(me, "ping", nil), 30*scale)
	fam(false, p2p.VerifC18EncodeRequest(me, "echo", []byte{1, 2, 3}), 10*scale)
	fam(false, p2p.VerifC18EncodeRequest(me, "noSuchProcedure", []byte{1}), 10*scale)
	fam(false, p2p.VerifC18EncodeRequest(p2p.PeerID(""), "ping", nil), 5*scale)
	fam(true, p2p.VerifC18EncodeResponse("nonexistent-request-id", "ping", []byte("pong")), 30*scale)
	fam(true, p2p.VerifC18EncodeResponse("", "", nil), 5*scale)
	for _, resp := range []bool{false, true} {
		one(resp, []byte{}, "empty")
		one(resp, []byte{0x00}, "zero")
		one(resp, make([]byte, 100000), "zeros-100k")
		one(resp, cx.Mutate(rng, make([]byte, 64), 8), "noise")
		big := p2p.VerifC18EncodeRequest(me, "echo", make([]byte, 300000))
		one(resp, big, "large-payload")
		one(resp, append([]byte{0x0a}, cx.Uvarint(1<<40)...), "length-bomb")
	}
	time.Sleep(300 * time.Millisecond)
	alive := pair.ping()
	if sb := handlersSettled(charged); sb > charged { // nothing may still sit in a handler at the end
		emit(pRec{K: "p", I: lastI, Phase: "late", Resp: lastResp, D: lastD, Gen: lastGen, GLeak: sb - charged, SettleMs: -1, Alive: true})
	}
	pair.close()
	pair = nil
	emit(pRec{K: "p", I: -1, Phase: "end", Alive: alive, Gen: hexInt(dead)})
}

// settle waits until the goroutine count is at most target or the time is up, and returns the count.
func settle(target int, max time.Duration) int {
	t0 := time.Now()
	g := runtime.NumGoroutine()
	for g > target && time.Since(t0) < max {
		time.Sleep(2 * time.Millisecond)
		g = runtime.NumGoroutine()
	}
	return g
}

func hexInt(n int) string { return cx.I(int64(n)) }

func splitLines(b []byte) [][]byte {
	var out [][]byte
	start := 0
	for i, c := range b {
		if c == '\n' {
			if i > start {
				out = append(out, b[start:i])
			}
			start = i + 1
		}
	}
	if start < len(b) {
		out = append(out, b[start:])
	}
	return out
}

// inHandlers counts the goroutines whose stack is inside the stream handlers of the MessageProtocol.
var stackBuf = make([]byte, 8<<20) // reused: the dumps must not count as allocation of the message under test

func inHandlers() int {
	var buf []byte
	for {
		n := runtime.Stack(stackBuf, true)
		if n < len(stackBuf) {
			buf = stackBuf[:n]
			break
		}
		stackBuf = make([]byte, 2*len(stackBuf))
	}
	return bytes.Count(buf, []byte("p2p.(*MessageProtocol).onRequest(")) + bytes.Count(buf, []byte("p2p.(*MessageProtocol).onResponse("))
}

// handlersSettled: number of goroutines inside the stream handlers once it is at most target or the settle deadline passed
// (handlers of the liveness pings and of a just finished case may legitimately still be running for a moment).
func handlersSettled(target int) int {
	t0 := time.Now()
	n := inHandlers()
	for n > target && time.Since(t0) < settleDeadline {
		time.Sleep(5 * time.Millisecond)
		n = inHandlers()
	}
	return n
}

// quiesce waits until the goroutine count has been stable for a while (streams of the previous exchange closed) and
// returns it: the baseline against which a stuck stream handler shows up.
func quiesce() int {
	last, stable := runtime.NumGoroutine(), 0
	for i := 0; i < 300 && stable < 10; i++ {
		time.Sleep(time.Millisecond)
		g := runtime.NumGoroutine()
		if g == last {
			stable++
		} else {
			last, stable = g, 0
		}
	}
	return last
}
