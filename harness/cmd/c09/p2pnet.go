// C09 part 3: raw bytes on the request / response streams of a real loopback libp2p MessageProtocol (onRequest /
// onResponse and everything behind them).  The receiving node lives in this process, so a panic in one of its stream
// goroutines kills the process: every case is written (unbuffered) as "pending" before it is sent and as "done" after the
// receiver answered a ping; the orchestration reports the pending cases of a crashed run as the violating inputs.
package main

import (
	"context"
	"encoding/hex"
	"encoding/json"
	"os"
	"time"

	"github.com/LiskHQ/lisk-engine/pkg/p2p"

	"verifharness/internal/cx"
	"verifharness/internal/hx"
)

type pRec struct {
	K     string `json:"k"`
	I     int    `json:"i"`
	Phase string `json:"phase"` // pending | done
	Resp  bool   `json:"resp"`  // sent on the response protocol
	D     string `json:"d"`
	Gen   string `json:"gen"`
	Send  string `json:"send,omitempty"` // error of the send, if any (e.g. sender banned)
	Alive bool   `json:"alive"`
}

type p2pPair struct {
	a, b *p2p.VerifC18Node
}

func newPair() *p2pPair {
	hs := []p2p.VerifC18Handler{{Name: "ping", Reply: []byte("pong"), Limit: 1 << 30}, {Name: "echo", Handler: func(w p2p.ResponseWriter, r *p2p.Request) { w.Write(r.Data) }, Limit: 1 << 30}}
	a, err := p2p.VerifC18NewNode("/ip4/127.0.0.1/tcp/0", 30*time.Millisecond, 10*time.Millisecond, 0, nil, hs)
	if err != nil {
		panic(err)
	}
	b, err := p2p.VerifC18NewNode("/ip4/127.0.0.1/tcp/0", 30*time.Millisecond, 10*time.Millisecond, 0, nil, hs)
	if err != nil {
		panic(err)
	}
	if err := a.Connect(context.Background(), b); err != nil {
		panic(err)
	}
	return &p2pPair{a: a, b: b}
}

func (p *p2pPair) close() { p.a.Close(); p.b.Close() }

func (p *p2pPair) ping() bool {
	ctx, cancel := context.WithTimeout(context.Background(), time.Second)
	defer cancel()
	res, err := p.a.Request(ctx, p.b.ID(), "ping", nil, 500*time.Millisecond)
	return err == nil && string(res) == "pong"
}

func runP2P(outPath string, scale int, inPath string) {
	f, err := os.Create(outPath)
	if err != nil {
		panic(err)
	}
	defer f.Close()
	emit := func(r pRec) {
		b, _ := json.Marshal(r)
		if _, err := f.Write(append(b, '\n')); err != nil {
			panic(err)
		}
	}
	rng := hx.NewRng(hx.SeedFromEnv())
	pair := newPair()
	defer func() { pair.close() }()
	if !pair.ping() {
		panic("harness: loopback pair does not answer")
	}
	i := 0
	dead := 0
	one := func(resp bool, d []byte, gen string) {
		i++
		rec := pRec{K: "p", I: i, Phase: "pending", Resp: resp, D: hex.EncodeToString(d), Gen: gen}
		emit(rec)
		ctx, cancel := context.WithTimeout(context.Background(), 2*time.Second)
		if err := pair.a.SendRaw(ctx, pair.b.ID(), resp, d); err != nil {
			rec.Send = "error"
		}
		cancel()
		time.Sleep(time.Millisecond)
		// the process survived the message (a panic in the receiver's stream goroutine would have killed it); a malformed
		// message makes the receiver ban the sender's IP address, which is shared by every loopback node: fresh pair then
		banned := !pair.ping()
		rec.Phase, rec.Alive = "done", true
		if banned {
			rec.Send += "banned"
			dead++
			pair.close()
			pair = newPair()
		}
		emit(rec)
	}
	if inPath != "" {
		data, err := os.ReadFile(inPath)
		if err != nil {
			panic(err)
		}
		for _, line := range splitLines(data) {
			var r pRec
			if err := json.Unmarshal(line, &r); err != nil {
				panic(err)
			}
			if r.K == "p" {
				d, _ := hex.DecodeString(r.D)
				one(r.Resp, d, r.Gen)
			}
		}
		time.Sleep(300 * time.Millisecond)
		emit(pRec{K: "p", I: -1, Phase: "end", Alive: pair.ping()})
		return
	}
	fam := func(resp bool, valid []byte, nmut int) {
		family(rng, valid, nmut, func(d []byte, gen string) { one(resp, d, gen) })
	}
	me := pair.a.ID()
	fam(false, p2p.VerifC18EncodeRequest(me, "ping", nil), 30*scale)
	fam(false, p2p.VerifC18EncodeRequest(me, "echo", []byte{1, 2, 3}), 10*scale)
	fam(false, p2p.VerifC18EncodeRequest(me, "noSuchProcedure", []byte{1}), 10*scale)
	fam(false, p2p.VerifC18EncodeRequest(p2p.PeerID(""), "ping", nil), 5*scale)
	fam(true, p2p.VerifC18EncodeResponse("nonexistent-request-id", "ping", []byte("pong")), 30*scale)
	fam(true, p2p.VerifC18EncodeResponse("", "", nil), 5*scale)
	for _, resp := range []bool{false, true} {
		one(resp, []byte{}, "empty")
		one(resp, []byte{0x00}, "zero")
		one(resp, make([]byte, 100000), "zeros-100k")
		one(resp, cx.Mutate(rng, make([]byte, 64), 8), "noise")
		big := p2p.VerifC18EncodeRequest(me, "echo", make([]byte, 300000))
		one(resp, big, "large-payload")
		one(resp, append([]byte{0x0a}, cx.Uvarint(1<<40)...), "length-bomb")
	}
	time.Sleep(300 * time.Millisecond)
	emit(pRec{K: "p", I: -1, Phase: "end", Alive: pair.ping(), Gen: hexInt(dead)})
}

func hexInt(n int) string { return cx.I(int64(n)) }

func splitLines(b []byte) [][]byte {
	var out [][]byte
	start := 0
	for i, c := range b {
		if c == '\n' {
			if i > start {
				out = append(out, b[start:i])
			}
			start = i + 1
		}
	}
	if start < len(b) {
		out = append(out, b[start:])
	}
	return out
}
