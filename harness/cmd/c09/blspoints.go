package main

import (
	"bytes"

	blst "github.com/supranational/blst/bindings/go"

	"github.com/LiskHQ/lisk-engine/pkg/consensus/certificate"
	"github.com/LiskHQ/lisk-engine/pkg/crypto"

	"verifharness/internal/cx"
	"verifharness/internal/hx"
)

// special compressed G1 / G2 encodings (the property's mechanism list names "nil points from Uncompress")
type blsPoints struct {
	nilKey, infKey, offKey []byte // does not uncompress / point at infinity / on the curve but outside the prime-order subgroup
	nilSig, infSig, offSig []byte
}

func findBLSPoints(rng *hx.Rng) blsPoints {
	p := blsPoints{nilKey: bytes.Repeat([]byte{0x01}, 48), nilSig: bytes.Repeat([]byte{0x01}, 96)}
	p.infKey = append([]byte{0xc0}, make([]byte, 47)...)
	p.infSig = append([]byte{0xc0}, make([]byte, 95)...)
	if new(blst.P1Affine).Uncompress(p.nilKey) != nil || new(blst.P2Affine).Uncompress(p.nilSig) != nil {
		panic("harness: the garbage encodings uncompress")
	}
	for i := 0; i < 10000 && p.offKey == nil; i++ {
		c := rng.Bytes(48)
		c[0] = 0x80 | (c[0] & 0x1f) // compressed, not infinity, x below the modulus
		if q := new(blst.P1Affine).Uncompress(c); q != nil && !q.InG1() {
			p.offKey = c
		}
	}
	for i := 0; i < 10000 && p.offSig == nil; i++ {
		c := rng.Bytes(96)
		c[0] = 0x80 | (c[0] & 0x1f)
		if q := new(blst.P2Affine).Uncompress(c); q != nil && !q.InG2() {
			p.offSig = c
		}
	}
	if p.offKey == nil || p.offSig == nil {
		panic("harness: no curve point outside the subgroup found")
	}
	return p
}

// genBLSMatrix: {valid, nil-uncompress, infinity, wrong-subgroup} keys at every position of otherwise valid key lists, all
// selected by the bitmap, with a valid aggregate signature of the valid signers; and valid lists with a signature that does not
// uncompress / is the point at infinity / lies outside the subgroup.  Through the crypto functions and through a certificate.
func genBLSMatrix(rng *hx.Rng, put func(f string, a map[string]string)) {
	pts := findBLSPoints(rng)
	msg := bytes.Repeat([]byte{7}, 32)
	for _, nk := range []int{1, 2, 3, 9} {
		kp := make([]*crypto.BLSKeyPair, nk)
		keys := [][]byte{}
		weights := []uint64{}
		pairs := []*crypto.BLSPublicKeySignaturePair{}
		for i := range kp {
			kp[i] = crypto.BLSKeyGen(bytes.Repeat([]byte{byte(0x40 + i)}, 32))
			keys = append(keys, kp[i].PublicKey)
			weights = append(weights, 1)
			pairs = append(pairs, &crypto.BLSPublicKeySignaturePair{PublicKey: kp[i].PublicKey, Signature: crypto.BLSSign(msg, kp[i].PrivateKey)})
		}
		bits, goodSig := crypto.BLSCreateAggSig(keys, pairs)
		run := func(ks [][]byte, sig []byte, gen string) {
			a := map[string]string{"keys": hexList(ks), "bits": hx2(bits), "sig": hx2(sig), "weights": u64List(weights), "threshold": "1", "msg": hx2(msg), "gen": gen}
			put("BLSVerifyWeightedAggSig", a)
			put("BLSVerifyAggSig", a)
			c := &certificate.Certificate{BlockID: bytes.Repeat([]byte{1}, 32), Height: 5, StateRoot: bytes.Repeat([]byte{2}, 32),
				ValidatorsHash: bytes.Repeat([]byte{3}, 32), AggregationBits: bits, Signature: sig}
			put("CertVerifyAggregate", map[string]string{"d": hx2(c.Encode()), "keys": hexList(ks), "weights": u64List(weights), "threshold": "1", "chain": "00000000", "gen": gen})
		}
		run(keys, goodSig, "valid")
		// a key replaced by a special point, signature aggregated from exactly the REMAINING valid signers, every key selected:
		// the special key signed nothing, so verification must fail (and its weight must not count)
		if nk >= 2 {
			for pos := 0; pos < nk; pos++ {
				others := []*crypto.BLSPublicKeySignaturePair{}
				for i, pr := range pairs {
					if i != pos {
						others = append(others, pr)
					}
				}
				_, partial := crypto.BLSCreateAggSig(keys, others)
				for name, bad := range map[string][]byte{"partial-sig/infinity-key": pts.infKey, "partial-sig/off-subgroup-key": pts.offKey, "partial-sig/nil-key": pts.nilKey} {
					ks := append([][]byte{}, keys...)
					ks[pos] = bad
					a := map[string]string{"keys": hexList(ks), "bits": hx2(bits), "sig": hx2(partial), "weights": u64List(weights), "threshold": cx.U(uint64(nk)), "msg": hx2(msg), "gen": name}
					put("BLSVerifyWeightedAggSig", a)
					put("BLSVerifyAggSig", a)
				}
			}
		}
		for pos := 0; pos < nk; pos++ {
			for name, bad := range map[string][]byte{"nil-key": pts.nilKey, "infinity-key": pts.infKey, "off-subgroup-key": pts.offKey, "short-key": {0x80}, "empty-key": {}} {
				ks := append([][]byte{}, keys...)
				ks[pos] = bad
				run(ks, goodSig, name)
			}
		}
		for name, bad := range map[string][]byte{"nil-sig": pts.nilSig, "infinity-sig": pts.infSig, "off-subgroup-sig": pts.offSig, "short-sig": {0x80}, "empty-sig": {}} {
			run(keys, bad, name)
			ks := append([][]byte{}, keys...)
			ks[nk/2] = pts.nilKey
			run(ks, bad, name+"+nil-key")
		}
		// single-signature verification with the same special points
		for kn, k := range map[string][]byte{"valid": keys[0], "nil": pts.nilKey, "infinity": pts.infKey, "off-subgroup": pts.offKey} {
			for sn, s := range map[string][]byte{"valid": pairs[0].Signature, "nil": pts.nilSig, "infinity": pts.infSig, "off-subgroup": pts.offSig} {
				put("BLSVerify", map[string]string{"msg": hx2(msg), "sig": hx2(s), "key": hx2(k), "gen": kn + "-key/" + sn + "-sig"})
				put("BLSPopVerify", map[string]string{"sig": hx2(s), "key": hx2(k), "gen": kn + "-key/" + sn + "-sig"})
			}
		}
	}
}
