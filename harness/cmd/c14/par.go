// Overlapping pool operations (C14): an Add is parked at ITS OWN verifier call (inside TransactionPool.Add) while a
// second operation - another Add, a Remove, or a whole reorg - is issued from another goroutine.  With Add being one
// critical section of the pool mutex the second operation waits for the lock and the outcome equals "first, then
// second" executed one after the other; that sequential composition is what the model replays.  No snapshot can be
// taken while the first Add holds the lock, so the first step is recorded with skip=true (result only) and the state
// is compared after the second.
package main

import (
	"encoding/hex"
	"fmt"
	"runtime"
	"sync/atomic"
	"time"
)

type parOp struct {
	kind   string // add | rm | begin (= begin+finish: one whole reorg)
	t      *txInfo
	v, pub int
	num    int
	ans    [][2]int
}

const overlapGrace = 3 * time.Millisecond

// arm makes the Add of t park at its verifier call and fixes its verdict and Publish result.
func (r *runner) arm(t *txInfo, v, pub int) *hold {
	h := &hold{arrived: make(chan struct{}), release: make(chan struct{})}
	r.abi.set(t.tx.ID, v)
	r.abi.mu.Lock()
	r.abi.holds[hex.EncodeToString(t.tx.ID)] = h
	r.abi.mu.Unlock()
	r.conn.mu.Lock()
	r.conn.failTx[string(t.tx.Bytes())] = pub == 0
	r.conn.mu.Unlock()
	return h
}

func (r *runner) disarm(t *txInfo) {
	r.abi.mu.Lock()
	delete(r.abi.holds, hex.EncodeToString(t.tx.ID))
	r.abi.mu.Unlock()
	r.conn.mu.Lock()
	delete(r.conn.failTx, string(t.tx.Bytes()))
	r.conn.mu.Unlock()
}

type asyncRes struct {
	ret  bool
	pan  string
	done chan struct{}
}

func async(f func() bool) *asyncRes {
	a := &asyncRes{done: make(chan struct{})}
	go func() {
		defer close(a.done)
		defer func() {
			if x := recover(); x != nil {
				a.pan = "panic: " + sprint(x)
			}
		}()
		a.ret = f()
	}()
	return a
}

// wait returns true when ch was closed within d
func within(ch chan struct{}, d time.Duration) bool {
	select {
	case <-ch:
		return true
	case <-time.After(d):
		return false
	}
}

func (r *runner) recordSkip(op []interface{}, t *txInfo, ret int, hang bool, pan string) {
	st := stepJ{Op: op, Ret: ret, Hang: hang, Panic: pan, API: true, Gone: []int{}, Snap: r.last, Skip: true, Par: 1, tx: t}
	if hang {
		st.Dump, st.Held = poolStacks(), true
	}
	r.steps = append(r.steps, st)
	if hang || pan != "" { // abandoned pool: its blocked goroutines join the baseline
		r.dead = true
		baseG = settledGoroutines()
	}
}

func (r *runner) par(a *txInfo, va, puba int, b parOp) {
	if r.inflight {
		r.finish([][2]int{})
		if r.dead {
			return
		}
	}
	if b.kind == "add" && b.t.num == a.num { // the same transaction twice: one verdict, one Publish result
		b.v, b.pub = va, puba
	}
	if b.kind == "begin" && has(r.last.All, a.num) { // a duplicate Add never reaches the verifier; the reorg will verify
		va = 0 // that transaction, with the verdict table's answer: keep the table and the recorded verdict equal
	}
	opA := []interface{}{"add", a.num, a.sender, a.nonce, a.fee, a.prio, va, puba}
	if b.kind == "begin" { // verdicts of the reorg; the parked Add keeps its own
		m := r.abi
		m.mu.Lock()
		for k := range m.verdict {
			m.verdict[k] = 0
		}
		for _, x := range b.ans {
			m.verdict[hex.EncodeToString(r.realID(x[0]))] = x[1]
		}
		m.mu.Unlock()
	}
	ha := r.arm(a, va, puba)
	r.holding = true
	defer func() { r.holding = false }()
	ra := async(func() bool { return r.pool.Add(a.tx) })
	select {
	case <-ha.arrived:
	case <-ra.done: // rejected before the verifier: nothing to overlap with
	case <-time.After(watchdog):
		r.disarm(a)
		r.recordSkip(opA, a, 0, true, "")
		return
	}
	// a reader keeps calling the read API for the whole overlap (results unchecked): with the pool's read lock in place
	// it simply waits its turn; a reader that forgot the lock is reported by the race detector (the harness is built -race)
	var stopReader atomic.Bool
	readerDone := make(chan struct{})
	go func() {
		defer close(readerDone)
		defer func() { _ = recover() }()
		id := a.tx.ID
		for !stopReader.Load() {
			r.pool.Get(id)
			r.pool.GetAll()
			r.pool.GetProcessable()
			runtime.Gosched()
		}
	}()
	defer func() {
		stopReader.Store(true)
		within(readerDone, watchdog)
	}()
	var hb *hold
	var rb *asyncRes
	switch b.kind {
	case "add":
		if b.t.num != a.num {
			hb = r.arm(b.t, b.v, b.pub)
		}
		rb = async(func() bool { return r.pool.Add(b.t.tx) })
	case "rm":
		id := r.realID(b.num)
		rb = async(func() bool { return r.pool.Remove(id) })
	default:
		rb = async(func() bool { r.pool.VerifC14Reorg(); return true })
	}
	// give the second operation the chance to run ahead while the first is parked (it cannot when Add is atomic)
	if hb != nil {
		select {
		case <-hb.arrived:
		case <-rb.done:
		case <-time.After(overlapGrace):
		}
	} else {
		within(rb.done, overlapGrace)
	}
	close(ha.release)
	hangA := !within(ra.done, watchdog)
	hangB := false
	if hb != nil {
		select {
		case <-hb.arrived:
		case <-rb.done:
		case <-time.After(watchdog):
			hangB = true
		}
		close(hb.release)
	}
	if !hangB {
		hangB = !within(rb.done, watchdog)
	}
	r.disarm(a)
	if b.kind == "add" {
		r.disarm(b.t)
	}
	r.recordSkip(opA, a, b2i(ra.ret), hangA, ra.pan)
	if r.dead {
		return
	}
	first := len(r.steps) - 1
	switch b.kind {
	case "add":
		r.record([]interface{}{"add", b.t.num, b.t.sender, b.t.nonce, b.t.fee, b.t.prio, b.v, b.pub}, b.t, b2i(rb.ret), hangB, rb.pan)
	case "rm":
		r.record([]interface{}{"rm", b.num}, r.txs[b.num], b2i(rb.ret), hangB, rb.pan)
	default:
		r.steps = append(r.steps, stepJ{Op: []interface{}{"begin"}, Ret: 1, API: true, Gone: []int{}, Snap: r.last, Skip: true})
		r.record([]interface{}{"finish", b.ans}, nil, 1, hangB, rb.pan)
	}
	// no snapshot exists between the overlapped operations: the ids that disappeared are known for the pair only;
	// the unobserved steps carry the same list, the evaluator decides which of them each step dropped
	for i := first; i < len(r.steps)-1; i++ {
		r.steps[i].Gone = r.steps[len(r.steps)-1].Gone
	}
}

// par: an Add overlapped with another Add (mostly, near the capacity), a Remove or a reorg
func (g *gen) par() {
	ta, va, pa := g.pickAdd(nil)
	b := parOp{}
	switch w := g.r.Intn(10); {
	case w < 6:
		b.kind = "add"
		b.t, b.v, b.pub = g.pickAdd(nil)
	case w < 8 && len(g.inPool()) > 0:
		b.kind, b.num = "rm", g.pick(g.inPool())
	default:
		b.kind, b.ans = "begin", [][2]int{}
		for _, x := range g.answers() {
			if x[0] != ta.num {
				b.ans = append(b.ans, x)
			}
		}
	}
	g.run.par(ta, va, pa, b)
}

func sprint(x interface{}) string { return fmt.Sprintf("%v", x) }
