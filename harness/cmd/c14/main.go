// C14 correspondence driver: drives the real transaction pool (pkg/txpool, build tag verif) on random
// operation sequences with tiny limits and records, after every operation, a projection of the pool
// internals (allTransactions, fee priority queue, per-sender lists) onto small integers.
// One JSONL record per case; reorg steps are split in begin/finish with the reorg goroutines held at
// their first verifier call so that add/remove can interleave deterministically.
package main

import (
	"context"
	"encoding/hex"
	"encoding/json"
	"errors"
	"flag"
	"fmt"
	"os"
	"path/filepath"
	"runtime"
	"sort"
	"strconv"
	"strings"
	"sync"
	"time"

	"github.com/LiskHQ/lisk-engine/pkg/blockchain"
	"github.com/LiskHQ/lisk-engine/pkg/codec"
	"github.com/LiskHQ/lisk-engine/pkg/labi"
	"github.com/LiskHQ/lisk-engine/pkg/log"
	"github.com/LiskHQ/lisk-engine/pkg/p2p"
	"github.com/LiskHQ/lisk-engine/pkg/txpool"

	"verifharness/internal/hx"
)

const corpusDir = "/verif/corpus/C14"

// watchdog per pool call: 3 s, or VERIF_WATCHDOG_MS (the check re-runs hanging cases once with a longer one, so that a
// loaded machine is not reported as a deadlock)
var watchdog = func() time.Duration {
	if v, err := strconv.Atoi(os.Getenv("VERIF_WATCHDOG_MS")); err == nil && v > 0 {
		return time.Duration(v) * time.Millisecond
	}
	return 3 * time.Second
}()

// ---------- mocks ----------

type nopLog struct{}

func (nopLog) Debug(string, ...interface{})     {}
func (nopLog) Info(string, ...interface{})      {}
func (nopLog) Error(string, ...interface{})     {}
func (nopLog) Debugf(string, ...interface{})    {}
func (nopLog) Infof(string, ...interface{})     {}
func (nopLog) Errorf(string, ...interface{})    {}
func (nopLog) Warning(string, ...interface{})   {}
func (nopLog) Warningf(string, ...interface{})  {}
func (l nopLog) With(...interface{}) log.Logger { return l }

type connMock struct {
	mu     sync.Mutex
	fail   bool
	failTx map[string]bool // encoded transactions whose Publish fails (overlapping Adds)
}

func (c *connMock) Broadcast(context.Context, string, []byte) error { return nil }
func (c *connMock) RegisterRPCHandler(string, p2p.RPCHandler, ...p2p.RPCHandlerOption) error {
	return nil
}
func (c *connMock) RegisterEventHandler(string, p2p.EventHandler, p2p.Validator) error { return nil }
func (c *connMock) ApplyPenalty(p2p.PeerID, int)                                       {}
func (c *connMock) RequestFrom(context.Context, p2p.PeerID, string, []byte) p2p.Response {
	return *p2p.NewResponse(0, "", nil, nil)
}
func (c *connMock) Publish(_ context.Context, _ string, data []byte) error {
	c.mu.Lock()
	defer c.mu.Unlock()
	if f, ok := c.failTx[string(data)]; ok {
		if f {
			return errors.New("publish failed")
		}
		return nil
	}
	if c.fail {
		return errors.New("publish failed")
	}
	return nil
}

// abiMock answers from a verdict table (0 ok, 1 pending, 2 invalid) and can hold callers: a call for
// an armed id disarms it, signals arrival and blocks until release is closed. The verdict is read
// after the release, so a held call sees the answers installed by the finish step.
type abiMock struct {
	mu      sync.Mutex
	verdict map[string]int
	armed   map[string]bool
	arrived chan struct{}
	release chan struct{}
	holds   map[string]*hold // Add overlaps: the Add of this id parks at its own verifier call
}

type hold struct {
	arrived chan struct{}
	release chan struct{}
}

func (m *abiMock) VerifyTransaction(req *labi.VerifyTransactionRequest) (*labi.VerifyTransactionResponse, error) {
	id := hex.EncodeToString(req.Transaction.ID)
	var rel chan struct{}
	m.mu.Lock()
	if h := m.holds[id]; h != nil {
		delete(m.holds, id)
		m.mu.Unlock()
		close(h.arrived)
		<-h.release
		m.mu.Lock()
	}
	if m.armed[id] {
		delete(m.armed, id)
		rel = m.release
		m.arrived <- struct{}{}
	}
	m.mu.Unlock()
	if rel != nil {
		<-rel
	}
	m.mu.Lock()
	v := m.verdict[id]
	m.mu.Unlock()
	return &labi.VerifyTransactionResponse{Result: []int32{labi.TxVerifyResultOk, labi.TxVerifyResultPending, labi.TxVerifyResultInvalid}[v]}, nil
}

func (m *abiMock) set(id []byte, v int) {
	m.mu.Lock()
	m.verdict[hex.EncodeToString(id)] = v
	m.mu.Unlock()
}

// guard runs f in its own goroutine with the watchdog; a panic of f is recovered and returned.
func guard(f func()) (hang bool, pan string) {
	done := make(chan string, 1)
	go func() {
		defer func() {
			if r := recover(); r != nil {
				done <- "panic: " + fmt.Sprintf("%v", r)
			}
		}()
		f()
		done <- ""
	}()
	select {
	case p := <-done:
		return false, p
	case <-time.After(watchdog):
		return true, ""
	}
}

// poolStacks: the goroutines currently inside pkg/txpool (header line with the wait state + frames), at most 4000 bytes
func poolStacks() string {
	buf := make([]byte, 1<<20)
	buf = buf[:runtime.Stack(buf, true)]
	var out []string
	for _, g := range strings.Split(string(buf), "\n\n") {
		if strings.Contains(g, "lisk-engine/pkg/txpool.") {
			out = append(out, g)
		}
	}
	s := strings.Join(out, "\n\n")
	if len(s) > 4000 {
		s = s[:4000]
	}
	return s
}

// ---------- records ----------

type listJ struct {
	Sender int
	Keys   []uint64
	IDs    []int
	Nonces []uint64
	Procs  []uint64
}

func (l listJ) MarshalJSON() ([]byte, error) {
	return json.Marshal([]interface{}{l.Sender, l.Keys, l.IDs, l.Nonces, l.Procs})
}
func (l listJ) at(nonce uint64) int {
	for i, k := range l.Keys {
		if k == nonce {
			return l.IDs[i]
		}
	}
	return -1
}

type snapJ struct {
	All   []int   `json:"all"`
	Queue []int   `json:"queue"`
	Qhead int64   `json:"qhead"`
	Lists []listJ `json:"lists"`
}

type stepJ struct {
	Op    []interface{} `json:"op"`
	Ret   int           `json:"ret"`
	Hang  bool          `json:"hang"`
	Panic string        `json:"panic"`
	API   bool          `json:"api"`
	Gone  []int         `json:"gone"`
	Snap  snapJ         `json:"snap"`
	Dump  string        `json:"dump,omitempty"` // on hang: the goroutines that were inside pkg/txpool, with their wait state
	Held  bool          `json:"held,omitempty"` // on hang: the harness itself was holding a pool call at its verifier call
	Skip  bool          `json:"skip,omitempty"` // overlapped with the following step(s): no snapshot in between
	Par   int           `json:"par,omitempty"`  // 1 = this Add was parked at its verifier call while the next op was issued
	tx    *txInfo
}

type caseJ struct {
	K     string    `json:"k"`
	Cfg   [4]uint64 `json:"cfg"`            // the EFFECTIVE configuration
	Dflt  bool      `json:"dflt,omitempty"` // MinReplacementFeeDifference was passed as 0: NewTransactionPool must default it to cfg[3] = 1
	Steps []stepJ   `json:"steps"`
}

type txInfo struct {
	num, sender      int
	nonce, fee, prio uint64
	tx               *blockchain.Transaction
}

// ---------- runner: one pool, one case ----------

type runner struct {
	cfg       [4]uint64
	pool      *txpool.TransactionPool
	abi       *abiMock
	conn      *connMock
	txs       map[int]*txInfo
	order     []int
	byID      map[string]int
	byAddr    map[string]int
	inflight  bool
	holding   bool // an overlapped Add is parked at its verifier call by the harness
	reorgDone chan string
	last      snapJ
	dead      bool
	steps     []stepJ
}

func newRunner(cfg [4]uint64) *runner { return newRunnerD(cfg, false) }

func newRunnerD(cfg [4]uint64, dflt bool) *runner {
	r := &runner{cfg: cfg, txs: map[int]*txInfo{}, byID: map[string]int{}, byAddr: map[string]int{},
		abi: &abiMock{verdict: map[string]int{}, armed: map[string]bool{}, holds: map[string]*hold{}}, conn: &connMock{failTx: map[string]bool{}},
		last: snapJ{All: []int{}, Queue: []int{}, Qhead: -1, Lists: []listJ{}}}
	r.pool = txpool.NewTransactionPool(&txpool.TransactionPoolConfig{MaxTransactions: int(cfg[0]), MaxTransactionsPerAccount: int(cfg[1]),
		MinEntranceFeePriority: cfg[2], MinReplacementFeeDifference: map[bool]uint64{false: cfg[3], true: 0}[dflt && cfg[3] == 1]})
	// database and chain are only stored by Init and never read by the pool
	if err := r.pool.Init(context.Background(), nopLog{}, nil, nil, r.conn, r.abi); err != nil {
		panic(err)
	}
	return r
}

func build(num, sender int, nonce, fee uint64) *blockchain.Transaction {
	pk := make([]byte, 32)
	for i := range pk {
		pk[i] = byte(sender)
	}
	params := []byte{byte(num >> 24), byte(num >> 16), byte(num >> 8), byte(num)}
	if num%5 == 0 { // every fifth transaction is about twice as large: same fee, half the fee priority
		params = append(params, make([]byte, 120)...)
	}
	tx := &blockchain.Transaction{Module: "token", Command: "transfer", Nonce: nonce, Fee: fee, SenderPublicKey: pk,
		Params: params, Signatures: []codec.Hex{make([]byte, 64)}}
	tx.Init()
	return tx
}

func (r *runner) mkTx(num, sender int, nonce, fee uint64) *txInfo {
	tx := build(num, sender, nonce, fee)
	t := &txInfo{num: num, sender: sender, nonce: nonce, fee: fee, prio: fee / uint64(tx.Size()), tx: tx}
	r.txs[num] = t
	r.order = append(r.order, num)
	r.byID[hex.EncodeToString(tx.ID)] = num
	r.byAddr[hex.EncodeToString(tx.SenderAddress())] = sender
	return t
}

func (r *runner) num(id []byte) int {
	if n, ok := r.byID[hex.EncodeToString(id)]; ok {
		return n
	}
	return -1
}

func (r *runner) realID(num int) []byte {
	if t := r.txs[num]; t != nil {
		return t.tx.ID
	}
	id := make([]byte, 32) // never the hash of a transaction of this case
	id[0], id[30], id[31] = 0xff, byte(num>>8), byte(num)
	return id
}

func (r *runner) nums(txs []*blockchain.Transaction) []int {
	res := []int{}
	for _, tx := range txs {
		if tx == nil {
			res = append(res, -1)
		} else {
			res = append(res, r.num(tx.ID))
		}
	}
	sort.Ints(res)
	return res
}

func (r *runner) project(raw *txpool.VerifC14Snapshot) snapJ {
	s := snapJ{All: []int{}, Queue: []int{}, Qhead: -1, Lists: []listJ{}}
	for _, t := range raw.All {
		s.All = append(s.All, r.num(t.ID))
	}
	for _, t := range raw.Queue {
		s.Queue = append(s.Queue, r.num(t.ID))
	}
	sort.Ints(s.All)
	sort.Ints(s.Queue)
	if len(raw.Queue) > 0 {
		s.Qhead = int64(raw.QueueHeadFeePriority)
	}
	for _, l := range raw.Lists {
		lj := listJ{Sender: -1, Keys: append([]uint64{}, l.Keys...), IDs: []int{}, Nonces: append([]uint64{}, l.Nonces...), Procs: append([]uint64{}, l.Processables...)}
		if n, ok := r.byAddr[hex.EncodeToString(l.Address)]; ok {
			lj.Sender = n
		}
		for _, t := range l.Transactions {
			lj.IDs = append(lj.IDs, r.num(t.ID))
		}
		s.Lists = append(s.Lists, lj)
	}
	sort.SliceStable(s.Lists, func(i, j int) bool { return s.Lists[i].Sender < s.Lists[j].Sender })
	return s
}

func setOf(a []int) []int {
	b := append([]int{}, a...)
	sort.Ints(b)
	res := []int{}
	for i, x := range b {
		if i == 0 || x != b[i-1] {
			res = append(res, x)
		}
	}
	return res
}

func eqInts(a, b []int) bool {
	if len(a) != len(b) {
		return false
	}
	for i := range a {
		if a[i] != b[i] {
			return false
		}
	}
	return true
}

func has(a []int, x int) bool {
	for _, y := range a {
		if x == y {
			return true
		}
	}
	return false
}

// apiCheck compares the public read API with the snapshot.
func (r *runner) apiCheck(s snapJ, gone []int) (ok, hang bool, pan string) {
	ok = true
	hang, pan = guard(func() {
		if !eqInts(setOf(r.nums(r.pool.GetAll())), setOf(s.All)) {
			ok = false
		}
		for _, id := range s.All {
			if _, ex := r.pool.Get(r.realID(id)); !ex || id < 0 {
				ok = false
			}
		}
		for _, id := range gone {
			if _, ex := r.pool.Get(r.realID(id)); ex {
				ok = false
			}
		}
		want := []int{}
		for _, l := range s.Lists {
			for _, n := range l.Procs {
				want = append(want, l.at(n))
			}
		}
		if !eqInts(setOf(r.nums(r.pool.GetProcessable())), setOf(want)) {
			ok = false
		}
	})
	return ok && !hang && pan == "", hang, pan
}

// record closes a step: fresh snapshot (under the watchdog), gone, api; a hang or panic ends the case.
func (r *runner) record(op []interface{}, t *txInfo, ret int, hang bool, pan string) {
	st := stepJ{Op: op, Ret: ret, Hang: hang, Panic: pan, Gone: []int{}, Snap: r.last, tx: t}
	if hang {
		st.Dump, st.Held = poolStacks(), r.inflight || r.holding
	}
	if !hang {
		var raw *txpool.VerifC14Snapshot
		h, p := guard(func() { raw = r.pool.VerifC14Snapshot() })
		if h || p != "" {
			st.Hang = h
			if st.Panic == "" {
				st.Panic = p
			}
		} else {
			ns := r.project(raw)
			for _, id := range r.last.All {
				if !has(ns.All, id) {
					st.Gone = append(st.Gone, id)
				}
			}
			st.Snap, r.last = ns, ns
			st.API, h, p = r.apiCheck(ns, st.Gone)
			st.Hang = h
			if st.Panic == "" {
				st.Panic = p
			}
		}
	}
	if r.dead = st.Hang || st.Panic != ""; r.dead { // abandoned pool: its blocked goroutines join the baseline
		baseG = settledGoroutines()
	}
	r.steps = append(r.steps, st)
}

func b2i(b bool) int {
	if b {
		return 1
	}
	return 0
}

func (r *runner) add(t *txInfo, v, pub int) {
	r.abi.set(t.tx.ID, v)
	r.conn.fail = pub == 0
	ret := false
	hang, pan := guard(func() { ret = r.pool.Add(t.tx) })
	r.record([]interface{}{"add", t.num, t.sender, t.nonce, t.fee, t.prio, v, pub}, t, b2i(ret), hang, pan)
}

func (r *runner) rm(num int) {
	ret := false
	id := r.realID(num)
	hang, pan := guard(func() { ret = r.pool.Remove(id) })
	r.record([]interface{}{"rm", num}, r.txs[num], b2i(ret), hang, pan)
}

func (r *runner) begin() {
	if r.inflight { // malformed replay input: close the previous reorg first
		r.finish([][2]int{})
		if r.dead {
			return
		}
	}
	var gate [][]byte
	hang, pan := guard(func() { gate = r.pool.VerifC14ReorgFirstIDs() })
	if !hang && pan == "" && len(gate) == 0 {
		hang, pan = guard(func() { r.pool.VerifC14Reorg() })
	} else if !hang && pan == "" {
		m := r.abi
		m.mu.Lock()
		m.arrived, m.release = make(chan struct{}, len(gate)), make(chan struct{})
		for _, id := range gate {
			m.armed[hex.EncodeToString(id)] = true
		}
		m.mu.Unlock()
		done := make(chan string, 1)
		go func() {
			defer func() {
				if x := recover(); x != nil {
					done <- "panic: " + fmt.Sprintf("%v", x)
				}
			}()
			r.pool.VerifC14Reorg()
			done <- ""
		}()
		r.reorgDone, r.inflight = done, true
		timer, start := time.After(watchdog), time.Now()
		for i := 0; i < len(gate) && !hang && pan == ""; i++ {
			select {
			case <-m.arrived:
			case p := <-done:
				pan = "harness: reorg returned before reaching the gate " + p
			case <-timer:
				hang = true
			}
		}
		// the goroutines of lists with nothing to promote are not gated: wait until they have returned,
		// i.e. only the reorg caller and the held goroutines remain on top of the baseline
		for !hang && pan == "" && runtime.NumGoroutine() > baseG+1+len(gate) {
			hang = time.Since(start) > watchdog
			time.Sleep(20 * time.Microsecond)
		}
	}
	r.record([]interface{}{"begin"}, nil, 1, hang, pan)
}

func (r *runner) finish(ans [][2]int) {
	m := r.abi
	m.mu.Lock()
	for k := range m.verdict {
		m.verdict[k] = 0
	}
	for _, a := range ans {
		m.verdict[hex.EncodeToString(r.realID(a[0]))] = a[1]
	}
	m.mu.Unlock()
	hang, pan := false, ""
	if r.inflight {
		close(m.release)
		select {
		case pan = <-r.reorgDone:
		case <-time.After(watchdog):
			hang = true
		}
		r.inflight = false
	}
	r.record([]interface{}{"finish", ans}, nil, 1, hang, pan)
}

// ---------- generator ----------

type gen struct {
	r     *hx.Rng
	run   *runner
	next  int
	focus int // sender receiving most fresh transactions of this case, 0 = none
	used  map[[2]int]bool
}

func (g *gen) inPool() []int {
	res := []int{}
	for _, id := range g.run.last.All {
		if g.run.txs[id] != nil {
			res = append(res, id)
		}
	}
	return res
}

func (g *gen) notInPool() []int {
	res := []int{}
	for _, id := range g.run.order {
		if !has(g.run.last.All, id) {
			res = append(res, id)
		}
	}
	return res
}

func (g *gen) pick(a []int) int { return a[g.r.Intn(len(a))] }

func (g *gen) newTx(sender int, nonce, fee uint64) *txInfo {
	g.next++
	g.used[[2]int{sender, int(nonce)}] = true
	return g.run.mkTx(g.next, sender, nonce, fee)
}

// clash: another (sender, nonce) slot of this case already uses this fee priority. The pool breaks
// priority ties between senders by Go map iteration order (eviction victim), which would make the
// records irreproducible, so generated cases keep priorities distinct across slots unless -ties is given.
func (g *gen) clash(sender int, nonce, prio uint64) bool {
	for _, t := range g.run.txs {
		if !*ties && (t.sender != sender || t.nonce != nonce) && t.prio == prio {
			return true
		}
	}
	return false
}

func (g *gen) pickAdd(prefer []int) (*txInfo, int, int) {
	in, out := g.inPool(), g.notInPool()
	var t *txInfo
	roll := g.r.Intn(100)
	if g.focus > 0 && g.r.Bool() {
		roll = 0
	}
	switch {
	case roll >= 44 && roll < 50 && len(in) > 0: // same slot, LOWER fee but (smaller transaction) possibly higher fee priority
		old := g.run.txs[g.pick(in)]
		for (g.next+1)%5 == 0 {
			g.next++ // the newcomer is not a padded one
		}
		fee := old.fee * uint64(55+g.r.Intn(40)) / 100
		t = g.newTx(old.sender, old.nonce, fee)
	case roll >= 40 && roll < 44: // uint64 edges: fees within the replacement difference of 2^64, nonces 2^64-2, 2^64-1
		s := 1 + g.r.Intn(3)
		nonce := ^uint64(0) - uint64(g.r.Intn(2))
		fee := ^uint64(0) - uint64(g.r.Intn(int(g.run.cfg[3])+2))
		if g.r.Bool() && len(in) > 0 {
			old := g.run.txs[g.pick(in)]
			s, nonce = old.sender, old.nonce
			if g.r.Bool() {
				fee = uint64(g.r.Intn(50))
			}
		}
		t = g.newTx(s, nonce, fee)
	case roll >= 50 && roll < 70 && len(in) > 0: // replacement attempt around the threshold
		old := g.run.txs[g.pick(in)]
		md := int64(g.run.cfg[3])
		fee := uint64(int64(old.fee) + []int64{0, md - 1, md, md + 5, -1}[g.r.Intn(5)])
		if g.clash(old.sender, old.nonce, fee/uint64(build(g.next+1, old.sender, old.nonce, fee).Size())) {
			fee = old.fee
		}
		t = g.newTx(old.sender, old.nonce, fee)
	case roll >= 70 && roll < 85 && len(out) > 0: // re-add
		t = g.run.txs[g.pick(out)]
	case roll >= 85 && len(in) > 0: // duplicate
		t = g.run.txs[g.pick(in)]
	default:
		s := 1 + g.r.Intn(3)
		if g.focus > 0 {
			prefer = []int{g.focus}
		}
		if len(prefer) > 0 && g.r.Intn(4) != 0 {
			s = g.pick(prefer)
		}
		nonce := g.r.Intn(5)
		if g.r.Intn(10) < 7 || g.focus > 0 && g.r.Intn(3) != 0 {
			for n := 0; n < 5; n++ {
				if !g.used[[2]int{s, n}] {
					nonce = n
					break
				}
			}
		}
		size := uint64(build(g.next+1, s, uint64(nonce), 200).Size()) // fees 128..16383 encode on two bytes
		p := uint64(1 + g.r.Intn(6))
		for g.clash(s, uint64(nonce), p) {
			p++
		}
		t = g.newTx(s, uint64(nonce), p*size+uint64(g.r.Intn(20)))
	}
	v := map[int]int{8: 1, 9: 2}[g.r.Intn(10)]
	return t, v, b2i(g.r.Intn(10) != 0)
}

func (g *gen) add(prefer []int) {
	t, v, pub := g.pickAdd(prefer)
	g.run.add(t, v, pub)
}

func (g *gen) rm() {
	in, out := g.inPool(), g.notInPool()
	switch {
	case len(in) > 0 && (g.r.Intn(5) != 0 || len(out) == 0):
		g.run.rm(g.pick(in))
	case len(out) > 0:
		g.run.rm(g.pick(out))
	default:
		g.add(nil)
	}
}

// interleaved: an operation issued while a reorg is held; aims at the lists the reorg is working on.
func (g *gen) interleaved() {
	heads, senders := []int{}, []int{}
	for _, l := range g.run.last.Lists {
		if l.Sender > 0 {
			senders = append(senders, l.Sender)
		}
		for _, n := range l.Procs {
			heads = append(heads, l.at(n))
		}
		if len(l.IDs) > 0 {
			heads = append(heads, l.IDs[0])
		}
	}
	if mids := g.mids(); len(mids) > 0 && g.r.Intn(4) != 0 {
		g.run.rm(g.pick(mids))
	} else if len(heads) > 0 && g.r.Bool() {
		g.run.rm(g.pick(heads))
	} else if g.r.Intn(4) == 0 {
		g.rm()
	} else {
		g.add(senders)
	}
}

// mids: processable transactions, other than the first of their list, of lists that also hold
// unprocessable ones; removing one while a reorg is held cuts the run the reorg is about to extend.
func (g *gen) mids() []int {
	res := []int{}
	for _, l := range g.run.last.Lists {
		for i := 1; i < len(l.Procs) && len(l.Keys) > len(l.Procs); i++ {
			res = append(res, l.at(l.Procs[i]))
		}
	}
	return res
}

func (g *gen) answers() [][2]int {
	ans := [][2]int{}
	in := g.inPool()
	if g.r.Intn(10) < 7 || len(in) == 0 {
		return ans
	}
	for n := 1 + g.r.Intn(2); n > 0; n-- {
		id := g.pick(in)
		if len(ans) == 0 || ans[0][0] != id {
			ans = append(ans, [2]int{id, 2 - b2i(g.r.Intn(10) < 3)})
		}
	}
	return ans
}

func genCase(rng *hx.Rng, maxLen int) caseJ {
	cfg := [4]uint64{uint64(1 + rng.Intn(3)), uint64(1 + rng.Intn(3)), []uint64{0, 0, 0, 2}[rng.Intn(4)], []uint64{1, 10, 100}[rng.Intn(3)]}
	focus := 0
	if rng.Intn(3) == 0 { // a third of the cases: one dominant sender and room for a run of three
		focus, cfg[0], cfg[1] = 1+rng.Intn(3), 3, 3
	}
	dflt := cfg[3] == 1 && rng.Bool() // as the engine does: leave the difference to the pool's own default
	g := &gen{r: rng, run: newRunnerD(cfg, dflt), used: map[[2]int]bool{}, focus: focus}
	nops := 4
	if maxLen > 4 {
		nops += rng.Intn(maxLen - 3)
	}
	open, inter := false, 0 // a begin was issued and awaits its finish; interleaved ops still to issue
	for !g.run.dead && (len(g.run.steps) < nops || open) {
		w := rng.Intn(100)
		if focus > 0 { // fewer removals, and a reorg as soon as a run with a processable prefix can be extended
			w = w * 115 / 100
			if len(g.mids()) > 0 && rng.Intn(4) != 0 {
				w = 100
			}
		}
		switch {
		case open && inter > 0 && len(g.run.steps) < nops:
			inter--
			g.interleaved()
		case open:
			open = false
			g.run.finish(g.answers())
		case w < 45:
			g.add(nil)
		case w < 57:
			g.par()
		case w < 70:
			g.rm()
		default:
			g.run.begin()
			open, inter = true, 0
			if rng.Bool() || len(g.mids()) > 0 {
				inter = 1 + rng.Intn(3)
			}
		}
	}
	return caseJ{K: "seq", Cfg: cfg, Dflt: dflt, Steps: g.run.steps}
}

// ---------- replay ----------

func replayCase(line string) caseJ {
	var in struct {
		Cfg   [4]uint64
		Dflt  bool
		Steps []struct {
			Op  []json.RawMessage
			Par int
		}
	}
	if err := json.Unmarshal([]byte(line), &in); err != nil {
		panic(err)
	}
	r := newRunnerD(in.Cfg, in.Dflt)
	arg := func(m json.RawMessage, v interface{}) {
		if err := json.Unmarshal(m, v); err != nil {
			panic(err)
		}
	}
	readAdd := func(op []json.RawMessage) (*txInfo, int, int) {
		var num, sender, v, pub int
		var nonce, fee uint64
		arg(op[1], &num)
		arg(op[2], &sender)
		arg(op[3], &nonce)
		arg(op[4], &fee)
		arg(op[6], &v)
		arg(op[7], &pub)
		t := r.txs[num]
		if t == nil {
			t = r.mkTx(num, sender, nonce, fee)
		}
		return t, v, pub
	}
	for i := 0; i < len(in.Steps); i++ {
		s := in.Steps[i]
		if r.dead {
			break
		}
		var kind string
		arg(s.Op[0], &kind)
		if s.Par == 1 && kind == "add" && i+1 < len(in.Steps) {
			ta, va, pa := readAdd(s.Op)
			nx := in.Steps[i+1]
			var k2 string
			arg(nx.Op[0], &k2)
			b := parOp{kind: k2}
			switch k2 {
			case "add":
				b.t, b.v, b.pub = readAdd(nx.Op)
				i++
			case "rm":
				arg(nx.Op[1], &b.num)
				i++
			case "begin":
				if i+2 < len(in.Steps) {
					arg(in.Steps[i+2].Op[1], &b.ans)
				}
				i += 2
			default:
				panic("par: unsupported second op " + k2)
			}
			r.par(ta, va, pa, b)
			continue
		}
		switch kind {
		case "add":
			var num, sender, v, pub int
			var nonce, fee uint64
			arg(s.Op[1], &num)
			arg(s.Op[2], &sender)
			arg(s.Op[3], &nonce)
			arg(s.Op[4], &fee)
			arg(s.Op[6], &v)
			arg(s.Op[7], &pub)
			t := r.txs[num]
			if t == nil {
				t = r.mkTx(num, sender, nonce, fee)
			}
			r.add(t, v, pub)
		case "rm":
			var num int
			arg(s.Op[1], &num)
			r.rm(num)
		case "begin":
			r.begin()
		case "finish":
			ans := [][2]int{}
			arg(s.Op[1], &ans)
			r.finish(ans)
		default:
			panic("unknown op " + kind)
		}
	}
	if r.inflight && !r.dead {
		r.finish([][2]int{})
	}
	return caseJ{K: "seq", Cfg: in.Cfg, Dflt: in.Dflt, Steps: r.steps}
}

func replayFile(path string, emit func(caseJ)) {
	data, err := os.ReadFile(path)
	if err != nil {
		panic(err)
	}
	for _, line := range strings.Split(string(data), "\n") {
		if strings.TrimSpace(line) != "" {
			emit(replayCase(line))
		}
	}
}

// ---------- statistics (stderr only) ----------

type stats struct {
	cases, steps, accepted, rejected, evict, repl, promoted, inter int
	hang, pan, apiBad, overAll, overList, gap, orphan              int
	ops                                                            map[string]int
}

func (st *stats) account(c caseJ) {
	st.cases++
	prev := snapJ{}
	sinceBegin := -1
	for _, s := range c.Steps {
		kind := s.Op[0].(string)
		st.steps++
		st.ops[kind]++
		switch kind {
		case "add":
			if s.Ret == 1 {
				st.accepted++
			} else {
				st.rejected++
			}
			if len(s.Gone) > 0 {
				st.evict++
			}
			for _, id := range s.Gone {
				for _, l := range prev.Lists {
					if l.Sender == s.tx.sender && l.at(s.tx.nonce) == id && has(s.Snap.All, s.tx.num) {
						st.repl++
					}
				}
			}
		case "begin":
			sinceBegin = 0
		case "finish":
			if sinceBegin > 0 {
				st.inter++
			}
			sinceBegin = -1
			grew := false
			for _, l := range s.Snap.Lists {
				before := []uint64{}
				for _, pl := range prev.Lists {
					if pl.Sender == l.Sender {
						before = pl.Procs
					}
				}
				grew = grew || len(l.Procs) > len(before)
			}
			st.promoted += b2i(grew)
		}
		if kind != "begin" && kind != "finish" && sinceBegin >= 0 {
			sinceBegin++
		}
		st.hang += b2i(s.Hang)
		st.pan += b2i(s.Panic != "")
		st.apiBad += b2i(!s.API)
		st.overAll += b2i(uint64(len(s.Snap.All)) > c.Cfg[0])
		inLists := []int{}
		for _, l := range s.Snap.Lists {
			st.overList += b2i(uint64(len(l.Keys)) > c.Cfg[1] || uint64(len(l.Nonces)) > c.Cfg[1])
			inLists = append(inLists, l.IDs...)
			for i := 1; i < len(l.Procs); i++ {
				st.gap += b2i(l.Procs[i] != l.Procs[i-1]+1)
			}
		}
		if !eqInts(setOf(inLists), setOf(s.Snap.All)) || !eqInts(s.Snap.Queue, s.Snap.All) {
			st.orphan++
		}
		prev = s.Snap
	}
}

// settledGoroutines: the goroutine count after an abandoned (hung) pool, taken as the MINIMUM over ~50 ms: goroutines that are
// about to exit must not inflate the baseline, or begin() would stop waiting for the ungated reorg goroutines of later cases.
func settledGoroutines() int {
	n := runtime.NumGoroutine()
	for i := 0; i < 25; i++ {
		time.Sleep(2 * time.Millisecond)
		if m := runtime.NumGoroutine(); m < n {
			n = m
		}
	}
	return n
}

// baseG: goroutines alive outside of any pool call (main, library background, leaked by dead cases).
var baseG int

var ties = flag.Bool("ties", false, "allow equal fee priorities across senders (output no longer reproducible)")

func main() {
	out := flag.String("out", "", "output JSONL (required)")
	n := flag.Int("n", 300, "random cases")
	maxLen := flag.Int("len", 14, "max ops per case")
	in := flag.String("in", "", "replay: JSONL of case records to re-execute")
	flag.Parse()
	if *out == "" {
		fmt.Fprintln(os.Stderr, "c14: -out is required")
		os.Exit(2)
	}
	baseG = runtime.NumGoroutine()
	for i := 0; i < 3; i++ {
		time.Sleep(time.Millisecond)
		if n := runtime.NumGoroutine(); n < baseG {
			baseG = n
		}
	}
	rng := hx.NewRng(hx.SeedFromEnv())
	// unbuffered, one write per case: a panic inside a goroutine spawned by reorg cannot be recovered
	// and kills the process; everything up to the crashing case is then already on disk
	f, err := os.Create(*out)
	if err != nil {
		panic(err)
	}
	defer f.Close()
	enc := json.NewEncoder(f)
	st := &stats{ops: map[string]int{}}
	emit := func(c caseJ) {
		st.account(c)
		if err := enc.Encode(c); err != nil {
			panic(err)
		}
	}
	if *in != "" {
		replayFile(*in, emit)
	} else {
		if files, err := filepath.Glob(filepath.Join(corpusDir, "*.jsonl")); err == nil {
			sort.Strings(files)
			for _, f := range files {
				replayFile(f, emit)
			}
		}
		for i := 0; i < *n; i++ {
			emit(genCase(rng, *maxLen))
			if st.hang >= 12 && *in == "" {
				// a dozen hung cases is not load: stop generating (every further case would wait for the watchdog too);
				// the hung cases are in the output and the check reports them
				fmt.Fprintf(os.Stderr, "c14: %d hung steps after %d cases: generation stopped early\n", st.hang, i+1)
				break
			}
		}
	}
	fmt.Fprintf(os.Stderr, "c14: cases=%d steps=%d ops: add=%d rm=%d begin=%d finish=%d | adds accepted=%d rejected=%d evicting=%d replacements=%d | reorgs promoting=%d interleaved=%d\n",
		st.cases, st.steps, st.ops["add"], st.ops["rm"], st.ops["begin"], st.ops["finish"], st.accepted, st.rejected, st.evict, st.repl, st.promoted, st.inter)
	fmt.Fprintf(os.Stderr, "c14: self-check (steps): hang=%d panic=%d api-false=%d all>max=%d list>max=%d processable-gaps=%d index-mismatch(all/queue/lists)=%d\n",
		st.hang, st.pan, st.apiBad, st.overAll, st.overList, st.gap, st.orphan)
}
