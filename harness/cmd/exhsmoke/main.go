package main

import (
	"fmt"

	"verifharness/internal/exh"
)

func main() {
	n, err := exh.New(exh.Options{N: 4})
	if err != nil {
		panic(err)
	}
	fmt.Println("genesis ok, tip", n.Tip().Header.Height, "dump keys", len(n.Dump()))
	for i := 0; i < 12; i++ {
		b := n.NextValid(exh.Build{})
		r := n.ProcessValidated(b, false)
		f, _ := n.Finalized()
		a, p, c := n.Heights()
		fmt.Println("apply", b.Header.Height, exh.ErrClass(r), r.Err, "fin", f, "heights", a, p, c, n.DrainEvents())
	}
	d0 := n.DumpDigest()
	b := n.NextValid(exh.Build{})
	b.Header.EventRoot = make([]byte, 32)
	n.Sign(b.Header, n.ValidatorByAddr(b.Header.GeneratorAddress))
	r := n.ProcessValidated(b, false)
	fmt.Println("wrong event root:", exh.ErrClass(r), "db same", d0 == n.DumpDigest())
	if r.OK() {
		fmt.Println("delete:", exh.ErrClass(n.DeleteBlock(n.Tip(), false)), "db same", d0 == n.DumpDigest())
	}
	fmt.Println("restart:", n.Restart(), "tip", n.Tip().Header.Height, "same", d0 == n.DumpDigest())
	r = n.DeleteBlock(n.Tip(), true)
	fmt.Println("delete:", exh.ErrClass(r), n.DrainEvents())
	for n.Tip().Header.Height > 0 {
		r = n.DeleteBlock(n.Tip(), true)
		if !r.OK() {
			fmt.Println("delete stops at", n.Tip().Header.Height, exh.ErrClass(r))
			break
		}
	}
}
