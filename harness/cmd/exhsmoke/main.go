package main

import (
	"fmt"

	"github.com/LiskHQ/lisk-engine/pkg/blockchain"
	"verifharness/internal/exh"
)

func main() {
	n, err := exh.New(exh.Options{N: 4})
	if err != nil {
		panic(err)
	}
	for i := 0; i < 3; i++ {
		n.ProcessValidated(n.NextValid(exh.Build{}), false)
	}
	d0 := n.DumpDigest()
	// wrong event root
	b := n.NextValid(exh.Build{})
	b.Header.EventRoot = make([]byte, 32)
	n.Sign(b.Header, n.ValidatorByAddr(b.Header.GeneratorAddress))
	fmt.Println("validate:", b.Validate())
	r := n.ProcessValidated(b, false)
	fmt.Println("wrong event root:", exh.ErrClass(r), "db same", d0 == n.DumpDigest())
	n.DeleteBlock(n.Tip(), false)
	fmt.Println("restored", d0 == n.DumpDigest())
	// statically invalid tx
	tx := exh.MakeTx(1, 10)
	tx.SenderPublicKey = []byte{1, 2, 3}
	tx.Init()
	fmt.Println("tx.Validate:", tx.Validate())
	b = n.NextValid(exh.Build{Txs: []*blockchain.Transaction{tx}})
	fmt.Println("validate:", b.Validate())
	r = n.Process(b)
	fmt.Println("static-invalid tx via process:", exh.ErrClass(r), "tip", n.Tip().Header.Height, "db same", d0 == n.DumpDigest())
	n.DeleteBlock(n.Tip(), false)
	fmt.Println("restored", d0 == n.DumpDigest())
	// oversized payload
	txs := []*blockchain.Transaction{}
	sz := 0
	for i := 0; i < 3; i++ {
		t := exh.MakeTx(uint64(10+i), 14000)
		txs = append(txs, t)
		sz += t.Size()
	}
	b = n.NextValid(exh.Build{Txs: txs})
	r = n.Process(b)
	fmt.Println("payload", sz, "limit", n.Opt.MaxTxLen, "via process:", exh.ErrClass(r), "tip", n.Tip().Header.Height)
}
