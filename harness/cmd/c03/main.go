// C03 correspondence driver: random reachable node states of a real consensus.Executer; for each, a valid successor and
// every single-field alteration of it (header fields, payload, signature, signer, slot boundaries, aggregate commit parts,
// ABI answers) is submitted through Block.Validate+processValidated or through process; one JSONL record per case with
// the projected inputs of the Coq model (Exec/VerifyBlock.v, Exec/Process.v) and the implementation's observation
// (rule class, whole-DB dump equality, published events, tip, finalized height).
package main

import (
	"bytes"
	"crypto/ed25519"
	"crypto/sha256"
	"encoding/hex"
	"encoding/json"
	"flag"
	"fmt"
	"os"
	"sort"
	"strings"
	"time"

	"github.com/LiskHQ/lisk-engine/pkg/blockchain"
	"github.com/LiskHQ/lisk-engine/pkg/codec"
	"github.com/LiskHQ/lisk-engine/pkg/consensus/certificate"
	"github.com/LiskHQ/lisk-engine/pkg/consensus/liskbft"
	"github.com/LiskHQ/lisk-engine/pkg/labi"
	"github.com/LiskHQ/lisk-engine/pkg/trie/rmt"

	"verifharness/internal/exh"
	"verifharness/internal/hx"
)

type HeaderJ struct {
	Version   uint32 `json:"version"`
	Timestamp uint32 `json:"ts"`
	Height    uint32 `json:"height"`
	Prev      string `json:"prev"`
	Gen       string `json:"gen"`
	TxRoot    string `json:"txroot"`
	AssetRoot string `json:"assetroot"`
	EventRoot string `json:"eventroot"`
	StateRoot string `json:"stateroot"`
	MHP       uint32 `json:"mhp"`
	MHG       uint32 `json:"mhg"`
	Imp       bool   `json:"imp"`
	VHash     string `json:"vhash"`
	AggHeight uint32 `json:"aggh"`
	AggBits   string `json:"aggbits"`
	AggSig    string `json:"aggsig"`
	Sig       string `json:"sig"`
	ID        string `json:"id"`
}

func hj(h *blockchain.BlockHeader) HeaderJ {
	x := hex.EncodeToString
	return HeaderJ{h.Version, h.Timestamp, h.Height, x(h.PreviousBlockID), x(h.GeneratorAddress), x(h.TransactionRoot), x(h.AssetRoot),
		x(h.EventRoot), x(h.StateRoot), h.MaxHeightPrevoted, h.MaxHeightGenerated, h.ImpliesMaxPrevotes, x(h.ValidatorsHash),
		h.AggregateCommit.Height, x(h.AggregateCommit.AggregationBits), x(h.AggregateCommit.CertificateSignature), x(h.Signature), x(h.ID)}
}

type TxJ struct {
	ID     string `json:"id"`
	Size   int    `json:"size"`
	Static bool   `json:"static"`
}
type AssetJ struct {
	Module string `json:"module"`
	Data   string `json:"data"`
}
type BlockJ struct {
	Header HeaderJ  `json:"header"`
	Txs    []TxJ    `json:"txs"`
	Assets []AssetJ `json:"assets"`
}

func bj(b *blockchain.Block) BlockJ {
	o := BlockJ{Header: hj(b.Header), Txs: []TxJ{}, Assets: []AssetJ{}}
	for _, t := range b.Transactions {
		o.Txs = append(o.Txs, TxJ{hex.EncodeToString(t.ID), t.Size(), t.Validate() == nil})
	}
	for _, a := range b.Assets {
		o.Assets = append(o.Assets, AssetJ{a.Module, hex.EncodeToString(a.Data)})
	}
	return o
}

type VEnvJ struct {
	GenesisTS         uint32      `json:"genesis_ts"`
	BlockTime         uint32      `json:"block_time"`
	Now               uint32      `json:"now"`
	MaxPayload        uint32      `json:"max_payload"`
	GenLookupOK       bool        `json:"gen_lookup_ok"`
	Generators        []string    `json:"generators"`
	NodeMHP           uint32      `json:"node_mhp"`
	Contradicting     bool        `json:"contradicting"` // the module's own verdict (diagnostic only: the oracle recomputes it from Window)
	Window            [][4]string `json:"window"`        // BFT window, newest first: height, generator address, maxHeightGenerated, maxHeightPrevoted
	MhPrecommit       uint32      `json:"mh_precommit"`
	MhCert            uint32      `json:"mh_cert"`
	NextParams        *uint32     `json:"next_params"`   // NextHeightBFTParameters(maxHeightCertified+1), nil if none
	AggLookupOK       bool        `json:"agg_lookup_ok"` // header and BFT parameters exist at the commit's height
	AggBlsOK          bool        `json:"agg_bls_ok"`    // weighted BLS aggregate verifies (computed with pkg/crypto directly)
	SigOK             bool        `json:"sig_ok"`
	SigningBytesAgree bool        `json:"signing_bytes_agree"` // production BlockHeader.SigningBytes() = the independent encoding
	Batch             int         `json:"batch"`               // liskbft batch size of this world (vote window = 3*batch); informational, used by C01
}
type XEnvJ struct {
	InitOK         bool      `json:"init_ok"`
	VerifyAssets   bool      `json:"verify_assets_ok"`
	BftOK          bool      `json:"bft_ok"`
	BeforeOK       bool      `json:"before_ok"`
	Tx             [][2]bool `json:"tx"`
	AfterOK        bool      `json:"after_ok"`
	ParamsChanged  bool      `json:"params_changed"`
	SetParamsOK    bool      `json:"set_params_ok"`
	PostVHash      string    `json:"post_vhash"`
	NEvents        int       `json:"nevents"`
	EventRoot      string    `json:"eventroot"`
	EventRootAgree bool      `json:"eventroot_agree"` // blockchain.CalculateEventRoot = the independent sparse-Merkle computation
	PostPrecommit  uint32    `json:"post_precommit"`
	CommitOK       bool      `json:"commit_ok"`
	PostCS         string    `json:"post_cs"`
}
type ImplJ struct {
	Class    string   `json:"class"`
	Err      string   `json:"err,omitempty"`
	DBSame   bool     `json:"db_same"`
	DiffKeys []string `json:"diff_keys,omitempty"`
	Events   []exh.Ev `json:"events"`
	TipAfter string   `json:"tip_after"`
	FinAfter uint32   `json:"fin_after"`
	CSAfter  string   `json:"cs_after"`
	AppAfter string   `json:"app_after"`
	LbrAfter string   `json:"lbr_after"` // Executer.lastBlockReceived after the call: nil | previous | now (C07's oracle reads it)
	Commits  int      `json:"abi_commits"`
	Reverts  int      `json:"abi_reverts"`
}
type Case struct {
	K        string `json:"k"` // "pv": Validate+processValidated or process on a ValidBlock-shaped block; "tb": tie-break scenario
	World    int    `json:"world"`
	Alt      string `json:"alt"`
	Resigned bool   `json:"resigned"`
	// the signed part of the header differs from the valid successor's and the block was NOT re-signed: whatever the field, the
	// block must be rejected (at the signature rule at the latest)
	UnsignedChange bool    `json:"unsigned_change"`
	Path           string  `json:"path"`
	Tip            HeaderJ `json:"tip"`
	Fin            uint32  `json:"fin"`
	CS             string  `json:"cs"`
	App            string  `json:"app"`
	Block          BlockJ  `json:"block"`
	TxRoot         string  `json:"pe_txroot"`
	AssetRt        string  `json:"pe_assetroot"`
	VE             VEnvJ   `json:"ve"`
	XE             XEnvJ   `json:"xe"`
	Impl           ImplJ   `json:"impl"`
	// tie-break only
	Old   *BlockJ `json:"old,omitempty"`
	OldVE *VEnvJ  `json:"old_ve,omitempty"`
	OldXE *XEnvJ  `json:"old_xe,omitempty"`
	Prev  *BlockJ `json:"prevblock,omitempty"`
	DelCS string  `json:"del_cs,omitempty"`
}

type step struct {
	block  *blockchain.Block
	script *exh.Script
	rot    *rotation // generator-key rotation that takes effect once this block is applied
}

type rotation struct {
	index     int
	pub, priv []byte
}

type world struct {
	unsignedChange bool // set around a submit: see Case.UnsignedChange
	noAgg          bool // no aggregate commits while growing (keeps maxHeightCertified low for the boundary cases)
	noChange       bool // no random validator-set changes while growing
	id             int
	n              *exh.Node
	hist           []step
	opt            exh.Options
	r              *hx.Rng
	out            *hx.Out
}

func (w *world) rebuild() {
	o := w.opt
	o.FS = nil
	o.GenesisTime = w.n.Opt.GenesisTime
	n, err := exh.New(o)
	if err != nil {
		panic(err)
	}
	for len(n.Vals) < len(w.n.Vals) {
		n.AddValidator()
	}
	for i, s := range w.hist {
		n.ABI.S = s.script
		if r := n.ProcessValidated(s.block, false); !r.OK() {
			panic(fmt.Sprintf("rebuild: step %d rejected: %v %s", i, r.Err, r.Panic))
		}
		if s.rot != nil {
			n.Vals[s.rot.index].UseGeneratorKey(s.rot.pub, s.rot.priv)
		}
	}
	n.DrainEvents()
	w.n = n
}

// ---- independent encoding of the signed part of a header (written from the property's field list and the Lisk codec rules,
// NOT from pkg/blockchain): tag || chainID || every header field except signature and id, in field-number order.
func uvarint(x uint64) []byte {
	out := []byte{}
	for x >= 0x80 {
		out = append(out, byte(x)|0x80)
		x >>= 7
	}
	return append(out, byte(x))
}
func fUint(n int, v uint64) []byte { return append(uvarint(uint64(n)<<3|0), uvarint(v)...) }
func fBytes(n int, b []byte) []byte {
	return append(append(uvarint(uint64(n)<<3|2), uvarint(uint64(len(b)))...), b...)
}
func fBool(n int, v bool) []byte {
	if v {
		return fUint(n, 1)
	}
	return fUint(n, 0)
}
func indepSigningBytes(h *blockchain.BlockHeader) []byte {
	out := []byte{}
	out = append(out, fUint(1, uint64(h.Version))...)
	out = append(out, fUint(2, uint64(h.Timestamp))...)
	out = append(out, fUint(3, uint64(h.Height))...)
	out = append(out, fBytes(4, h.PreviousBlockID)...)
	out = append(out, fBytes(5, h.GeneratorAddress)...)
	out = append(out, fBytes(6, h.TransactionRoot)...)
	out = append(out, fBytes(7, h.AssetRoot)...)
	out = append(out, fBytes(8, h.EventRoot)...)
	out = append(out, fBytes(9, h.StateRoot)...)
	out = append(out, fUint(10, uint64(h.MaxHeightPrevoted))...)
	out = append(out, fUint(11, uint64(h.MaxHeightGenerated))...)
	out = append(out, fBool(12, h.ImpliesMaxPrevotes)...)
	out = append(out, fBytes(13, h.ValidatorsHash)...)
	if h.AggregateCommit != nil {
		ac := append(append(fUint(1, uint64(h.AggregateCommit.Height)), fBytes(2, h.AggregateCommit.AggregationBits)...), fBytes(3, h.AggregateCommit.CertificateSignature)...)
		out = append(out, fBytes(14, ac)...)
	}
	return out
}

// indepSigOK: Ed25519 verification (crypto/ed25519) of the signature over SHA-256("LSK_BH_" || chainID || signed part).
func indepSigOK(pub, sig, chainID []byte, h *blockchain.BlockHeader) bool {
	if len(pub) != ed25519.PublicKeySize || len(sig) != ed25519.SignatureSize {
		return false
	}
	msg := sha256.Sum256(append(append([]byte("LSK_BH_"), chainID...), indepSigningBytes(h)...))
	return ed25519.Verify(ed25519.PublicKey(pub), msg[:], sig)
}

// ---- independent event root: the sparse Merkle root (LIP-0039 shape: empty subtree = SHA-256(""), a subtree with one leaf is
// that leaf SHA-256(0x00 || key || value), otherwise SHA-256(0x01 || left || right)) over, for every event and each of its
// topics, key = SHA-256(topic)[:8] || uint32(index<<2 | topic position), value = the encoded event.  Written from the LIPs, not
// from pkg/blockchain/event.go or pkg/trie/smt.
func indepEventRoot(events []*blockchain.Event) []byte {
	type kv struct{ k, v []byte }
	var leaves []kv
	seen := map[string]bool{}
	for i, e := range events {
		val := []byte{}
		val = append(val, fBytes(1, []byte(e.Module))...)
		val = append(val, fBytes(2, []byte(e.Name))...)
		val = append(val, fBytes(3, e.Data)...)
		for _, t := range e.Topics {
			val = append(val, fBytes(4, t)...)
		}
		val = append(val, fUint(5, uint64(e.Height))...)
		val = append(val, fUint(6, uint64(i))...)
		for j, t := range e.Topics {
			th := sha256.Sum256(t)
			idx := uint32(i)<<2 + uint32(j)
			k := append(append([]byte{}, th[:8]...), byte(idx>>24), byte(idx>>16), byte(idx>>8), byte(idx))
			if !seen[string(k)] {
				seen[string(k)] = true
				leaves = append(leaves, kv{k, val})
			}
		}
	}
	var rec func(ls []kv, depth int) []byte
	rec = func(ls []kv, depth int) []byte {
		switch len(ls) {
		case 0:
			h := sha256.Sum256(nil)
			return h[:]
		case 1:
			h := sha256.Sum256(append(append([]byte{0}, ls[0].k...), ls[0].v...))
			return h[:]
		}
		var l, r []kv
		for _, x := range ls {
			if x.k[depth/8]>>(7-uint(depth%8))&1 == 0 {
				l = append(l, x)
			} else {
				r = append(r, x)
			}
		}
		h := sha256.Sum256(append(append([]byte{1}, rec(l, depth+1)...), rec(r, depth+1)...))
		return h[:]
	}
	return rec(leaves, 0)
}

func lbrClass(prev, cur *time.Time, start time.Time) string {
	switch {
	case cur == nil:
		return "nil"
	case prev != nil && cur.Equal(*prev):
		return "previous"
	case !cur.Before(start.Add(-time.Second)):
		return "now"
	}
	return "other"
}

func cloneBlock(b *blockchain.Block) *blockchain.Block {
	c, err := blockchain.NewBlock(b.Encode())
	if err != nil {
		panic(err)
	}
	return c
}

func cloneScript(s *exh.Script) *exh.Script {
	if s == nil {
		return &exh.Script{}
	}
	c := *s
	return &c
}

func csCode(n *exh.Node) string {
	a, b, c := n.Heights()
	p, err := n.Exec.GetBFTParameters(n.Exec.VerifC03ConsensusStore(), n.Tip().Header.Height+1)
	vh := "none"
	if err == nil {
		vh = hex.EncodeToString(p.ValidatorsHash())
	}
	return fmt.Sprintf("%d/%d/%d/%s", a, b, c, vh)
}

func setParamsOK(n *exh.Node, s *exh.Script) bool {
	if len(s.NextValidators) > n.Opt.BatchSize {
		return false
	}
	w := uint64(0)
	for _, v := range s.NextValidators {
		if v.BFTWeight == 0 {
			return false
		}
		w += v.BFTWeight
	}
	if w/3+1 > s.PreCommitThreshold || s.PreCommitThreshold > w {
		return false
	}
	if w/3+1 > s.CertificateThreshold || s.CertificateThreshold > w {
		return false
	}
	return true
}

// envs computes the model inputs for submitting b in the current state under script s (nothing is committed).
func envs(n *exh.Node, b *blockchain.Block, s *exh.Script) (VEnvJ, XEnvJ, string, string) {
	h := b.Header
	ve := VEnvJ{GenesisTS: n.Opt.GenesisTime, BlockTime: n.Opt.BlockTime, Now: uint32(time.Now().Unix()), MaxPayload: n.Opt.MaxTxLen}
	gens := n.GeneratorAddrs()
	ve.GenLookupOK = gens != nil
	ve.Generators = []string{}
	for _, g := range gens {
		ve.Generators = append(ve.Generators, hex.EncodeToString(g))
	}
	mhp, pre, cert := n.Heights()
	ve.NodeMHP, ve.MhPrecommit, ve.MhCert = mhp, pre, cert
	api := n.Exec.VerifC03LiskBFT().API()
	if np, err := api.NextHeightBFTParameters(n.Exec.VerifC03ConsensusStore(), cert+1); err == nil {
		ve.NextParams = &np
	}
	func() {
		// the two external verdicts verifyAggregateCommit needs, computed without it
		defer func() { recover() }()
		agg := h.AggregateCommit
		hd := n.HeaderAt(agg.Height)
		params, err := api.GetBFTParameters(n.Exec.VerifC03ConsensusStore(), agg.Height)
		if hd == nil || err != nil {
			return
		}
		ve.AggLookupOK = true
		type kw struct {
			k []byte
			w uint64
		}
		kws := []kw{}
		for _, v := range params.Validators() {
			kws = append(kws, kw{v.BLSKey(), v.BFTWeight()})
		}
		sort.Slice(kws, func(i, j int) bool { return bytes.Compare(kws[i].k, kws[j].k) < 0 })
		keys, weights := [][]byte{}, []uint64{}
		for _, x := range kws {
			keys = append(keys, x.k)
			weights = append(weights, x.w)
		}
		cert := certificate.NewCertificateFromBlock(hd)
		cert.AggregationBits = agg.AggregationBits
		cert.Signature = agg.CertificateSignature
		ve.AggBlsOK = cert.VerifyAggregateCertificateSignature(keys, weights, params.CertificateThreshold(), n.Opt.ChainID)
	}()
	ve.Window = [][4]string{}
	func() {
		defer func() { recover() }()
		infos, _, err := liskbft.VerifC02DumpVotes(n.Exec.VerifC03ConsensusStore())
		if err != nil {
			return
		}
		for _, in := range infos {
			ve.Window = append(ve.Window, [4]string{fmt.Sprint(in.Height), hex.EncodeToString(in.Generator), fmt.Sprint(in.MaxHeightGenerated), fmt.Sprint(in.MaxHeightPrevoted)})
		}
	}()
	func() {
		defer func() {
			if recover() != nil {
				ve.Contradicting = false
			}
		}()
		c, err := n.Exec.VerifC03LiskBFT().API().IsHeaderContradictingChain(n.Exec.VerifC03ConsensusStore(), h.Readonly())
		ve.Contradicting = c && err == nil
	}()
	ve.Batch = n.Opt.BatchSize
	if len(gens) > 0 {
		slot := n.Slot(h.Timestamp)
		if v := n.ValidatorByAddr(gens[slot%len(gens)]); v != nil {
			ve.SigOK = indepSigOK(v.Pub, h.Signature, n.Opt.ChainID, h) // NOT the production SigningBytes / ValidateBlockSignature
		}
	}
	ve.SigningBytesAgree = bytes.Equal(h.SigningBytes(), indepSigningBytes(h))
	ids := make([][]byte, len(b.Transactions))
	for i, t := range b.Transactions {
		ids[i] = t.ID
	}
	txroot := hex.EncodeToString(rmt.CalculateRoot(ids))
	assetroot := hex.EncodeToString(blockchain.BlockAssets(b.Assets).GetRoot())

	xe := XEnvJ{InitOK: !s.FailInitStateMachine, VerifyAssets: !s.FailVerifyAssets, BeforeOK: !s.FailBeforeTxs, AfterOK: !s.FailAfterTxs, Tx: [][2]bool{}}
	for i := range b.Transactions {
		vok := s.FailVerifyTx != i+1
		if r, ok := s.VerifyTxResult[i]; ok && r != labi.TxVerifyResultOk {
			vok = false
		}
		xe.Tx = append(xe.Tx, [2]bool{vok, s.FailExecTx != i+1})
	}
	xe.ParamsChanged = len(s.NextValidators) != 0 || s.PreCommitThreshold != 0 || s.CertificateThreshold != 0
	xe.SetParamsOK = !xe.ParamsChanged || setParamsOK(n, s)
	evs := s.AllEvents(len(b.Transactions))
	xe.NEvents = len(evs)
	er := indepEventRoot(evs) // NOT blockchain.CalculateEventRoot
	xe.EventRoot = hex.EncodeToString(er)
	if prod, err := blockchain.CalculateEventRoot(evs); err == nil {
		xe.EventRootAgree = bytes.Equal(prod, er)
	}
	xe.CommitOK = !s.FailCommit && (s.StateRoot == nil || bytes.Equal(s.StateRoot, h.StateRoot))
	// BFT post-state on a scratch staged store (never committed): the vote model is an input of C03 (C01/C02 own it)
	store := n.Exec.VerifC03ConsensusStore()
	func() {
		defer func() {
			if recover() != nil {
				xe.BftOK = false
			}
		}()
		xe.BftOK = n.Exec.BFTBeforeTransactionsExecute(h.Readonly(), store) == nil
		if xe.BftOK {
			if _, err := n.Exec.ImpliesMaximalPrevotes(store, h.Readonly()); err != nil {
				xe.BftOK = false
			}
		}
	}()
	pv := ""
	if xe.BftOK {
		api := n.Exec.VerifC03LiskBFT().API()
		if xe.ParamsChanged && xe.SetParamsOK {
			bv, gk := liskbft.GetBFTValidatorAndGenerators(s.NextValidators)
			if err := api.SetBFTParameters(store, s.PreCommitThreshold, s.CertificateThreshold, bv); err != nil {
				xe.SetParamsOK = false
			} else if err := api.SetGeneratorKeys(store, gk); err != nil {
				xe.SetParamsOK = false
			}
		}
		a, p, c, err := api.GetBFTHeights(store)
		if err == nil {
			xe.PostPrecommit = p
			if prm, err := api.GetBFTParameters(store, h.Height+1); err == nil {
				pv = hex.EncodeToString(prm.ValidatorsHash())
				xe.PostCS = fmt.Sprintf("%d/%d/%d/%s", a, p, c, pv)
			}
		}
	}
	// validatorsHash of the post-state parameters, computed from the scripted set when it changes
	if xe.ParamsChanged {
		xe.PostVHash = hex.EncodeToString(exh.ValidatorsHash(s.NextValidators, s.CertificateThreshold))
	} else {
		xe.PostVHash = hex.EncodeToString(n.PostValidatorsHash())
	}
	if xe.PostCS == "" {
		xe.PostCS = "unknown"
	}
	return ve, xe, txroot, assetroot
}

func (w *world) submit(alt string, b *blockchain.Block, s *exh.Script, resigned bool, forcePV bool, keep ...bool) bool {
	for attempt := 0; attempt < 3; attempt++ {
		n := w.n
		n.ABI.S = s
		tip := n.Tip().Header
		fin, _ := n.Finalized()
		c := Case{K: "pv", World: w.id, Alt: alt, Resigned: resigned, UnsignedChange: w.unsignedChange, Tip: hj(tip), Fin: fin, CS: csCode(n), App: hex.EncodeToString(n.ABI.AppRoot), Block: bj(b)}
		commits0, reverts0 := n.ABI.Commits, n.ABI.Reverts
		c.VE, c.XE, c.TxRoot, c.AssetRt = envs(n, b, s)
		before := n.Dump()
		n.DrainEvents()
		lbr0, t0 := n.Exec.VerifC03LastBlockReceived(), time.Now()
		shapeOK := b.Header.Height == tip.Height+1 && bytes.Equal(b.Header.PreviousBlockID, tip.ID) && !bytes.Equal(b.Header.ID, tip.ID)
		var r exh.Result
		if shapeOK && !forcePV && w.r.Intn(2) == 0 {
			c.Path = "process"
			r = n.Process(b)
		} else {
			c.Path = "validate+processValidated"
			if err := b.Validate(); err != nil {
				r = exh.Result{Err: err}
			} else {
				r = n.ProcessValidated(b, false)
			}
		}
		now2 := uint32(time.Now().Unix())
		after := n.Dump()
		c.Impl = ImplJ{Class: exh.ErrClass(r), DBSame: exh.Digest(exh.Canon(before)) == exh.Digest(exh.Canon(after)), Events: n.DrainEvents(),
			TipAfter: hex.EncodeToString(n.Tip().Header.ID), CSAfter: csCode(n), AppAfter: hex.EncodeToString(n.ABI.AppRoot),
			Commits: n.ABI.Commits - commits0, Reverts: n.ABI.Reverts - reverts0,
			LbrAfter: lbrClass(lbr0, n.Exec.VerifC03LastBlockReceived(), t0)}
		if r.Err != nil {
			c.Impl.Err = r.Err.Error()
		}
		if r.Panic != "" {
			c.Impl.Err = "panic: " + r.Panic
		}
		c.Impl.FinAfter, _ = n.Finalized()
		if !c.Impl.DBSame {
			c.Impl.DiffKeys = exh.DiffKeys(exh.Canon(before), exh.Canon(after))
			if len(c.Impl.DiffKeys) > 12 {
				c.Impl.DiffKeys = c.Impl.DiffKeys[:12]
			}
		}
		changed := !c.Impl.DBSame || r.OK()
		if n.Slot(now2) != n.Slot(c.VE.Now) {
			// the wall clock crossed a slot boundary during the case: redo it
			if changed {
				w.rebuild()
			}
			continue
		}
		w.out.Put(c)
		if len(keep) > 0 && keep[0] && r.OK() {
			w.hist = append(w.hist, step{block: b, script: s})
			n.DrainEvents()
			return true
		}
		if changed {
			w.rebuild()
		}
		return r.OK()
	}
	return false
}

func flip(b []byte) []byte {
	c := append([]byte{}, b...)
	if len(c) == 0 {
		return []byte{1}
	}
	c[len(c)/2] ^= 0x40
	return c
}

// alterations applies every single-field alteration to the valid successor built by mk (a fresh copy each time).
func (w *world) alterations(valid *blockchain.Block, script *exh.Script) {
	n := w.n
	gen := func() *exh.Validator { return w.n.ValidatorByAddr(valid.Header.GeneratorAddress) }
	type hmut struct {
		name string
		f    func(h *blockchain.BlockHeader)
	}
	tip := n.Tip().Header
	bt := n.Opt.BlockTime
	nowSlot := n.Slot(uint32(time.Now().Unix()))
	other := w.n.Vals[(gen().Index+1)%len(w.n.Vals)]
	muts := []hmut{
		{"version=0", func(h *blockchain.BlockHeader) { h.Version = 0 }},
		{"version=1", func(h *blockchain.BlockHeader) { h.Version = 1 }},
		{"version=3", func(h *blockchain.BlockHeader) { h.Version = 3 }},
		{"timestamp=tip", func(h *blockchain.BlockHeader) { h.Timestamp = tip.Timestamp }},
		{"timestamp=tip-slot", func(h *blockchain.BlockHeader) { h.Timestamp = tip.Timestamp - bt }},
		{"timestamp=tip+bt-1(same slot as tip)", func(h *blockchain.BlockHeader) { h.Timestamp = n.Exec.GetSlotTime(n.Slot(tip.Timestamp)) + bt - 1 }},
		{"timestamp+1(same slot)", func(h *blockchain.BlockHeader) { h.Timestamp++ }},
		{"timestamp+slot", func(h *blockchain.BlockHeader) { h.Timestamp += bt }},
		{"timestamp=now slot", func(h *blockchain.BlockHeader) { h.Timestamp = n.Exec.GetSlotTime(nowSlot) }},
		{"timestamp=now slot+1", func(h *blockchain.BlockHeader) { h.Timestamp = n.Exec.GetSlotTime(nowSlot + 1) }},
		{"timestamp=far future", func(h *blockchain.BlockHeader) { h.Timestamp = n.Exec.GetSlotTime(nowSlot + 100000) }},
		{"timestamp<genesis", func(h *blockchain.BlockHeader) { h.Timestamp = n.Opt.GenesisTime - 1 }},
		{"height+1", func(h *blockchain.BlockHeader) { h.Height++ }},
		{"height-1", func(h *blockchain.BlockHeader) { h.Height-- }},
		{"height=0", func(h *blockchain.BlockHeader) { h.Height = 0 }},
		{"prev flipped", func(h *blockchain.BlockHeader) { h.PreviousBlockID = flip(h.PreviousBlockID) }},
		{"prev=tip.prev", func(h *blockchain.BlockHeader) { h.PreviousBlockID = append([]byte{}, tip.PreviousBlockID...) }},
		{"prev 31 bytes", func(h *blockchain.BlockHeader) { h.PreviousBlockID = h.PreviousBlockID[:31] }},
		{"generator=other validator", func(h *blockchain.BlockHeader) { h.GeneratorAddress = append([]byte{}, other.Addr...) }},
		{"generator flipped", func(h *blockchain.BlockHeader) { h.GeneratorAddress = flip(h.GeneratorAddress) }},
		{"generator 19 bytes", func(h *blockchain.BlockHeader) { h.GeneratorAddress = h.GeneratorAddress[:19] }},
		{"transactionRoot flipped", func(h *blockchain.BlockHeader) { h.TransactionRoot = flip(h.TransactionRoot) }},
		{"assetRoot flipped", func(h *blockchain.BlockHeader) { h.AssetRoot = flip(h.AssetRoot) }},
		{"eventRoot flipped", func(h *blockchain.BlockHeader) { h.EventRoot = flip(h.EventRoot) }},
		{"stateRoot flipped", func(h *blockchain.BlockHeader) { h.StateRoot = flip(h.StateRoot) }},
		{"maxHeightPrevoted+1", func(h *blockchain.BlockHeader) { h.MaxHeightPrevoted++ }},
		{"maxHeightPrevoted-1", func(h *blockchain.BlockHeader) { h.MaxHeightPrevoted-- }},
		{"maxHeightGenerated=height", func(h *blockchain.BlockHeader) { h.MaxHeightGenerated = h.Height }},
		{"maxHeightGenerated=0", func(h *blockchain.BlockHeader) { h.MaxHeightGenerated = 0 }},
		{"maxHeightGenerated+1", func(h *blockchain.BlockHeader) { h.MaxHeightGenerated++ }},
		{"maxHeightGenerated-1", func(h *blockchain.BlockHeader) { h.MaxHeightGenerated-- }},
		{"impliesMaxPrevotes flipped", func(h *blockchain.BlockHeader) { h.ImpliesMaxPrevotes = !h.ImpliesMaxPrevotes }},
		{"validatorsHash flipped", func(h *blockchain.BlockHeader) { h.ValidatorsHash = flip(h.ValidatorsHash) }},
		{"aggregateCommit.height+1", func(h *blockchain.BlockHeader) { h.AggregateCommit.Height++ }},
		{"aggregateCommit.bits set", func(h *blockchain.BlockHeader) {
			h.AggregateCommit.AggregationBits = flip(h.AggregateCommit.AggregationBits)
		}},
		{"aggregateCommit.signature set", func(h *blockchain.BlockHeader) {
			h.AggregateCommit.CertificateSignature = flip(append(h.AggregateCommit.CertificateSignature, bytes.Repeat([]byte{7}, 96)...)[:96])
		}},
		{"aggregateCommit garbage", func(h *blockchain.BlockHeader) {
			h.AggregateCommit.Height++
			h.AggregateCommit.AggregationBits = []byte{0xff}
			h.AggregateCommit.CertificateSignature = bytes.Repeat([]byte{9}, 96)
		}},
	}
	for _, m := range muts {
		for _, resign := range []bool{false, true} {
			b := cloneBlock(valid)
			m.f(b.Header)
			if resign {
				signer := w.n.ValidatorByAddr(b.Header.GeneratorAddress)
				if signer == nil {
					signer = gen()
				}
				w.n.Sign(b.Header, signer)
			} else {
				b.Header.Init()
			}
			w.unsignedChange = !resign && !bytes.Equal(indepSigningBytes(b.Header), indepSigningBytes(valid.Header))
			w.submit(m.name, b, cloneScript(script), resign, false)
			w.unsignedChange = false
		}
	}
	// genuine aggregate commits on both sides of every bound of verifyAggregateCommit
	{
		_, pre, cert := n.Heights()
		type cand struct {
			label string
			h     uint32
		}
		cands := []cand{{"the last certified height", cert}, {"last certified+1", cert + 1}, {"the precommitted height", pre}, {"precommitted+1", pre + 1}}
		if np, err := n.Exec.VerifC03LiskBFT().API().NextHeightBFTParameters(n.Exec.VerifC03ConsensusStore(), cert+1); err == nil {
			cands = append(cands, cand{"next BFT parameters-1", np - 1}, cand{"exactly the height of the next BFT parameters", np})
		}
		seen := map[uint32]bool{}
		for _, c := range cands {
			if seen[c.h] {
				continue
			}
			seen[c.h] = true
			var agg *blockchain.AggregateCommit
			func() {
				defer func() { recover() }()
				agg = w.aggregateAt(c.h)
			}()
			if agg == nil {
				continue
			}
			b := cloneBlock(valid)
			b.Header.AggregateCommit = agg
			w.n.Sign(b.Header, gen())
			w.submit("aggregateCommit: genuine commit for "+c.label, b, cloneScript(script), true, false)
		}
	}
	// genuine commits whose signer weight is just below / at the certificate threshold and the precommit threshold
	{
		_, pre, cert := n.Heights()
		h := cert + 1
		if params, err := n.Exec.GetBFTParameters(n.Exec.VerifC03ConsensusStore(), h); err == nil && h <= pre && n.HeaderAt(h) != nil {
			// signer weight of the first k validators (weights may be unequal)
			vs := params.Validators()
			seenW := map[uint64]bool{}
			for k := 1; k <= len(vs); k++ {
				wsum := uint64(0)
				for _, v := range vs[:k] {
					wsum += v.BFTWeight()
				}
				label := ""
				switch {
				case wsum == params.CertificateThreshold():
					label = "equal to the certificate threshold"
				case wsum < params.CertificateThreshold() && wsum >= params.PrecommitThreshold():
					label = "at or above the precommit threshold but below the certificate threshold"
				case wsum < params.CertificateThreshold():
					label = "below both thresholds"
				case wsum > params.CertificateThreshold() && wsum < params.PrecommitThreshold():
					label = "above the certificate threshold but below the precommit threshold"
				default:
					label = "above both thresholds"
				}
				if seenW[wsum] && k != len(vs) {
					continue
				}
				seenW[wsum] = true
				var agg *blockchain.AggregateCommit
				func() {
					defer func() { recover() }()
					agg = w.aggregateBy(h, k)
				}()
				if agg == nil {
					continue
				}
				b := cloneBlock(valid)
				b.Header.AggregateCommit = agg
				w.n.Sign(b.Header, gen())
				w.submit("aggregateCommit: genuine commit with signer weight "+label, b, cloneScript(script), true, false)
			}
		}
	}
	// a block that changes the BFT parameters must carry the NEW validatorsHash
	if len(script.NextValidators) != 0 {
		if p, err := n.Exec.GetBFTParameters(n.Exec.VerifC03ConsensusStore(), tip.Height+1); err == nil {
			b := cloneBlock(valid)
			b.Header.ValidatorsHash = append([]byte{}, p.ValidatorsHash()...)
			w.n.Sign(b.Header, gen())
			w.submit("validatorsHash of the parameters before the change", b, cloneScript(script), true, false)
		}
	}
	// signature / signer
	sigs := []hmut{
		{"signature flipped", func(h *blockchain.BlockHeader) { h.Signature = flip(h.Signature); h.Init() }},
		{"signature truncated", func(h *blockchain.BlockHeader) { h.Signature = h.Signature[:63]; h.Init() }},
		{"signature empty", func(h *blockchain.BlockHeader) { h.Signature = []byte{}; h.Init() }},
		{"signed by other validator", func(h *blockchain.BlockHeader) { w.n.Sign(h, other) }},
		{"signed for another chain ID", func(h *blockchain.BlockHeader) { h.Sign([]byte{9, 9, 9, 9}, gen().Priv) }},
	}
	if gen().OldPriv != nil {
		sigs = append(sigs, hmut{"signed with the generator's retired key", func(h *blockchain.BlockHeader) { h.Sign(w.n.Opt.ChainID, gen().OldPriv) }})
	}
	for _, m := range sigs {
		b := cloneBlock(valid)
		m.f(b.Header)
		w.submit(m.name, b, cloneScript(script), false, false)
	}
	// payload
	resignB := func(b *blockchain.Block) { w.n.Sign(b.Header, gen()) }
	fixRoots := func(b *blockchain.Block) {
		ids := make([][]byte, len(b.Transactions))
		for i, t := range b.Transactions {
			ids[i] = t.ID
		}
		b.Header.TransactionRoot = rmt.CalculateRoot(ids)
		b.Header.AssetRoot = blockchain.BlockAssets(b.Assets).GetRoot()
	}
	type bmut struct {
		name string
		f    func(b *blockchain.Block) bool
	}
	pm := []bmut{
		{"payload: transaction added, root kept", func(b *blockchain.Block) bool {
			b.Transactions = append(b.Transactions, exh.MakeTx(991, 5))
			return true
		}},
		{"payload: transaction removed, root kept", func(b *blockchain.Block) bool {
			if len(b.Transactions) == 0 {
				return false
			}
			b.Transactions = b.Transactions[1:]
			return true
		}},
		{"payload: transactions swapped, root kept", func(b *blockchain.Block) bool {
			if len(b.Transactions) < 2 {
				return false
			}
			b.Transactions[0], b.Transactions[1] = b.Transactions[1], b.Transactions[0]
			return true
		}},
		{"payload: statically invalid transaction (sender key 3 bytes), roots and signature consistent", func(b *blockchain.Block) bool {
			tx := exh.MakeTx(992, 5)
			tx.SenderPublicKey = []byte{1, 2, 3}
			tx.Init()
			b.Transactions = append(b.Transactions, tx)
			fixRoots(b)
			resignB(b)
			return true
		}},
		{"payload: statically invalid transaction (no signatures), roots and signature consistent", func(b *blockchain.Block) bool {
			tx := exh.MakeTx(993, 5)
			tx.Signatures = []codec.Hex{}
			tx.Init()
			b.Transactions = append([]*blockchain.Transaction{tx}, b.Transactions...)
			fixRoots(b)
			resignB(b)
			return true
		}},
		{"payload: statically invalid transaction (non-alphanumeric module), roots and signature consistent", func(b *blockchain.Block) bool {
			tx := exh.MakeTx(994, 5)
			tx.Module = "to ken"
			tx.Init()
			b.Transactions = append(b.Transactions, tx)
			fixRoots(b)
			resignB(b)
			return true
		}},
		{"payload: size above the limit, roots and signature consistent", func(b *blockchain.Block) bool {
			for i := 0; i < 2; i++ {
				b.Transactions = append(b.Transactions, exh.MakeTx(uint64(995+i), 14000))
			}
			fixRoots(b)
			resignB(b)
			return true
		}},
		{"payload: size exactly at the limit, roots and signature consistent", func(b *blockchain.Block) bool {
			sz := 0
			for _, t := range b.Transactions {
				sz += t.Size()
			}
			room := int(w.n.Opt.MaxTxLen) - sz
			// fill with large transactions, then one whose encoded size makes the total exactly the limit
			for k := 0; room > 14200; k++ {
				t := exh.MakeTx(uint64(880+k), 13000)
				b.Transactions = append(b.Transactions, t)
				room -= t.Size()
			}
			if room < 200 {
				return false
			}
			for pl := room - 190; pl < room; pl++ {
				t := exh.MakeTx(997, pl)
				if t.Size() == room {
					b.Transactions = append(b.Transactions, t)
					fixRoots(b)
					resignB(b)
					return true
				}
			}
			return false
		}},
		{"payload: size one byte above the limit, roots and signature consistent", func(b *blockchain.Block) bool {
			sz := 0
			for _, t := range b.Transactions {
				sz += t.Size()
			}
			room := int(w.n.Opt.MaxTxLen) - sz + 1
			for k := 0; room > 14200; k++ {
				t := exh.MakeTx(uint64(880+k), 13000)
				b.Transactions = append(b.Transactions, t)
				room -= t.Size()
			}
			if room < 200 {
				return false
			}
			for pl := room - 190; pl < room; pl++ {
				t := exh.MakeTx(997, pl)
				if t.Size() == room {
					b.Transactions = append(b.Transactions, t)
					fixRoots(b)
					resignB(b)
					return true
				}
			}
			return false
		}},
		{"assets: duplicate module, root and signature consistent", func(b *blockchain.Block) bool {
			b.Assets = append(b.Assets, &blockchain.BlockAsset{Module: "random", Data: []byte{1}}, &blockchain.BlockAsset{Module: "random", Data: []byte{2}})
			fixRoots(b)
			resignB(b)
			return true
		}},
		{"assets: unsorted modules, root and signature consistent", func(b *blockchain.Block) bool {
			b.Assets = []*blockchain.BlockAsset{{Module: "zzz", Data: []byte{1}}, {Module: "aaa", Data: []byte{2}}}
			fixRoots(b)
			resignB(b)
			return true
		}},
		{"assets: data changed, root kept", func(b *blockchain.Block) bool {
			if len(b.Assets) == 0 {
				b.Assets = append(b.Assets, &blockchain.BlockAsset{Module: "random", Data: []byte{1}})
				return true
			}
			b.Assets[0].Data = flip(b.Assets[0].Data)
			return true
		}},
	}
	for _, m := range pm {
		b := cloneBlock(valid)
		if !m.f(b) {
			continue
		}
		if !strings.Contains(m.name, "consistent") {
			b.Header.Init()
		}
		w.submit(m.name, b, cloneScript(script), strings.Contains(m.name, "consistent"), false)
	}
	// ABI answers flipped (block untouched)
	type smut struct {
		name string
		f    func(s *exh.Script) bool
	}
	ntx := len(valid.Transactions)
	sm := []smut{
		{"abi: InitStateMachine fails", func(s *exh.Script) bool { s.FailInitStateMachine = true; return true }},
		{"abi: VerifyAssets fails", func(s *exh.Script) bool { s.FailVerifyAssets = true; return true }},
		{"abi: BeforeTransactionsExecute fails", func(s *exh.Script) bool { s.FailBeforeTxs = true; return true }},
		{"abi: AfterTransactionsExecute fails", func(s *exh.Script) bool { s.FailAfterTxs = true; return true }},
		{"abi: Commit fails", func(s *exh.Script) bool { s.FailCommit = true; return true }},
		{"abi: state root differs", func(s *exh.Script) bool { s.StateRoot = bytes.Repeat([]byte{0x5a}, 32); return true }},
		{"abi: VerifyTransaction error", func(s *exh.Script) bool { s.FailVerifyTx = ntx; return ntx > 0 }},
		{"abi: VerifyTransaction result invalid", func(s *exh.Script) bool {
			s.VerifyTxResult = map[int]int32{0: labi.TxVerifyResultInvalid}
			return ntx > 0
		}},
		{"abi: VerifyTransaction result pending", func(s *exh.Script) bool {
			s.VerifyTxResult = map[int]int32{ntx - 1: labi.TxVerifyResultPending}
			return ntx > 0
		}},
		{"abi: ExecuteTransaction error", func(s *exh.Script) bool { s.FailExecTx = 1; return ntx > 0 }},
		{"abi: one more event than the header commits to", func(s *exh.Script) bool {
			s.AfterEvents = append(append([]*blockchain.Event{}, s.AfterEvents...), exh.MakeEvent(777, valid.Header.Height, 1))
			return true
		}},
		{"abi: an event dropped", func(s *exh.Script) bool {
			if len(s.BeforeEvents) == 0 {
				return false
			}
			s.BeforeEvents = s.BeforeEvents[1:]
			return true
		}},
		{"abi: next validators with precommit threshold below a third", func(s *exh.Script) bool {
			s.NextValidators = []*labi.Validator{w.n.Vals[0].Labi(), w.n.Vals[1].Labi(), other.Labi()}
			if other.Index <= 1 {
				s.NextValidators = s.NextValidators[:2]
			}
			s.PreCommitThreshold = 0
			s.CertificateThreshold = uint64(len(s.NextValidators))
			return true
		}},
		{"abi: different next validators than the header's validatorsHash", func(s *exh.Script) bool {
			s.NextValidators = []*labi.Validator{w.n.Vals[0].Labi(), w.n.Vals[1].Labi()}
			s.PreCommitThreshold = 2
			s.CertificateThreshold = 2
			return true
		}},
	}
	for _, m := range sm {
		s := cloneScript(script)
		if !m.f(s) {
			continue
		}
		w.submit(m.name, cloneBlock(valid), s, false, false)
	}
}

func (w *world) randomScript(height uint32, ntx int) *exh.Script {
	s := &exh.Script{}
	r := w.r
	for i := r.Intn(3); i > 0; i-- {
		s.BeforeEvents = append(s.BeforeEvents, exh.MakeEvent(r.U64(), height, 1+r.Intn(4)))
	}
	if r.Intn(2) == 0 {
		for i := 0; i < ntx; i++ {
			s.TxEvents = append(s.TxEvents, []*blockchain.Event{exh.MakeEvent(r.U64(), height, 1+r.Intn(2))})
		}
	}
	for i := r.Intn(2); i > 0; i-- {
		s.AfterEvents = append(s.AfterEvents, exh.MakeEvent(r.U64(), height, 1))
	}
	if r.Intn(3) == 0 {
		sr := r.Bytes(32)
		s.StateRoot = sr
	}
	return s
}

func (w *world) randomBuild(allowChange bool) (exh.Build, *exh.Script) {
	r := w.r
	bo := exh.Build{}
	if r.Intn(4) == 0 {
		bo.SkipSlots = 1 + r.Intn(3)
	}
	ntx := 0
	if r.Intn(2) == 0 {
		ntx = 1 + r.Intn(3)
		for i := 0; i < ntx; i++ {
			bo.Txs = append(bo.Txs, exh.MakeTx(r.U64()%1000000, r.Intn(40)))
		}
	}
	if r.Intn(3) == 0 {
		bo.Assets = []*blockchain.BlockAsset{{Module: "auth", Data: r.Bytes(4)}, {Module: "random", Data: r.Bytes(8)}}
	}
	s := w.randomScript(w.n.Tip().Header.Height+1, ntx)
	if allowChange && r.Intn(6) == 0 {
		// validator set change: drop or add one validator, thresholds at two thirds
		cur := w.n.GeneratorAddrs()
		set := []*labi.Validator{}
		for _, a := range cur {
			set = append(set, w.n.ValidatorByAddr(a).Labi())
		}
		if len(set) > 2 && r.Bool() {
			set = set[:len(set)-1]
		} else if len(set) < w.n.Opt.BatchSize {
			var nv *exh.Validator
			for _, v := range w.n.Vals {
				found := false
				for _, a := range cur {
					if bytes.Equal(a, v.Addr) {
						found = true
					}
				}
				if !found {
					nv = v
					break
				}
			}
			if nv == nil {
				nv = w.n.AddValidator()
			}
			set = append(set, nv.Labi())
		}
		s.NextValidators = set
		s.PreCommitThreshold, s.CertificateThreshold = w.thresholds(set)
	}
	return bo, s
}

// aggregateAt builds a genuine aggregate commit for height h, signed by every validator active at that height
// (nil if the block or the parameters are not available).
func (w *world) aggregateAt(h uint32) *blockchain.AggregateCommit { return w.aggregateBy(h, 0) }

// aggregateBy: genuine commit for height h signed by the first `signers` validators active at h (0 = all of them).
func (w *world) aggregateBy(h uint32, signers int) *blockchain.AggregateCommit {
	n := w.n
	hd := n.HeaderAt(h)
	if hd == nil {
		return nil
	}
	params, err := n.Exec.GetBFTParameters(n.Exec.VerifC03ConsensusStore(), h)
	if err != nil {
		return nil
	}
	commits := certificate.SingleCommits{}
	kps := certificate.AddressKeyPairs{}
	for i, v := range params.Validators() {
		val := n.ValidatorByAddr(v.Address())
		if val == nil {
			return nil
		}
		if signers == 0 || i < signers {
			commits = append(commits, certificate.NewSingleCommit(hd, val.Addr, n.Opt.ChainID, val.BLS.PrivateKey))
		}
		kps = append(kps, &certificate.AddressKeyPair{Address: val.Addr, BLSKey: val.BLS.PublicKey})
	}
	agg, err := commits.Aggregate(kps)
	if err != nil {
		return nil
	}
	return agg
}

// aggregate: a genuine commit for a random precommitted, not yet certified height below the next parameter change.
func (w *world) aggregate() *blockchain.AggregateCommit {
	_, pre, cert := w.n.Heights()
	hi := pre
	if np, err := w.n.Exec.VerifC03LiskBFT().API().NextHeightBFTParameters(w.n.Exec.VerifC03ConsensusStore(), cert+1); err == nil && np-1 < hi {
		hi = np - 1
	}
	if hi <= cert {
		return nil
	}
	return w.aggregateAt(cert + 1 + uint32(w.r.Intn(int(hi-cert))))
}

// grow extends the chain by k valid successors; each of them is itself a recorded case (a valid block that the
// implementation rejects is reported by the oracle, not by a harness failure). Returns false if one was rejected.
func (w *world) grow(k int) bool {
	for i := 0; i < k; i++ {
		bo, s := w.randomBuild(!w.noChange)
		if !w.noAgg && w.r.Intn(5) == 0 {
			func() {
				defer func() { recover() }()
				if a := w.aggregate(); a != nil {
					bo.Agg = a
				}
			}()
		}
		if w.r.Intn(6) == 0 {
			// a header that casts no votes: maxHeightGenerated >= height (LIP-0014)
			hgt := w.n.Tip().Header.Height + 1
			bo.MHG = &hgt
		}
		w.n.ABI.S = s
		b := w.n.NextValid(bo)
		if !w.submit("none (valid successor, history)", b, s, true, w.r.Bool(), true) {
			return false
		}
	}
	w.n.DrainEvents()
	return true
}

// rotateKey appends one valid block whose execution hands over the SAME validator list (addresses, order, weights, BLS keys,
// thresholds) in which one validator has a new generator key. Returns that validator (nil if the block was not accepted).
func (w *world) rotateKey() *exh.Validator {
	n := w.n
	bo, s := w.randomBuild(false)
	cur := n.GeneratorAddrs()
	params, err := n.Exec.GetBFTParameters(n.Exec.VerifC03ConsensusStore(), n.Tip().Header.Height+1)
	if err != nil || len(cur) == 0 {
		return nil
	}
	v := n.ValidatorByAddr(cur[w.r.Intn(len(cur))])
	pub, priv := v.FreshGeneratorKey()
	for _, a := range cur {
		lv := n.ValidatorByAddr(a).Labi()
		if bytes.Equal(a, v.Addr) {
			lv.GeneratorKey = pub
		}
		s.NextValidators = append(s.NextValidators, lv)
	}
	s.PreCommitThreshold, s.CertificateThreshold = params.PrecommitThreshold(), params.CertificateThreshold()
	n.ABI.S = s
	b := n.NextValid(bo)
	if !w.submit("none (valid successor rotating a generator key, history)", b, s, true, false, true) {
		return nil
	}
	v.UseGeneratorKey(pub, priv)
	w.hist[len(w.hist)-1].rot = &rotation{v.Index, pub, priv}
	return v
}

// thresholds for a new validator set, keeping the world's relation between precommit and certificate threshold
func (w *world) thresholds(set []*labi.Validator) (uint64, uint64) {
	total := uint64(0)
	for _, v := range set {
		total += v.BFTWeight
	}
	lo, hi := total/3+1, total
	switch {
	case w.opt.PreCommit != 0 && w.opt.PreCommit < w.opt.Certificate:
		return lo, hi
	case w.opt.PreCommit != 0 && w.opt.PreCommit > w.opt.Certificate:
		return hi, lo
	}
	return total*2/3 + 1, total*2/3 + 1
}

// changeValidators appends one valid block whose execution changes the validator set (one validator added).
func (w *world) changeValidators() bool {
	bo, s := w.randomBuild(false)
	cur := w.n.GeneratorAddrs()
	set := []*labi.Validator{}
	for _, a := range cur {
		set = append(set, w.n.ValidatorByAddr(a).Labi())
	}
	var nv *exh.Validator
	for _, v := range w.n.Vals {
		found := false
		for _, a := range cur {
			if bytes.Equal(a, v.Addr) {
				found = true
			}
		}
		if !found {
			nv = v
			break
		}
	}
	if nv == nil {
		nv = w.n.AddValidator()
	}
	set = append(set, nv.Labi())
	s.NextValidators = set
	s.PreCommitThreshold, s.CertificateThreshold = w.thresholds(set)
	w.n.ABI.S = s
	b := w.n.NextValid(bo)
	return w.submit("none (valid successor changing the validator set, history)", b, s, true, false, true)
}

// tieBreak drives Executer.process into the tie-break branch with an invalid competing block (bad signature): the tip is
// deleted, the new block rejected, the old tip re-applied.
// mode: 0 valid competitor, 1 invalid signature, 2 execution failure (ABI AfterTransactionsExecute), 3 validatorsHash mismatch
// tieBreak retries the scenario when the wall clock crossed a slot boundary (the case cannot be judged then)
func (w *world) tieBreak(mode int) {
	for attempt := 0; attempt < 4; attempt++ {
		if w.tieBreakOnce(mode) {
			return
		}
	}
}

func (w *world) tieBreakOnce(mode int) bool {
	n := w.n
	nowSlot := n.Slot(uint32(time.Now().Unix()))
	tipSlot := n.Slot(n.Tip().Header.Timestamp)
	if nowSlot-tipSlot < 3 {
		return true
	}
	histLen := len(w.hist)
	// old tip T in slot now-1: with or without payload / assets / a change of the validator set
	bo1, s1 := w.randomBuild(mode%2 == 1 && !w.noChange)
	bo1.SkipSlots = nowSlot - 2 - tipSlot
	n.ABI.S = s1
	prevBlock := n.Tip()
	T := n.NextValid(bo1)
	if r := n.ProcessValidated(T, false); !r.OK() {
		panic("tiebreak: T rejected")
	}
	w.hist = append(w.hist, step{block: T, script: s1})
	// T was "received" two slots late
	late := time.Unix(int64(n.Exec.GetSlotTime(n.Slot(T.Header.Timestamp)+2)), 0)
	n.Exec.VerifC03SetLastBlockReceived(&late)
	// competing block T' for the current slot on top of T's parent: built against the state without T
	tipBlock := n.Tip()
	n.DeleteBlock(tipBlock, false)
	delCS := csCode(n)
	bo2, s2 := w.randomBuild(false)
	bo2.SkipSlots = nowSlot - 1 - n.Slot(prevBlock.Header.Timestamp)
	n.ABI.S = s2
	T2 := n.NextValid(bo2)
	if bytes.Equal(T2.Header.GeneratorAddress, T.Header.GeneratorAddress) {
		// same generator would be double forging (a single-generator list): not a tie-break; restore and give up
		n.ABI.S = s1
		n.ProcessValidated(T, false)
		w.rebuild()
		return true
	}
	alt := "tie-break: valid competing block"
	switch mode {
	case 1:
		T2.Header.Signature = flip(T2.Header.Signature)
		T2.Header.Init()
		alt = "tie-break: competing block with invalid signature"
	case 2:
		s2 = cloneScript(s2)
		s2.FailAfterTxs = true
		alt = "tie-break: competing block whose execution fails"
	case 3:
		T2.Header.ValidatorsHash = flip(T2.Header.ValidatorsHash)
		n.Sign(T2.Header, n.ValidatorByAddr(T2.Header.GeneratorAddress))
		alt = "tie-break: competing block with a wrong validatorsHash"
	}
	c := Case{K: "tb", World: w.id, Alt: alt, Path: "process"}
	ve2, xe2, txr, asr := envs(n, T2, s2)
	// re-apply T to get back to the state under test; envs of T for the model's re-application
	n.ABI.S = s1
	veT, xeT, _, _ := envs(n, T, s1)
	if r := n.ProcessValidated(T, false); !r.OK() {
		panic("tiebreak: T not re-accepted")
	}
	w.rebuild() // clean node in the state (…, T); lastBlockReceived must be set again
	n = w.n
	n.Exec.VerifC03SetLastBlockReceived(&late)
	fin, _ := n.Finalized()
	pb := bj(prevBlock)
	ob := bj(T)
	c.Tip, c.Fin, c.CS, c.Block, c.TxRoot, c.AssetRt, c.VE, c.XE = hj(T.Header), fin, csCode(n), bj(T2), txr, asr, ve2, xe2
	c.App = hex.EncodeToString(n.ABI.AppRoot)
	commits0, reverts0 := n.ABI.Commits, n.ABI.Reverts
	c.Old, c.OldVE, c.OldXE, c.Prev, c.DelCS = &ob, &veT, &xeT, &pb, delCS
	// the ABI double answers for T2 first, then for T when it is re-applied: both scripts have no failures, events differ
	n.ABI.S = s2
	before := n.Dump()
	n.DrainEvents()
	hook := &switchScript{n: n, first: s2, second: s1, firstHeight: T2.Header}
	hook.arm()
	lbr0, t0 := n.Exec.VerifC03LastBlockReceived(), time.Now()
	r := n.Process(T2)
	hook.disarm()
	after := n.Dump()
	c.Impl = ImplJ{Class: exh.ErrClass(r), DBSame: exh.Digest(exh.Canon(before)) == exh.Digest(exh.Canon(after)), Events: n.DrainEvents(),
		TipAfter: hex.EncodeToString(n.Tip().Header.ID), CSAfter: csCode(n), AppAfter: hex.EncodeToString(n.ABI.AppRoot),
		Commits: n.ABI.Commits - commits0, Reverts: n.ABI.Reverts - reverts0,
		LbrAfter: lbrClass(lbr0, n.Exec.VerifC03LastBlockReceived(), t0)}
	c.Impl.FinAfter, _ = n.Finalized()
	if !c.Impl.DBSame {
		c.Impl.DiffKeys = exh.DiffKeys(exh.Canon(before), exh.Canon(after))
	}
	if n.Slot(uint32(time.Now().Unix())) != nowSlot {
		// the wall clock left the slot during the scenario: undo it and let the caller retry
		w.hist = w.hist[:histLen]
		w.rebuild()
		return false
	}
	w.out.Put(c)
	if bytes.Equal(n.Tip().Header.ID, T2.Header.ID) {
		w.hist[len(w.hist)-1] = step{block: T2, script: s2}
	}
	w.rebuild()
	return true
}

// switchScript makes the ABI double answer with `first` until the block under test has been handled and with `second`
// afterwards (re-application of the old tip): the double sees InitStateMachine(header) at the start of every step.
type switchScript struct {
	n           *exh.Node
	first       *exh.Script
	second      *exh.Script
	firstHeight *blockchain.BlockHeader
}

func (s *switchScript) arm() {
	s.n.ABI.OnInit = func(h *blockchain.BlockHeader) {
		if bytes.Equal(h.ID, s.firstHeight.ID) {
			s.n.ABI.S = s.first
		} else {
			s.n.ABI.S = s.second
		}
	}
}
func (s *switchScript) disarm() { s.n.ABI.OnInit = nil }

func main() {
	out := flag.String("out", "cases.jsonl", "output")
	worlds := flag.Int("worlds", 6, "number of random node histories")
	points := flag.Int("points", 2, "states per history at which every alteration is applied")
	in := flag.String("in", "", "replay: not supported for time-dependent cases; records are re-evaluated by the check")
	flag.Parse()
	_ = in
	r := hx.NewRng(hx.SeedFromEnv())
	o := hx.NewOut(*out)
	defer o.Close()
	defer func() {
		if p := recover(); p != nil {
			o.Close()
			fmt.Fprintln(os.Stderr, "c03 harness failure:", p)
			os.Exit(3)
		}
	}()
	for wi := 0; wi < *worlds; wi++ {
		opt := exh.Options{N: 2 + r.Intn(4)}
		// precommit and certificate thresholds differ in two thirds of the worlds (both orders)
		{
			total := uint64(opt.N)
			lo, hi := total/3+1, total
			switch wi % 3 {
			case 0:
				opt.PreCommit, opt.Certificate = lo, hi
			case 1:
				opt.PreCommit, opt.Certificate = hi, lo
			}
		}
		if wi%3 == 2 {
			for i := 0; i < opt.N; i++ {
				opt.Weights = append(opt.Weights, uint64(1+r.Intn(3))) // unequal BFT weights: finality advances in jumps
			}
		}
		if r.Intn(3) == 0 {
			opt.KeepEvents, opt.KeepEventsSet = r.Intn(3), true
		}
		n, err := exh.New(opt)
		if err != nil {
			panic(err)
		}
		w := &world{id: wi, n: n, opt: opt, r: r, out: o}
		ok := true
		if wi%3 == 1 {
			// directed history for the aggregate-commit bounds: no certificate yet, a change of BFT parameters in the
			// middle, finality well past it
			w.noAgg, w.noChange = true, true
			ok = w.grow(3+r.Intn(3)) && w.changeValidators() && w.grow(8+r.Intn(4))
		}
		for p := 0; ok && p < *points; p++ {
			if !w.noAgg || p > 0 {
				ok = w.grow(r.Intn(9))
				if !ok {
					break
				}
			}
			var rotated *exh.Validator
			if p == 1 || *points == 1 {
				rotated = w.rotateKey()
				if rotated == nil {
					ok = false
					break
				}
				if !w.grow(r.Intn(2)) {
					ok = false
					break
				}
			}
			bo, s := w.randomBuild(p%2 == 1 && !w.noChange && rotated == nil)
			if rotated == nil && wi%3 == 0 && p == 0 {
				// the newest header of the successor's generator is a no-vote header (maxHeightGenerated = its height): the
				// alterations of maxHeightGenerated below then contradict exactly that entry of the window
				gens := w.n.GeneratorAddrs()
				nv := w.n.ValidatorByAddr(gens[r.Intn(len(gens))])
				b0, s0 := w.randomBuild(false)
				b0.By = nv
				w.n.ABI.S = s0
				hgt := w.n.Tip().Header.Height + 1
				b0.MHG = &hgt
				if !w.submit("none (valid successor casting no votes, history)", w.n.NextValid(b0), s0, true, false, true) {
					ok = false
					break
				}
				bo.By = nv
			}
			if rotated != nil {
				bo.By = rotated // the successor under test is in the slot of the validator whose key was rotated
			}
			if len(bo.Txs) < 2 && r.Bool() {
				bo.Txs = []*blockchain.Transaction{exh.MakeTx(r.U64()%100000, 3), exh.MakeTx(r.U64()%100000, 30)}
				s2 := w.randomScript(w.n.Tip().Header.Height+1, 2)
				s2.NextValidators, s2.PreCommitThreshold, s2.CertificateThreshold = s.NextValidators, s.PreCommitThreshold, s.CertificateThreshold
				s = s2
			}
			if p == *points-1 && len(s.NextValidators) == 0 && !w.noChange && len(w.n.GeneratorAddrs()) > 2 {
				// the last point of every world: a successor that changes the BFT parameters (one validator dropped)
				cur := w.n.GeneratorAddrs()
				for _, a := range cur[:len(cur)-1] {
					s.NextValidators = append(s.NextValidators, w.n.ValidatorByAddr(a).Labi())
				}
				s.PreCommitThreshold, s.CertificateThreshold = w.thresholds(s.NextValidators)
			}
			if len(s.BeforeEvents) == 0 {
				s.BeforeEvents = []*blockchain.Event{exh.MakeEvent(r.U64(), w.n.Tip().Header.Height+1, 2)}
			}
			if s.StateRoot == nil && r.Bool() {
				s.StateRoot = r.Bytes(32)
			}
			w.n.ABI.S = s
			if bo.By != nil {
				// the chosen validator may have left the generator list through an intermediate validator-set change
				still := false
				for _, a := range w.n.GeneratorAddrs() {
					still = still || bytes.Equal(a, bo.By.Addr)
				}
				if !still {
					bo.By = nil
				}
			}
			valid := w.n.NextValid(bo)
			// the unaltered successor through both entry points, then every alteration
			w.submit("none (valid successor)", cloneBlock(valid), cloneScript(s), true, true)
			w.alterations(valid, s)
			// finally extend the chain with it
			if !w.submit("none (valid successor, history)", cloneBlock(valid), s, true, false, true) {
				ok = false
			}
		}
		if !ok {
			continue
		}
		w.tieBreak(wi % 4)
	}
	// dump one JSON line for json sanity
	_ = json.Marshal
}
