package main

// Response side of the sync protocol: node A runs the real Syncer.Sync (fast sync) against peer B. Honest B = the real RPC
// handlers of a Syncer on a longer chain: A catches up, nobody is penalised. Offending B: no common block, a common block
// below A's finalized height, an invalid block in the download, a block that fails processing: A bans and disconnects B.

import (
	"context"
	"errors"
	"time"

	"github.com/LiskHQ/lisk-engine/pkg/blockchain"
	"github.com/LiskHQ/lisk-engine/pkg/codec"
	csync "github.com/LiskHQ/lisk-engine/pkg/consensus/sync"
	"github.com/LiskHQ/lisk-engine/pkg/consensus/validator"
	"github.com/LiskHQ/lisk-engine/pkg/db"
	"github.com/LiskHQ/lisk-engine/pkg/log"
	"github.com/LiskHQ/lisk-engine/pkg/p2p"
	"github.com/LiskHQ/lisk-engine/pkg/trie/rmt"
)

var syncRespScenarios = []struct {
	name      string
	malformed bool
}{
	{"resp-honest-fast-sync", false},
	{"resp-no-common-block", true},
	{"resp-common-below-finalized", true},
	{"resp-invalid-block", true},
	{"resp-block-fails-processing", true},
}

func isSyncResp(name string) bool {
	for _, s := range syncRespScenarios {
		if s.name == name {
			return true
		}
	}
	return false
}

// valid block (structurally: roots match the empty payload/assets)
func vBlock(height uint32, prev []byte, salt uint32, valid bool) *blockchain.Block {
	b := sMkBlock(height, prev, salt)
	if valid {
		b.Header.TransactionRoot = rmt.CalculateRoot([][]byte{})
		b.Header.AssetRoot = blockchain.BlockAssets{}.GetRoot()
		b.Init()
	}
	return b
}

type tchain struct {
	chain  *blockchain.Chain
	db     *db.DB
	blocks []*blockchain.Block
}

func buildChain(upto uint32, invalidAt uint32) (*tchain, error) {
	database, err := db.NewInMemoryDB()
	if err != nil {
		return nil, err
	}
	chain := blockchain.NewChain(&blockchain.ChainConfig{ChainID: []byte{0, 0, 0, 0}, MaxBlockCache: 20, KeepEventsForHeights: -1})
	genesis := vBlock(10, make([]byte, 32), 0, true)
	chain.Init(genesis, database)
	t := &tchain{chain: chain, db: database, blocks: []*blockchain.Block{genesis}}
	if err := chain.AddBlock(database.NewBatch(), genesis, nil, 0, false); err != nil {
		return nil, err
	}
	for h := uint32(11); h <= upto; h++ {
		b := vBlock(h, t.blocks[len(t.blocks)-1].Header.ID, h, h != invalidAt)
		if err := chain.AddBlock(database.NewBatch(), b, nil, 0, false); err != nil {
			return nil, err
		}
		t.blocks = append(t.blocks, b)
	}
	return t, nil
}

func runSyncResp(name string) (rec sRec) {
	rec = sRec{K: "sync", Scenario: name}
	site := "setup"
	defer func() {
		if r := recover(); r != nil {
			rec.Panic = panicText(site, r)
		}
	}()
	for _, s := range syncRespScenarios {
		if s.name == name {
			rec.Malformed = s.malformed
		}
	}
	invalidAt := uint32(0)
	if name == "resp-invalid-block" {
		invalidAt = 15
	}
	ca, err := buildChain(14, 0)
	if err != nil {
		rec.Err = "chain A: " + err.Error()
		return rec
	}
	defer ca.db.Close()
	cb, err := buildChain(16, invalidAt)
	if err != nil {
		rec.Err = "chain B: " + err.Error()
		return rec
	}
	defer cb.db.Close()

	eps := []string{csync.RPCEndpointGetLastBlock, csync.RPCEndpointGetHighestCommonBlock, csync.RPCEndpointGetBlocksFromID}
	realA, realB := map[string]p2p.RPCHandler{}, map[string]p2p.RPCHandler{}
	lazy := func(m map[string]p2p.RPCHandler, ep string) p2p.RPCHandler {
		return func(w p2p.ResponseWriter, r *p2p.Request) { m[ep](w, r) }
	}
	var ha, hb []p2p.VerifC18Handler
	for _, ep := range eps {
		ha = append(ha, p2p.VerifC18Handler{Name: ep, Handler: lazy(realA, ep)})
		hb = append(hb, p2p.VerifC18Handler{Name: ep, Handler: lazy(realB, ep)})
	}
	site = "VerifC18NewNode"
	a, err := p2p.VerifC18NewNode("/ip4/127.0.0.1/tcp/0", time.Hour, time.Hour, 0, nil, ha)
	if err != nil {
		rec.Err = "A: " + err.Error()
		return rec
	}
	defer a.Close()
	b, err := p2p.VerifC18NewNode("/ip4/127.0.0.1/tcp/0", time.Hour, time.Hour, 0, nil, hb)
	if err != nil {
		rec.Err = "B: " + err.Error()
		return rec
	}
	defer b.Close()
	logger, _ := log.NewSilentLogger()
	slot := validator.NewBlockSlot(1000, 10)
	processor := func(ctx context.Context, block *blockchain.Block, publish bool, removeTemp bool) error {
		if name == "resp-block-fails-processing" && block.Header.Height == 16 {
			return errors.New("block rejected by the state machine")
		}
		return ca.chain.AddBlock(ca.db.NewBatch(), block, nil, 0, removeTemp)
	}
	reverter := func(ctx context.Context, deleting *blockchain.Block, saveTemp bool) error {
		return ca.chain.RemoveBlock(ca.db.NewBatch(), saveTemp)
	}
	syncA := csync.NewSyncer(ca.chain, slot, a.Conn, logger, processor, reverter)
	syncB := csync.NewSyncer(cb.chain, slot, b.Conn, logger, nil, nil)
	realA[eps[0]], realA[eps[1]], realA[eps[2]] = syncA.HandleRPCEndpointGetLastBlock(), syncA.HandleRPCEndpointGetHighestCommonBlock(), syncA.HandleRPCEndpointGetBlocksFromID()
	realB[eps[0]], realB[eps[1]], realB[eps[2]] = syncB.HandleRPCEndpointGetLastBlock(), syncB.HandleRPCEndpointGetHighestCommonBlock(), syncB.HandleRPCEndpointGetBlocksFromID()
	finalized := ca.blocks[0].Header
	switch name {
	case "resp-no-common-block":
		realB[eps[1]] = func(w p2p.ResponseWriter, r *p2p.Request) { w.Write(nil) }
	case "resp-common-below-finalized":
		finalized = ca.blocks[2].Header // height 12
		realB[eps[1]] = func(w p2p.ResponseWriter, r *p2p.Request) {
			w.Write((&csync.GetHighestCommonBlockResponse{ID: cb.blocks[0].Header.ID}).Encode())
		}
	}

	site = "Connect(A->B)"
	cctx, ccancel := context.WithTimeout(context.Background(), scaled(3*time.Second))
	err = a.Connect(cctx, b)
	ccancel()
	if err != nil {
		rec.Err = "connect: " + err.Error()
		return rec
	}
	obs := &rec.Obs
	obs.ConnectedBefore = poll(time.Second, func() bool { return a.IsConnected(b.ID()) })

	site = "Syncer.Sync"
	tip := cb.blocks[len(cb.blocks)-1]
	sctx, scancel := context.WithTimeout(context.Background(), scaled(12*time.Second))
	defer scancel()
	done := make(chan error, 1)
	go func() {
		defer func() {
			if r := recover(); r != nil {
				done <- errors.New("panic: " + panicText("Syncer.Sync", r))
			}
		}()
		done <- syncA.Sync(&csync.SyncContext{Ctx: sctx, Block: tip, FinalizedBlockHeader: finalized, PeerID: b.ID(),
			CurrentValidators: []codec.Lisk32{tip.Header.GeneratorAddress}})
	}()
	obs.Requests = 1
	select {
	case err := <-done:
		if err == nil && ca.chain.LastBlock().Header.Height == 16 {
			obs.RepliesOK = 1 // caught up with the peer
		}
		if err != nil {
			obs.LastErr = "other: " + err.Error()
			if len(obs.LastErr) > 90 {
				obs.LastErr = obs.LastErr[:90]
			}
		}
	case <-time.After(scaled(15 * time.Second)):
		obs.LastErr = "hang"
	}
	site = "observe"
	if rec.Malformed {
		obs.BannedAfter = poll(2*time.Second, func() bool { return contains(a.Banned(), "127.0.0.1") })
		obs.ConnectedAfter = !poll(2*time.Second, func() bool { return !a.IsConnected(b.ID()) })
	} else {
		time.Sleep(150 * time.Millisecond)
		obs.BannedAfter = contains(a.Banned(), "127.0.0.1")
		obs.ConnectedAfter = a.IsConnected(b.ID())
	}
	obs.ScoreAfter = -1
	if s, _, ok := a.Score("127.0.0.1"); ok {
		obs.ScoreAfter = s
	}
	return rec
}
