// C18 correspondence driver: drives the real connection gater, peer penalties and RPC rate limiter of
// /repo/pkg/p2p through the verif hook exports (export_c18_verif.go) and writes one JSONL record per case
// (inputs + the implementation's observations). Three kinds of records: "gater", "limiter", "hosts".
package main

import (
	"encoding/json"
	"flag"
	"fmt"
	"os"
	"strings"
	"sync"
	"time"

	"verifharness/internal/hx"
)

// fixed valid peer id used in the /p2p/ part of gater multiaddrs
const fixedPeerID = "QmYyQSo1c1Ym7orWxLYvCrM2EmxFTANf8wXmmE7DWjhx5N"

func panicText(site string, r interface{}) string {
	return site + ": " + strings.SplitN(fmt.Sprint(r), "\n", 2)[0]
}

func main() {
	out := flag.String("out", "", "output JSONL (required)")
	nG := flag.Int("gaters", 24, "number of gater scripts")
	nL := flag.Int("limiters", 12, "number of limiter scripts")
	doHosts := flag.Bool("hosts", true, "run the loopback host scenarios")
	nConc := flag.Int("conc", 0, "concurrency tier: number of gater and limiter records driven by several goroutines at once (use a -race build)")
	doSync := flag.Bool("sync", true, "run the sync RPC handler scenarios (pkg/consensus/sync handlers on a loopback node)")
	in := flag.String("in", "", "replay: JSONL of records previously produced; re-executes the same scripts/scenarios")
	flag.Parse()
	if *out == "" {
		fmt.Fprintln(os.Stderr, "c18: -out is required")
		os.Exit(2)
	}
	time.AfterFunc(600*time.Second, func() {
		fmt.Fprintln(os.Stderr, "c18: watchdog: 600 s exceeded, aborting")
		os.Exit(3)
	})
	// the "silent" logger of the code under test still prints error-level lines (with stack traces) on stdout;
	// this driver writes nothing on stdout itself, so drop them
	if devnull, err := os.OpenFile(os.DevNull, os.O_WRONLY, 0); err == nil {
		os.Stdout = devnull
	}
	checkIPTable()
	loadScale = calibrate()

	r := hx.NewRng(hx.SeedFromEnv()) // the only randomness source; all scripts are generated before anything runs
	var gs []gScript
	var ls []lScript
	var hs []string
	ip6, ip6Probed := false, false
	var ss []string
	var ts []string

	if *in != "" {
		data, err := os.ReadFile(*in)
		if err != nil {
			panic(err)
		}
		for _, line := range strings.Split(string(data), "\n") {
			if strings.TrimSpace(line) == "" {
				continue
			}
			var head struct {
				K string `json:"k"`
			}
			if err := json.Unmarshal([]byte(line), &head); err != nil {
				panic(err)
			}
			switch head.K {
			case "gater":
				gs = append(gs, parseGater([]byte(line)))
			case "limiter":
				ls = append(ls, parseLimiter([]byte(line), r))
			case "hosts":
				var h struct {
					Scenario string `json:"scenario"`
				}
				if err := json.Unmarshal([]byte(line), &h); err != nil {
					panic(err)
				}
				hs = append(hs, h.Scenario)
			case "twoips":
				var h struct {
					Scenario string `json:"scenario"`
				}
				if err := json.Unmarshal([]byte(line), &h); err != nil {
					panic(err)
				}
				ts = append(ts, h.Scenario)
			case "sync":
				var h struct {
					Scenario string `json:"scenario"`
				}
				if err := json.Unmarshal([]byte(line), &h); err != nil {
					panic(err)
				}
				ss = append(ss, h.Scenario)
			}
		}
	} else {
		for i := 0; i < *nG; i++ {
			gs = append(gs, genGater(r, i))
		}
		for i := 0; i < *nL; i++ {
			ls = append(ls, genLimiter(r, i))
		}
		if *doHosts {
			hs = append(hs, hostScenarios...)
			for try := 0; try < 3 && !ip6; try++ {
				ip6 = ip6LoopbackWorks()
			}
			ip6Probed = true
			if ip6 {
				hs = append(hs, "malformed_request_ip6", "blacklisted_ip6_long")
				ts = append(ts, twoIPScenarios...)
			}
		}
		if *doSync {
			ss = append(ss, syncScenarioNames()...)
		}
	}

	o := hx.NewOut(*out)
	defer o.Close()
	if ip6Probed {
		// environment record: whether the IPv6 loopback scenarios (two hosts on ::1, one identity on 127.0.0.1 and ::1) could run
		o.Put(map[string]interface{}{"k": "env", "ip6": ip6, "scale": loadScale})
	}

	for i := 0; i < *nConc; i++ {
		o.Put(runConcGater(r, i))
		o.Put(runConcLimiter(r, i))
	}
	// phase 1: gater and limiter scripts, all concurrently (they mostly sleep)
	gOut := make([]gRec, len(gs))
	lOut := make([]lRec, len(ls))
	var wg sync.WaitGroup
	for i := range gs {
		wg.Add(1)
		go func(i int) {
			defer wg.Done()
			gOut[i] = runGater(gs[i])
		}(i)
	}
	for i := range ls {
		wg.Add(1)
		go func(i int) {
			defer wg.Done()
			lOut[i] = runLimiter(ls[i])
		}(i)
	}
	wg.Wait()
	for _, rec := range gOut {
		o.Put(rec)
	}
	for _, rec := range lOut {
		o.Put(rec)
	}

	// phase 2: loopback host scenarios, concurrently (fresh nodes per scenario)
	hOut := make([]hRec, len(hs))
	for i := range hs {
		wg.Add(1)
		go func(i int) {
			defer wg.Done()
			hOut[i] = runHosts(hs[i])
		}(i)
	}
	tOut := make([]tRec, len(ts))
	for i := range ts {
		wg.Add(1)
		go func(i int) {
			defer wg.Done()
			tOut[i] = runTwoIPs(ts[i])
		}(i)
	}
	sOut := make([]sRec, len(ss))
	for i := range ss {
		wg.Add(1)
		go func(i int) {
			defer wg.Done()
			sOut[i] = runSync(ss[i])
		}(i)
	}
	wg.Wait()
	for _, rec := range hOut {
		o.Put(rec)
	}
	for _, rec := range tOut {
		o.Put(rec)
	}
	for _, rec := range sOut {
		o.Put(rec)
	}
}
