package main

// "sync" records: the real RPC handlers of pkg/consensus/sync (getLastBlock, getHighestCommonBlock, getBlocksFromId) are
// registered on a loopback node A whose Connection is the one the Syncer bans through; a second node B sends malformed and
// well-formed requests over the wire (or the handler is invoked directly with r.Data == nil, which cannot be produced through
// the codec). Observation: did B get a response, is B's IP banned at A, is B still connected, score of the IP.

import (
	"context"
	"time"

	"github.com/LiskHQ/lisk-engine/pkg/blockchain"
	csync "github.com/LiskHQ/lisk-engine/pkg/consensus/sync"
	"github.com/LiskHQ/lisk-engine/pkg/consensus/validator"
	"github.com/LiskHQ/lisk-engine/pkg/db"
	"github.com/LiskHQ/lisk-engine/pkg/log"
	"github.com/LiskHQ/lisk-engine/pkg/p2p"
)

type sObs struct {
	ConnectedBefore bool   `json:"connected_before"`
	Requests        int    `json:"requests"`   // requests sent (well-formed scenarios repeat)
	RepliesOK       int    `json:"replies_ok"` // responses that arrived (with or without an application error)
	LastErr         string `json:"last_err"`
	BannedAfter     bool   `json:"banned_after"`
	ConnectedAfter  bool   `json:"connected_after"`
	ScoreAfter      int    `json:"score_after"` // -1: no entry
}

type sRec struct {
	K         string `json:"k"`
	Scenario  string `json:"scenario"`
	Malformed bool   `json:"malformed"`
	Direct    bool   `json:"direct"` // handler invoked directly (not over the wire)
	Obs       sObs   `json:"obs"`
	Panic     string `json:"panic,omitempty"`
	Err       string `json:"err,omitempty"`
}

type syncScenario struct {
	name      string
	endpoint  string
	malformed bool
	direct    bool
	repeat    int
	data      func(blocks []*blockchain.Block) []byte
}

func sMkBlock(height uint32, prev []byte, salt uint32) *blockchain.Block {
	z := make([]byte, 32)
	h := &blockchain.BlockHeader{
		Version: 2, Height: height, Timestamp: 1000 + salt, PreviousBlockID: prev, GeneratorAddress: make([]byte, 20),
		TransactionRoot: z, AssetRoot: z, EventRoot: z, StateRoot: z, ValidatorsHash: z,
		AggregateCommit: &blockchain.AggregateCommit{Height: 0, AggregationBits: []byte{}, CertificateSignature: []byte{}},
		Signature:       make([]byte, 64),
	}
	b := &blockchain.Block{Header: h, Assets: blockchain.BlockAssets{}, Transactions: []*blockchain.Transaction{}}
	b.Init()
	return b
}

func foreign32(x byte) []byte {
	a := make([]byte, 32)
	a[0], a[31] = 0xfe, x
	return a
}

var syncScenarios = []syncScenario{
	// malformed requests: every guard of the two handlers
	{"hcb-nil-direct", csync.RPCEndpointGetHighestCommonBlock, true, true, 1, func([]*blockchain.Block) []byte { return nil }},
	{"hcb-empty-payload", csync.RPCEndpointGetHighestCommonBlock, true, false, 1, func([]*blockchain.Block) []byte { return nil }},
	{"hcb-garbage", csync.RPCEndpointGetHighestCommonBlock, true, false, 1, func([]*blockchain.Block) []byte { return []byte{0xff, 0xff, 0xff} }},
	{"hcb-no-ids", csync.RPCEndpointGetHighestCommonBlock, true, false, 1, func([]*blockchain.Block) []byte {
		return (&csync.GetHighestCommonBlockRequest{IDs: [][]byte{}}).Encode()
	}},
	{"hcb-short-id", csync.RPCEndpointGetHighestCommonBlock, true, false, 1, func(bs []*blockchain.Block) []byte {
		return (&csync.GetHighestCommonBlockRequest{IDs: [][]byte{bs[1].Header.ID, make([]byte, 31)}}).Encode()
	}},
	{"hcb-long-bad-tail", csync.RPCEndpointGetHighestCommonBlock, true, false, 1, func(bs []*blockchain.Block) []byte {
		// 130 IDs, all 32 bytes except the one at index 117: malformed wherever the bad ID sits
		ids := [][]byte{}
		for i := 0; i < 130; i++ {
			if i == 117 {
				ids = append(ids, make([]byte, 31))
			} else {
				ids = append(ids, foreign32(byte(i)))
			}
		}
		return (&csync.GetHighestCommonBlockRequest{IDs: ids}).Encode()
	}},
	{"bfi-nil-direct", csync.RPCEndpointGetBlocksFromID, true, true, 1, func([]*blockchain.Block) []byte { return nil }},
	{"bfi-garbage", csync.RPCEndpointGetBlocksFromID, true, false, 1, func([]*blockchain.Block) []byte { return []byte{0xff, 0xff, 0xff} }},
	{"bfi-short-id", csync.RPCEndpointGetBlocksFromID, true, false, 1, func([]*blockchain.Block) []byte {
		return (&csync.GetBlocksFromIDRequest{ID: make([]byte, 31)}).Encode()
	}},
	{"bfi-long-id", csync.RPCEndpointGetBlocksFromID, true, false, 1, func([]*blockchain.Block) []byte {
		return (&csync.GetBlocksFromIDRequest{ID: make([]byte, 33)}).Encode()
	}},
	// well-formed requests: never a penalty, whatever the answer is
	{"last", csync.RPCEndpointGetLastBlock, false, false, 8, func([]*blockchain.Block) []byte { return nil }},
	{"hcb-known", csync.RPCEndpointGetHighestCommonBlock, false, false, 8, func(bs []*blockchain.Block) []byte {
		return (&csync.GetHighestCommonBlockRequest{IDs: [][]byte{bs[0].Header.ID, bs[2].Header.ID}}).Encode()
	}},
	{"hcb-long-valid", csync.RPCEndpointGetHighestCommonBlock, false, false, 4, func(bs []*blockchain.Block) []byte {
		ids := [][]byte{bs[1].Header.ID}
		for i := 0; i < 129; i++ {
			ids = append(ids, foreign32(byte(i)))
		}
		return (&csync.GetHighestCommonBlockRequest{IDs: ids}).Encode()
	}},
	{"hcb-unknown", csync.RPCEndpointGetHighestCommonBlock, false, false, 8, func([]*blockchain.Block) []byte {
		return (&csync.GetHighestCommonBlockRequest{IDs: [][]byte{foreign32(1), foreign32(2)}}).Encode()
	}},
	{"hcb-mixed", csync.RPCEndpointGetHighestCommonBlock, false, false, 8, func(bs []*blockchain.Block) []byte {
		return (&csync.GetHighestCommonBlockRequest{IDs: [][]byte{foreign32(3), bs[1].Header.ID}}).Encode()
	}},
	{"bfi-known", csync.RPCEndpointGetBlocksFromID, false, false, 8, func(bs []*blockchain.Block) []byte {
		return (&csync.GetBlocksFromIDRequest{ID: bs[0].Header.ID}).Encode()
	}},
	{"bfi-tip", csync.RPCEndpointGetBlocksFromID, false, false, 8, func(bs []*blockchain.Block) []byte {
		return (&csync.GetBlocksFromIDRequest{ID: bs[len(bs)-1].Header.ID}).Encode()
	}},
	{"bfi-unknown", csync.RPCEndpointGetBlocksFromID, false, false, 8, func([]*blockchain.Block) []byte {
		return (&csync.GetBlocksFromIDRequest{ID: foreign32(4)}).Encode()
	}},
}

func syncScenarioNames() []string {
	out := []string{}
	for _, s := range syncScenarios {
		out = append(out, s.name)
	}
	for _, s := range syncRespScenarios {
		out = append(out, s.name)
	}
	return out
}

type nullWriter struct{}

func (nullWriter) Write([]byte) {}
func (nullWriter) Error(error)  {}

func runSync(name string) (rec sRec) {
	if isSyncResp(name) {
		return runSyncResp(name)
	}
	rec = sRec{K: "sync", Scenario: name}
	site := "setup"
	defer func() {
		if r := recover(); r != nil {
			rec.Panic = panicText(site, r)
		}
	}()
	var sc *syncScenario
	for i := range syncScenarios {
		if syncScenarios[i].name == name {
			sc = &syncScenarios[i]
		}
	}
	if sc == nil {
		rec.Err = "unknown scenario"
		return rec
	}
	rec.Malformed, rec.Direct = sc.malformed, sc.direct

	// responder chain: genesis + 4 blocks on an in-memory database
	database, err := db.NewInMemoryDB()
	if err != nil {
		rec.Err = "db: " + err.Error()
		return rec
	}
	defer database.Close()
	chain := blockchain.NewChain(&blockchain.ChainConfig{ChainID: []byte{0, 0, 0, 0}, MaxBlockCache: 10, KeepEventsForHeights: -1})
	genesis := sMkBlock(10, make([]byte, 32), 0)
	chain.Init(genesis, database)
	blocks := []*blockchain.Block{genesis}
	site = "AddBlock"
	if err := chain.AddBlock(database.NewBatch(), genesis, nil, 0, false); err != nil {
		rec.Err = "add genesis: " + err.Error()
		return rec
	}
	for i := uint32(1); i <= 4; i++ {
		b := sMkBlock(10+i, blocks[len(blocks)-1].Header.ID, i)
		if err := chain.AddBlock(database.NewBatch(), b, nil, 0, false); err != nil {
			rec.Err = "add block: " + err.Error()
			return rec
		}
		blocks = append(blocks, b)
	}
	// node A with lazily bound real handlers (the Syncer needs A's Connection, which exists only after the node is built)
	real := map[string]p2p.RPCHandler{}
	lazy := func(ep string) p2p.RPCHandler {
		return func(w p2p.ResponseWriter, r *p2p.Request) { real[ep](w, r) }
	}
	eps := []string{csync.RPCEndpointGetLastBlock, csync.RPCEndpointGetHighestCommonBlock, csync.RPCEndpointGetBlocksFromID}
	var ha, hb []p2p.VerifC18Handler
	for _, ep := range eps {
		ha = append(ha, p2p.VerifC18Handler{Name: ep, Handler: lazy(ep)})
		hb = append(hb, p2p.VerifC18Handler{Name: ep, Reply: []byte("unused")})
	}
	site = "VerifC18NewNode(A)"
	a, err := p2p.VerifC18NewNode("/ip4/127.0.0.1/tcp/0", time.Hour, time.Hour, 0, nil, ha)
	if err != nil {
		rec.Err = "A: " + err.Error()
		return rec
	}
	defer a.Close()
	logger, _ := log.NewSilentLogger()
	syncer := csync.NewSyncer(chain, validator.NewBlockSlot(1000, 10), a.Conn, logger, nil, nil)
	real[csync.RPCEndpointGetLastBlock] = syncer.HandleRPCEndpointGetLastBlock()
	real[csync.RPCEndpointGetHighestCommonBlock] = syncer.HandleRPCEndpointGetHighestCommonBlock()
	real[csync.RPCEndpointGetBlocksFromID] = syncer.HandleRPCEndpointGetBlocksFromID()
	site = "VerifC18NewNode(B)"
	b, err := p2p.VerifC18NewNode("/ip4/127.0.0.1/tcp/0", time.Hour, time.Hour, 0, nil, hb)
	if err != nil {
		rec.Err = "B: " + err.Error()
		return rec
	}
	defer b.Close()
	site = "Connect(B->A)"
	cctx, ccancel := context.WithTimeout(context.Background(), scaled(3*time.Second))
	err = b.Connect(cctx, a)
	ccancel()
	if err != nil {
		rec.Err = "connect: " + err.Error()
		return rec
	}
	obs := &rec.Obs
	obs.ConnectedBefore = poll(time.Second, func() bool { return a.IsConnected(b.ID()) })

	site = "request"
	data := sc.data(blocks)
	for i := 0; i < sc.repeat; i++ {
		obs.Requests++
		if sc.direct {
			real[sc.endpoint](nullWriter{}, &p2p.Request{ID: "direct", Procedure: sc.endpoint, Data: nil, PeerID: b.ID()})
			continue
		}
		ctx, cancel := context.WithTimeout(context.Background(), scaled(2*time.Second))
		_, err := b.Request(ctx, a.ID(), sc.endpoint, data, scaled(800*time.Millisecond))
		cancel()
		obs.LastErr = errStr(err)
		if err == nil || (len(obs.LastErr) > 6 && obs.LastErr[:6] == "other:") {
			obs.RepliesOK++ // a response arrived (possibly carrying an application error)
		}
	}
	site = "observe"
	if sc.malformed {
		obs.BannedAfter = poll(2*time.Second, func() bool { return contains(a.Banned(), "127.0.0.1") })
		obs.ConnectedAfter = !poll(2*time.Second, func() bool { return !a.IsConnected(b.ID()) })
	} else {
		time.Sleep(150 * time.Millisecond)
		obs.BannedAfter = contains(a.Banned(), "127.0.0.1")
		obs.ConnectedAfter = a.IsConnected(b.ID())
	}
	obs.ScoreAfter = -1
	if s, _, ok := a.Score("127.0.0.1"); ok {
		obs.ScoreAfter = s
	}
	return rec
}
