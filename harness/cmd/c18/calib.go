package main

import "time"

// loadScale >= 1 is measured once at start: how much later than asked a sleeping goroutine wakes up, and how much slower a fixed
// CPU loop runs, on this machine right now. Every real-time margin of the driver that is not fixed by the code under test
// (poll durations, dial and request timeouts, tick waits) is multiplied by it.
var loadScale = 1.0

func calibrate() float64 {
	worst := time.Duration(0)
	for i := 0; i < 40; i++ {
		t0 := time.Now()
		time.Sleep(2 * time.Millisecond)
		if ov := time.Since(t0) - 2*time.Millisecond; ov > worst {
			worst = ov
		}
	}
	t0 := time.Now()
	x := 0
	for i := 0; i < 30_000_000; i++ {
		x += i & 3
	}
	cpu := time.Since(t0)
	_ = x
	s := 1.0 + float64(worst)/float64(3*time.Millisecond)
	if c := float64(cpu) / float64(25*time.Millisecond); c > s {
		s = c
	}
	if s < 1 {
		s = 1
	}
	if s > 12 {
		s = 12
	}
	return s
}

func scaled(d time.Duration) time.Duration { return time.Duration(float64(d) * loadScale) }

// banWindow is the ban duration the observing node of a host scenario is configured with: 1 s on a quiet machine, whole seconds
// more under load, so that the refusal checks (polls, dials) still fall inside the ban.
func banWindow() time.Duration {
	n := int(loadScale + 0.999)
	if n < 1 {
		n = 1
	}
	return time.Duration(n) * time.Second
}
