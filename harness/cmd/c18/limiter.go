package main

import (
	"bytes"
	"encoding/json"
	"fmt"
	"net"
	"time"

	"github.com/libp2p/go-libp2p/core/crypto"
	"github.com/libp2p/go-libp2p/core/peer"

	"github.com/LiskHQ/lisk-engine/pkg/p2p"

	"verifharness/internal/hx"
)

const limiterInterval = 400 * time.Millisecond

type lProc struct {
	Limit   int `json:"limit"`
	Penalty int `json:"penalty"`
}

type lPeer struct {
	IP   string `json:"ip"`   // canonical
	Addr string `json:"addr"` // remote multiaddr handed to LimiterMessage
	ID   string `json:"id"`   // fake peer id
}

type lIn struct {
	Op          string `json:"op"`
	Proc        int    `json:"proc"`
	Peer        int    `json:"peer"`
	Held        bool   `json:"held"`        // replay of a recorded held reset
	HeldProc    int    `json:"held_proc"`   //
	Spontaneous bool   `json:"spontaneous"` // recorded artefact: not replayed
}

type lScript struct {
	ID    int
	Procs []lProc
	Peers []lPeer
	Steps []lIn
}

type lMsg struct {
	Op           string `json:"op"`
	Proc         int    `json:"proc"`
	Peer         int    `json:"peer"`
	Now          int64  `json:"now"` // unix second read just before the call (not inside a safe window)
	Err          string `json:"err"`
	CounterAfter int    `json:"counter_after"`
	ScoreAfter   int    `json:"score_after"`
	ExpAfter     int64  `json:"exp_after"`
	HasEntry     bool   `json:"has_entry"`
	// the sentinel counter of this procedure was reset by this message although no tick happened (other procedures untouched)
	SentinelWiped bool `json:"sentinel_wiped,omitempty"`
}

type lReset struct {
	Op          string `json:"op"`
	Observed    bool   `json:"observed"`              // the sentinel counters of all procedures were seen dropping to 0
	Spontaneous bool   `json:"spontaneous,omitempty"` // not a scripted reset: a tick was detected in the middle of a burst
	Timeout     bool   `json:"timeout,omitempty"`
	Held        bool   `json:"held,omitempty"`      // the counter mutex of procedure HeldProc was held (by the harness) across this tick
	HeldProc    int    `json:"held_proc,omitempty"` //
}

type lRec struct {
	K         string        `json:"k"`
	ID        int           `json:"id"`
	Procs     []lProc       `json:"procs"`
	Peers     []lPeer       `json:"peers"`
	Steps     []interface{} `json:"steps"`
	Truncated bool          `json:"truncated,omitempty"` // the script was cut at a message whose interval was ambiguous
	Panic     string        `json:"panic,omitempty"`
	Err       string        `json:"err,omitempty"`
}

// fixed valid peer id of the sentinel peer (never appears in a record)
const sentinelPeerID = fixedPeerID

func procName(i int) string { return fmt.Sprintf("p%d", i) }

func fakePeerID(r *hx.Rng) string {
	priv, _, err := crypto.GenerateEd25519Key(bytes.NewReader(r.Bytes(64)))
	if err != nil {
		panic(err)
	}
	id, err := peer.IDFromPublicKey(priv.GetPublic())
	if err != nil {
		panic(err)
	}
	return id.String()
}

func runLimiter(sc lScript) (rec lRec) {
	rec = lRec{K: "limiter", ID: sc.ID, Procs: sc.Procs, Peers: sc.Peers, Steps: []interface{}{}}
	site := "VerifC18NewNode"
	defer func() {
		if r := recover(); r != nil {
			rec.Panic = panicText(site, r)
		}
	}()
	pids := make([]peer.ID, len(sc.Peers))
	for i, p := range sc.Peers {
		id, err := peer.Decode(p.ID)
		if err != nil {
			rec.Err = err.Error()
			return rec
		}
		pids[i] = id
	}
	hs := []p2p.VerifC18Handler{}
	for i, p := range sc.Procs {
		hs = append(hs, p2p.VerifC18Handler{Name: procName(i), Reply: []byte("ok"), Limit: p.Limit, Penalty: p.Penalty})
	}
	n, err := p2p.VerifC18NewNode("/ip4/127.0.0.1/tcp/0", time.Hour, time.Hour, limiterInterval, nil, hs)
	if err != nil {
		rec.Err = err.Error()
		return rec
	}
	defer n.Close()
	// Tick detection without timing assumptions: a sentinel peer (own peer ID and IP, not part of the record) sends ONE
	// message per procedure right after every reset. rateLimiterHandler replaces the counter map of a procedure under that
	// procedure's mutex, so "sentinel counter of procedure p is still 1" == "no reset of p since the last bump". A recorded
	// message is kept only if the sentinel of its procedure is alive both before and after it; a tick in between is
	// recorded as a (spontaneous) reset step, an ambiguous message ends the script (the prefix stays valid).
	sentinel, err := peer.Decode(sentinelPeerID)
	if err != nil {
		rec.Err = err.Error()
		return rec
	}
	sentinelAddr := fmt.Sprintf("/ip4/10.254.%d.%d/tcp/4001", (sc.ID/250)%250, sc.ID%250+1)
	bump := func() {
		site = "LimiterMessage(sentinel)"
		for pi := range sc.Procs {
			_ = n.LimiterMessage(procName(pi), sentinel, sentinelAddr)
		}
	}
	alive := func(pi int) bool {
		site = "LimiterCounter(sentinel)"
		return n.LimiterCounter(procName(pi), sentinel) >= 1
	}
	allDead := func() bool {
		for pi := range sc.Procs {
			if alive(pi) {
				return false
			}
		}
		return true
	}
	waitReset := func() bool {
		deadline := time.Now().Add(scaled(3 * time.Second))
		for time.Now().Before(deadline) {
			if allDead() {
				return true
			}
			time.Sleep(2 * time.Millisecond)
		}
		return false
	}
	bump()
	lastReset := time.Now()

	for _, st := range sc.Steps {
		switch st.Op {
		case "msg":
			if !alive(st.Proc) {
				// a tick has happened since the last bump: make it explicit
				ok := waitReset()
				rec.Steps = append(rec.Steps, lReset{Op: "reset", Observed: ok, Spontaneous: true, Timeout: !ok})
				if !ok {
					return rec
				}
				bump()
				if !alive(st.Proc) {
					rec.Truncated = true
					return rec
				}
			}
			now := time.Now().Unix()
			site = "LimiterMessage"
			err := n.LimiterMessage(procName(st.Proc), pids[st.Peer], sc.Peers[st.Peer].Addr)
			site = "LimiterCounter"
			c := n.LimiterCounter(procName(st.Proc), pids[st.Peer])
			site = "Score"
			score, exp, ok := n.Score(sc.Peers[st.Peer].IP)
			wiped := false
			if !alive(st.Proc) {
				// The sentinel of this procedure died around the message. A real tick resets EVERY procedure (within
				// microseconds); if the sentinels of the other procedures stay alive, the counters of this procedure were
				// wiped by the message itself (not by the ticker): keep the message, note it, and re-arm the sentinel.
				tick := false
				deadline := time.Now().Add(scaled(40 * time.Millisecond))
				for time.Now().Before(deadline) {
					if allDead() {
						tick = true
						break
					}
					time.Sleep(time.Millisecond)
				}
				if tick || len(sc.Procs) < 2 {
					// the reset fell somewhere around the message: ambiguous, stop here
					rec.Truncated = true
					return rec
				}
				wiped = true
				_ = n.LimiterMessage(procName(st.Proc), sentinel, sentinelAddr)
			}
			e := ""
			if err != nil {
				e = err.Error()
			}
			rec.Steps = append(rec.Steps, lMsg{Op: "msg", Proc: st.Proc, Peer: st.Peer, Now: now, Err: e, CounterAfter: c,
				ScoreAfter: score, ExpAfter: exp, HasEntry: ok, SentinelWiped: wiped})
		case "reset":
			ok := waitReset()
			rec.Steps = append(rec.Steps, lReset{Op: "reset", Observed: ok, Timeout: !ok})
			if !ok {
				return rec
			}
			lastReset = time.Now()
			bump()
		case "heldreset":
			// The counter mutex of st.Proc is held across the next tick (checkLimit descheduled while it penalises somebody:
			// slow log, slow Disconnect). The tick itself is observed through the sentinel of another procedure.
			other := (st.Proc + 1) % len(sc.Procs)
			if len(sc.Procs) < 2 || time.Since(lastReset) > 240*time.Millisecond || !alive(other) || !alive(st.Proc) {
				// too late for this interval: fall back to a plain observed reset
				ok := waitReset()
				rec.Steps = append(rec.Steps, lReset{Op: "reset", Observed: ok, Timeout: !ok})
				if !ok {
					return rec
				}
				lastReset = time.Now()
				bump()
				continue
			}
			time.Sleep(time.Until(lastReset.Add(250 * time.Millisecond)))
			released := make(chan struct{})
			go func() {
				site = "HoldLimiterLock"
				n.HoldLimiterLock(procName(st.Proc), 300*time.Millisecond)
				close(released)
			}()
			tick := false
			deadline := time.Now().Add(scaled(1500 * time.Millisecond))
			for time.Now().Before(deadline) {
				if !alive(other) {
					tick = true
					break
				}
				time.Sleep(2 * time.Millisecond)
			}
			tickAt := time.Now()
			<-released
			time.Sleep(30 * time.Millisecond)
			rec.Steps = append(rec.Steps, lReset{Op: "reset", Observed: tick, Held: true, HeldProc: st.Proc, Timeout: !tick})
			if !tick {
				return rec
			}
			lastReset = tickAt
			bump()
		}
	}
	return rec
}

func parseLimiter(line []byte, r *hx.Rng) lScript {
	var raw struct {
		ID    int     `json:"id"`
		Procs []lProc `json:"procs"`
		Peers []lPeer `json:"peers"`
		Steps []lIn   `json:"steps"`
	}
	if err := json.Unmarshal(line, &raw); err != nil {
		panic(err)
	}
	sc := lScript{ID: raw.ID, Procs: raw.Procs, Peers: raw.Peers}
	for i := range sc.Peers {
		if sc.Peers[i].ID == "" {
			sc.Peers[i].ID = fakePeerID(r)
		}
		if sc.Peers[i].Addr == "" {
			sc.Peers[i].Addr = maddr(sc.Peers[i].IP)
		}
	}
	for _, st := range raw.Steps {
		switch {
		case st.Op == "reset" && st.Spontaneous:
		case st.Op == "reset" && st.Held:
			sc.Steps = append(sc.Steps, lIn{Op: "heldreset", Proc: st.HeldProc})
		case st.Op == "msg" || st.Op == "reset":
			sc.Steps = append(sc.Steps, lIn{Op: st.Op, Proc: st.Proc, Peer: st.Peer})
		}
	}
	return sc
}

func genLimiter(r *hx.Rng, id int) lScript {
	sc := lScript{ID: id}
	pens := []int{10, 30, 50, 100}
	for i := 0; i < 2; i++ {
		sc.Procs = append(sc.Procs, lProc{Limit: 2 + r.Intn(5), Penalty: pens[r.Intn(len(pens))]})
	}
	if id%3 == 0 { // make a ban reachable
		sc.Procs[0] = lProc{Limit: 2 + r.Intn(2), Penalty: []int{50, 100}[r.Intn(2)]}
	}
	np := 2 + r.Intn(2)
	for q := 0; q < np; q++ {
		ip := fmt.Sprintf("10.1.%d.%d", id%250, q+1)
		if q == np-1 && id%2 == 1 {
			ip = fmt.Sprintf("fd00::%x:%x", id+1, q+1)
		}
		if q == 1 && id%6 == 4 {
			ip = sc.Peers[0].IP // two peer ids behind one IP: counters are per peer id, scores per IP
		}
		ip = net.ParseIP(ip).String()
		sc.Peers = append(sc.Peers, lPeer{IP: ip, Addr: maddr(ip), ID: fakePeerID(r)})
	}
	msg := func(pi, qi, n int) []lIn {
		out := []lIn{}
		for c := 0; c < n; c++ {
			out = append(out, lIn{Op: "msg", Proc: pi, Peer: qi})
		}
		return out
	}
	if id%4 == 1 {
		// interleaved peers on ONE procedure inside one interval: B goes up to the limit, A trips the limiter, B goes on:
		// B's (limit+1)-th message must be penalised although A was penalised in between; the other procedure is independent
		L0, L1 := sc.Procs[0].Limit, sc.Procs[1].Limit
		a, b := 0, 1
		var st []lIn
		st = append(st, msg(0, b, L0)...)
		st = append(st, msg(0, a, L0+1)...)
		st = append(st, msg(0, b, 1)...)
		st = append(st, lIn{Op: "reset"})
		st = append(st, msg(0, b, L0-1)...)
		st = append(st, msg(1, b, L1)...)
		st = append(st, msg(0, a, L0+1)...)
		st = append(st, msg(1, a, L1+1)...)
		st = append(st, msg(0, b, 2)...)
		st = append(st, msg(1, b, 1)...)
		st = append(st, lIn{Op: "reset"})
		if np > 2 {
			st = append(st, msg(0, 2, L0)...)
			st = append(st, msg(0, a, L0+1)...)
			st = append(st, msg(0, b, L0+1)...)
			st = append(st, msg(0, 2, 1)...)
			st = append(st, lIn{Op: "reset"})
		}
		sc.Steps = append(sc.Steps, st...)
	}
	if id%4 == 3 {
		// legal traffic over intervals whose tick meets a held counter mutex: Y never exceeds the limit within an interval and must
		// never be penalised
		L0, L1 := sc.Procs[0].Limit, sc.Procs[1].Limit
		y := 1
		st := []lIn{{Op: "reset"}}
		st = append(st, msg(0, y, L0)...)
		st = append(st, lIn{Op: "heldreset", Proc: 0})
		st = append(st, msg(0, y, L0)...)
		st = append(st, msg(1, y, L1)...)
		st = append(st, lIn{Op: "heldreset", Proc: 1})
		st = append(st, msg(1, y, L1)...)
		st = append(st, msg(0, y, 1)...)
		st = append(st, lIn{Op: "reset"})
		sc.Steps = append(sc.Steps, st...)
	}
	intervals := 4 + r.Intn(4)
	if id%4 == 1 || id%4 == 3 {
		intervals = 2
	}
	for it := 0; it < intervals; it++ {
		budget := 12
		var burst []lIn
		for k := 1 + r.Intn(3); k > 0 && budget > 0; k-- {
			pi, qi := r.Intn(2), r.Intn(np)
			if it < 3 && k == 1 && id%3 == 0 {
				pi, qi = 0, 0 // keep hammering the same (proc, peer) so that the score accumulates
			}
			L := sc.Procs[pi].Limit
			cnt := []int{L - 1, L, L + 1, L + 2, 2*L + 2}[r.Intn(5)]
			if cnt > budget {
				cnt = budget
			}
			budget -= cnt
			for c := 0; c < cnt; c++ {
				burst = append(burst, lIn{Op: "msg", Proc: pi, Peer: qi})
			}
		}
		for i := len(burst) - 1; i > 0; i-- {
			j := r.Intn(i + 1)
			burst[i], burst[j] = burst[j], burst[i]
		}
		sc.Steps = append(sc.Steps, burst...)
		sc.Steps = append(sc.Steps, lIn{Op: "reset"})
	}
	return sc
}
