package main

import (
	"encoding/json"
	"net"
	"sort"
	"strings"
	"time"

	"github.com/LiskHQ/lisk-engine/pkg/p2p"

	"verifharness/internal/hx"
)

// ---------------------------------------------------------------------------------------- IP table

// canonical IP (net.ParseIP(s).String()) and the spellings used for it
var ipTable = []struct {
	canon string
	spell []string
}{
	{"1.2.3.4", []string{"1.2.3.4"}},
	{"10.0.0.7", []string{"10.0.0.7"}},
	{"203.0.113.9", []string{"203.0.113.9"}},
	{"2001:db8::1", []string{"2001:db8::1", "2001:DB8:0::1"}},
	{"2001:db8::2", []string{"2001:db8:0:0:0:0:0:2", "2001:db8::2"}},
	{"9.9.9.9", []string{"::ffff:9.9.9.9", "9.9.9.9"}},
	{"fe80::1", []string{"fe80::1"}},
}

func checkIPTable() {
	for _, e := range ipTable {
		for _, s := range e.spell {
			if ip := net.ParseIP(s); ip == nil || ip.String() != e.canon {
				panic("bad ip table entry " + s)
			}
		}
	}
}

func spellingsOf(canon string) []string {
	for _, e := range ipTable {
		if e.canon == canon {
			return e.spell
		}
	}
	return []string{canon}
}

func canonOf(s string) string {
	ip := net.ParseIP(s)
	if ip == nil {
		return ""
	}
	return ip.String()
}

// maddr builds "/ip4|ip6/<s>/tcp/4001" for an IP spelling.
func maddr(s string) string {
	if strings.Contains(s, ":") {
		return "/ip6/" + s + "/tcp/4001"
	}
	return "/ip4/" + s + "/tcp/4001"
}

const noIPAddr = "/dns4/example.com/tcp/4001"

// ---------------------------------------------------------------------------------------- script (input)

type gIn struct {
	Op    string `json:"op"`
	IP    int    `json:"ip"`
	Addr  string `json:"addr"`
	Amt   int    `json:"amt"`
	Secs  int    `json:"secs"`
	IPStr string `json:"ipstr"`
}

type gScript struct {
	ID           int
	IPs          []string // canonical
	Blacklist    []int
	BlacklistStr []string // the spellings passed at construction
	SweepMs      int      // sweep interval of the gater (0 = 50 ms)
	Steps        []gIn
}

// ---------------------------------------------------------------------------------------- record (output)

type gPen struct {
	Op   string `json:"op"`
	IP   int    `json:"ip"`
	Addr string `json:"addr"`
	Amt  int    `json:"amt"`
	Now  int64  `json:"now"`
	Ret  int    `json:"ret"`
	Err  string `json:"err"`
}

type gNoIP struct {
	Op   string `json:"op"`
	Addr string `json:"addr"`
	Amt  int    `json:"amt"`
	Ret  int    `json:"ret"`
	Err  string `json:"err"`
}

type gBlock struct {
	Op    string `json:"op"`
	IP    int    `json:"ip"`
	IPStr string `json:"ipstr"` // the spelling handed to Block/Unblock
	Err   string `json:"err,omitempty"`
}

type gWait struct {
	Op   string `json:"op"`
	Secs int    `json:"secs"`
}

type gObs struct {
	Op        string     `json:"op"`
	Now       int64      `json:"now"`
	Banned    []int      `json:"banned"`
	Blocked   []int      `json:"blocked"`
	Gates     [][6]bool  `json:"gates"`
	Scores    [][3]int64 `json:"scores"`
	NoIPGates [6]bool    `json:"noip_gates"`
	Err       string     `json:"err,omitempty"`
}

type gRec struct {
	K            string        `json:"k"`
	ID           int           `json:"id"`
	Exp          int64         `json:"exp"`
	IPs          []string      `json:"ips"`
	Blacklist    []int         `json:"blacklist"`
	BlacklistStr []string      `json:"blacklist_str"`
	SweepMs      int           `json:"sweep_ms"` // sweep interval; >= 1000: "slow sweep" script (expired bans stay visible until the tick)
	Steps        []interface{} `json:"steps"`
	Unstable     bool          `json:"unstable,omitempty"` // a mutation straddled a wall-clock second (should never happen)
	Panic        string        `json:"panic,omitempty"`
	Err          string        `json:"err,omitempty"`
}

// ---------------------------------------------------------------------------------------- timing

const (
	safeLo = 300 * int(time.Millisecond)
	safeHi = 700 * int(time.Millisecond)
)

// safeNow sleeps until the wall clock is inside the safe window [300ms,700ms] of a second and returns that second.
func safeNow() int64 {
	for {
		t := time.Now()
		ns := t.Nanosecond()
		if ns >= safeLo && ns <= safeHi {
			return t.Unix()
		}
		var d int
		if ns < safeLo {
			d = safeLo - ns
		} else {
			d = int(time.Second) - ns + safeLo
		}
		time.Sleep(time.Duration(d) + 2*time.Millisecond)
	}
}

// ---------------------------------------------------------------------------------------- runner

func idxOf(ips []string, s string) int {
	for i, c := range ips {
		if c == s {
			return i
		}
	}
	return -1
}

func idxList(ips []string, ss []string) []int {
	out := []int{}
	for _, s := range ss {
		out = append(out, idxOf(ips, s))
	}
	sort.Ints(out)
	return out
}

func runGater(sc gScript) (rec gRec) {
	rec = gRec{K: "gater", ID: sc.ID, Exp: int64((1 * time.Second).Seconds()), IPs: sc.IPs, Blacklist: sc.Blacklist,
		BlacklistStr: sc.BlacklistStr, SweepMs: sc.SweepMs, Steps: []interface{}{}}
	if rec.SweepMs <= 0 {
		rec.SweepMs = 50
	}
	if rec.Blacklist == nil {
		rec.Blacklist = []int{}
	}
	if rec.BlacklistStr == nil {
		rec.BlacklistStr = []string{}
	}
	site := "VerifC18NewGater"
	defer func() {
		if r := recover(); r != nil {
			rec.Panic = panicText(site, r)
		}
	}()
	g, err := p2p.VerifC18NewGater(1*time.Second, time.Duration(rec.SweepMs)*time.Millisecond, sc.BlacklistStr)
	if err != nil {
		rec.Err = err.Error()
		return rec
	}
	defer g.Stop()

	nObs := 0
	observe := func() int64 {
		k := nObs
		nObs++
		for {
			before := safeNow()
			o := gObs{Op: "obs", Now: before, Gates: [][6]bool{}, Scores: [][3]int64{}}
			site = "Banned"
			o.Banned = idxList(sc.IPs, g.Banned())
			site = "Blocked"
			o.Blocked = idxList(sc.IPs, g.Blocked())
			for _, c := range sc.IPs {
				sp := spellingsOf(c)
				s := sp[k%len(sp)] // spelling rotates with the observation number (deterministic)
				site = "Gates"
				gt, err := g.Gates(maddr(s))
				if err != nil {
					o.Err = err.Error()
				}
				o.Gates = append(o.Gates, gt)
				site = "Score"
				score, exp, ok := g.Score(s)
				okI := int64(0)
				if ok {
					okI = 1
				}
				o.Scores = append(o.Scores, [3]int64{int64(score), exp, okI})
			}
			site = "Gates(noip)"
			ng, err := g.Gates(noIPAddr)
			if err != nil {
				o.Err = err.Error()
			}
			o.NoIPGates = ng
			after := time.Now()
			if after.Unix() == before && after.Nanosecond() <= safeHi+100*int(time.Millisecond) {
				rec.Steps = append(rec.Steps, o)
				return before
			}
			// straddled or too late in the second: redo the observation in the next safe window
		}
	}

	last := observe() // initial observation (state right after construction: blacklist only)
	for _, st := range sc.Steps {
		switch st.Op {
		case "pen":
			now := safeNow()
			site = "AddPenalty"
			ret, err := g.AddPenalty(st.Addr, st.Amt)
			if time.Now().Unix() != now {
				rec.Unstable = true
			}
			e := ""
			if err != nil {
				e = err.Error()
			}
			rec.Steps = append(rec.Steps, gPen{Op: "pen", IP: st.IP, Addr: st.Addr, Amt: st.Amt, Now: now, Ret: ret, Err: e})
		case "noip":
			safeNow()
			site = "AddPenalty(noip)"
			ret, err := g.AddPenalty(st.Addr, st.Amt)
			e := ""
			if err != nil {
				e = err.Error()
			}
			rec.Steps = append(rec.Steps, gNoIP{Op: "noip", Addr: st.Addr, Amt: st.Amt, Ret: ret, Err: e})
		case "block", "unblock":
			safeNow()
			var err error
			if st.Op == "block" {
				site = "Block"
				err = g.Block(st.IPStr)
			} else {
				site = "Unblock"
				err = g.Unblock(st.IPStr)
			}
			e := ""
			if err != nil {
				e = err.Error()
			}
			rec.Steps = append(rec.Steps, gBlock{Op: st.Op, IP: st.IP, IPStr: st.IPStr, Err: e})
		case "wait":
			target := time.Unix(last+int64(st.Secs), int64(safeLo)+int64(5*time.Millisecond))
			if d := time.Until(target); d > 0 {
				time.Sleep(d)
			}
			rec.Steps = append(rec.Steps, gWait{Op: "wait", Secs: st.Secs})
		default:
			continue
		}
		last = observe()
	}
	return rec
}

// ---------------------------------------------------------------------------------------- replay parsing

func parseGater(line []byte) gScript {
	var raw struct {
		ID           int      `json:"id"`
		IPs          []string `json:"ips"`
		Blacklist    []int    `json:"blacklist"`
		BlacklistStr []string `json:"blacklist_str"`
		SweepMs      int      `json:"sweep_ms"`
		Steps        []gIn    `json:"steps"`
	}
	if err := json.Unmarshal(line, &raw); err != nil {
		panic(err)
	}
	sc := gScript{ID: raw.ID, IPs: raw.IPs, Blacklist: raw.Blacklist, BlacklistStr: raw.BlacklistStr, SweepMs: raw.SweepMs}
	if len(sc.BlacklistStr) != len(sc.Blacklist) {
		sc.BlacklistStr = nil
		for _, i := range sc.Blacklist {
			sc.BlacklistStr = append(sc.BlacklistStr, sc.IPs[i])
		}
	}
	for _, st := range raw.Steps {
		switch st.Op {
		case "pen", "noip", "wait":
			sc.Steps = append(sc.Steps, st)
		case "block", "unblock":
			if st.IPStr == "" {
				st.IPStr = sc.IPs[st.IP]
			}
			sc.Steps = append(sc.Steps, st)
		}
	}
	return sc
}

// ---------------------------------------------------------------------------------------- generation

type gBuilder struct {
	r     *hx.Rng
	ips   []string
	steps []gIn
	ticks int
}

func (b *gBuilder) spell(i int) string {
	sp := spellingsOf(b.ips[i])
	return sp[b.r.Intn(len(sp))]
}

func (b *gBuilder) penAddr(s string) string {
	a := maddr(s)
	switch b.r.Intn(6) {
	case 0:
	case 1:
		// relayed peer: the multiaddr of the connection starts with the RELAY's IP; the gater keys the penalty by it
		a += "/p2p/" + fixedPeerID + "/p2p-circuit/p2p/" + fixedPeerID
	default:
		a += "/p2p/" + fixedPeerID
	}
	return a
}

func (b *gBuilder) pen(i, amt int) { b.penS(i, b.spell(i), amt) }
func (b *gBuilder) penS(i int, s string, amt int) {
	b.steps = append(b.steps, gIn{Op: "pen", IP: i, Addr: b.penAddr(s), Amt: amt})
}
func (b *gBuilder) noip() {
	b.steps = append(b.steps, gIn{Op: "noip", Addr: noIPAddr, Amt: []int{10, 100, 150}[b.r.Intn(3)]})
}
func (b *gBuilder) block(i int)   { b.blockS("block", i, b.spell(i)) }
func (b *gBuilder) unblock(i int) { b.blockS("unblock", i, b.spell(i)) }
func (b *gBuilder) blockS(op string, i int, s string) {
	b.steps = append(b.steps, gIn{Op: op, IP: i, IPStr: s})
}
func (b *gBuilder) wait(k int) {
	b.steps = append(b.steps, gIn{Op: "wait", Secs: k})
	b.ticks += k
}
func (b *gBuilder) oneOf(xs ...int) int { return xs[b.r.Intn(len(xs))] }

var gAmts = []int{5, 10, 25, 40, 50, 60, 99, 100, 150}

func (b *gBuilder) randAmt() int {
	switch b.r.Intn(10) {
	case 0:
		return 0
	case 1:
		return b.oneOf(-10, -30)
	}
	return gAmts[b.r.Intn(len(gAmts))]
}

func genGater(r *hx.Rng, id int) gScript {
	plan := id % 6
	n := 3 + r.Intn(3)
	// pool: a random selection of table entries
	perm := make([]int, len(ipTable))
	for i := range perm {
		perm[i] = i
	}
	for i := len(perm) - 1; i > 0; i-- {
		j := r.Intn(i + 1)
		perm[i], perm[j] = perm[j], perm[i]
	}
	if plan == 4 {
		// IPv6 spelling plan: entries 4 (2001:db8::2) and 5 (::ffff:9.9.9.9) first
		rest := []int{}
		for _, p := range perm {
			if p != 4 && p != 5 {
				rest = append(rest, p)
			}
		}
		perm = append([]int{4, 5}, rest...)
	} else {
		// at least one IPv6 entry with several spellings in every pool
		has := false
		for _, p := range perm[:n] {
			if p >= 3 && p <= 5 {
				has = true
			}
		}
		if !has {
			for k := n; k < len(perm); k++ {
				if perm[k] >= 3 && perm[k] <= 5 {
					perm[n-1], perm[k] = perm[k], perm[n-1]
					break
				}
			}
		}
	}
	ips := []string{}
	for _, p := range perm[:n] {
		ips = append(ips, ipTable[p].canon)
	}
	b := &gBuilder{r: r, ips: ips}
	f, o, t := 0, 1, 2
	sc := gScript{ID: id, IPs: ips}
	if plan == 3 {
		sc.Blacklist = []int{f}
	} else if r.Intn(3) == 0 {
		sc.Blacklist = []int{r.Intn(n)}
	}
	for _, i := range sc.Blacklist {
		sc.BlacklistStr = append(sc.BlacklistStr, b.spell(i))
	}

	if id%8 == 7 {
		// slow sweep (every 4 s, ban 1 s): the time between the expiry of a ban and the sweep is observable. After expiry - before
		// and after the tick - acceptance is observed, a small penalty is applied and the score must be clean once accepted.
		plan = 99
		sc.SweepMs = 4000
		b.pen(f, 60)
		b.pen(f, 40)
		b.pen(o, 100)
		b.wait(1)
		b.wait(1)
		b.pen(f, b.oneOf(5, 10))
		b.wait(1)
		b.wait(1)
		b.wait(1)
		b.pen(o, b.oneOf(5, 10, 25))
		b.pen(f, 5)
		b.wait(1)
	}
	switch plan {
	case 99:
	case 0: // accumulate across 100, expire, clean score; ban + penalty on banned
		b.pen(f, b.oneOf(40, 50))
		b.pen(f, b.oneOf(25, 40))
		b.wait(1)
		b.pen(f, b.oneOf(50, 60, 99))
		b.wait(2 + r.Intn(2))
		b.pen(f, b.oneOf(5, 10, 25))
		b.wait(1)
		b.pen(o, b.oneOf(100, 150))
		b.wait(1)
		b.pen(o, 5)
		b.wait(2)
	case 1: // ban, extend, negative penalties, exact 100
		b.pen(f, 100)
		b.wait(1)
		b.pen(f, b.oneOf(5, 10))
		b.wait(1)
		b.pen(o, 60)
		b.wait(1)
		b.pen(f, b.oneOf(-10, -30))
		b.pen(o, 40)
		b.wait(1)
		b.pen(o, -30)
		b.wait(1)
		b.pen(o, 10)
		b.wait(1)
	case 2: // sub-threshold scores survive long waits
		b.pen(f, 60)
		b.pen(o, 99)
		b.wait(3)
		b.pen(f, 25)
		b.noip()
		b.wait(2)
		b.pen(o, 0)
		b.pen(f, 10)
		b.wait(1)
		b.pen(f, 5)
		b.pen(o, 5)
		b.wait(2)
	case 3: // blacklist / block / unblock interplay with bans (f is blacklisted at construction)
		b.pen(f, 50)
		b.block(o)
		b.wait(1)
		b.pen(f, 60)
		b.unblock(f)
		b.wait(1)
		b.pen(o, 25)
		b.wait(1)
		b.unblock(o)
		b.block(t)
		b.wait(1)
		b.pen(t, 150)
		b.unblock(t)
		b.wait(2)
	case 4: // IPv6 spellings: f = 2001:db8::2, o = 9.9.9.9 (also written ::ffff:9.9.9.9)
		fs, osp := spellingsOf(ips[f]), spellingsOf(ips[o])
		b.penS(f, fs[0], 50)
		b.penS(f, fs[1], 50)
		b.blockS("block", o, osp[0])
		b.wait(1)
		b.blockS("unblock", o, osp[1])
		b.penS(o, osp[0], 99)
		b.wait(1)
		b.penS(o, osp[1], 10)
		b.wait(1)
		b.penS(f, fs[1], 5)
		b.wait(2)
		b.penS(o, osp[0], 25)
		b.wait(1)
	default: // random
		total := 6 + r.Intn(3)
		for b.ticks < total && len(b.steps) < 13 {
			for k := 1 + r.Intn(2); k > 0; k-- {
				i := r.Intn(n)
				switch r.Intn(8) {
				case 0:
					b.block(i)
				case 1:
					b.unblock(i)
				case 2:
					b.noip()
				default:
					b.pen(i, b.randAmt())
				}
			}
			k := 1 + r.Intn(3)
			if b.ticks+k > total {
				k = total - b.ticks
			}
			b.wait(k)
		}
	}
	// noise: a few extra steps at random positions, then pad the tail to at least 6 ticks
	for k := r.Intn(3); k > 0 && len(b.steps) < 14 && plan != 99; k-- {
		var st gIn
		switch r.Intn(4) {
		case 0:
			st = gIn{Op: "noip", Addr: noIPAddr, Amt: b.oneOf(10, 100)}
		case 1:
			i := r.Intn(n)
			st = gIn{Op: "pen", IP: i, Addr: b.penAddr(b.spell(i)), Amt: b.oneOf(0, -10, 5)}
		default:
			i := n - 1
			st = gIn{Op: "pen", IP: i, Addr: b.penAddr(b.spell(i)), Amt: b.randAmt()}
		}
		pos := r.Intn(len(b.steps) + 1)
		b.steps = append(b.steps, gIn{})
		copy(b.steps[pos+1:], b.steps[pos:])
		b.steps[pos] = st
	}
	if b.ticks < 6 && len(b.steps) < 14 {
		b.wait(6 - b.ticks)
	}
	sc.Steps = b.steps
	return sc
}
