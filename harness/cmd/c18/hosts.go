package main

import (
	"context"
	"strings"
	"time"

	"github.com/libp2p/go-libp2p/core/peer"

	"github.com/LiskHQ/lisk-engine/pkg/p2p"
)

var hostScenarios = []string{
	"malformed_request",
	"malformed_response",
	"unknown_procedure_request",
	"unknown_procedure_response",
	"rate_excess",
	"apply_penalty",
	"ban_peer",
	"legal_traffic",
	"blacklisted",
	"blacklisted_mapped", // the configuration spells the IPv4 address as IPv4-mapped IPv6
	"solicited_excess",   // A itself requests more than its limit from B within an interval: B's RESPONSES exceed A's limit
}

type hObs struct {
	IP                    string   `json:"ip"`
	ConnectedBefore       *bool    `json:"connected_before,omitempty"`
	OffenceErr            *string  `json:"offence_err,omitempty"` // error returned to the offender by SendRaw (informative)
	RepliesOK             *int     `json:"replies_ok,omitempty"`
	RequestErrs           []string `json:"request_errs,omitempty"`
	Scores                []int    `json:"scores,omitempty"`
	ConnectedTrace        []bool   `json:"connected_trace,omitempty"`
	BannedAfter           *bool    `json:"banned_after,omitempty"`
	ConnectedAfter        *bool    `json:"connected_after,omitempty"`
	ScoreAfter            *int     `json:"score_after,omitempty"`
	DialInRefused         *bool    `json:"dial_in_refused,omitempty"`
	DialInErr             *string  `json:"dial_in_err,omitempty"`
	DialOutRefused        *bool    `json:"dial_out_refused,omitempty"`
	DialOutErr            *string  `json:"dial_out_err,omitempty"`
	Blocked               []string `json:"blocked,omitempty"`
	Gates                 *[6]bool `json:"gates,omitempty"`
	BannedAfterExpiry     *bool    `json:"banned_after_expiry,omitempty"`
	FreshDialInOKAfterExp *bool    `json:"fresh_dial_in_ok_after_expiry,omitempty"` // a fresh third node (same IP) dials A 3.2 s after the refusals
	DialInOKAfterExpiry   *bool    `json:"dial_in_ok_after_expiry,omitempty"`       // B itself, once its own 5 s libp2p dial backoff is over
	DialInErrAfterExp     *string  `json:"dial_in_err_after_expiry,omitempty"`
	DialOutOKAfterExpiry  *bool    `json:"dial_out_ok_after_expiry,omitempty"` // A dials a fresh fourth node on the same IP after the expiry
	ScoreAfterExpiry      *int     `json:"score_after_expiry,omitempty"`
	GatesAfterExpiry      *[6]bool `json:"gates_after_expiry,omitempty"`
}

type hRec struct {
	K        string `json:"k"`
	Scenario string `json:"scenario"`
	Obs      hObs   `json:"obs"`
	Panic    string `json:"panic,omitempty"`
	Err      string `json:"err,omitempty"`
}

func bp(b bool) *bool     { return &b }
func ip_(i int) *int      { return &i }
func sp(s string) *string { return &s }
func errStr(e error) string {
	if e == nil {
		return ""
	}
	// classes instead of raw texts: the texts contain peer ids and ephemeral ports
	t := e.Error()
	switch {
	case strings.Contains(t, "gater disallows"):
		return "gater_disallows"
	case strings.Contains(t, "dial backoff"):
		return "dial_backoff" // libp2p swarm of the DIALLING node refuses to redial an address for 5 s after a failed dial
	case strings.Contains(t, "failed to negotiate security protocol"):
		return "handshake_failed" // the remote side closed the connection during the upgrade (gater on the remote side)
	case strings.Contains(t, "deadline exceeded"), strings.Contains(t, "timeout"):
		return "timeout"
	case strings.Contains(t, "stream reset"):
		return "stream_reset"
	}
	return "other: " + strings.SplitN(t, "\n", 2)[0]
}

func poll(d time.Duration, f func() bool) bool {
	deadline := time.Now().Add(scaled(d))
	for {
		if f() {
			return true
		}
		if time.Now().After(deadline) {
			return false
		}
		time.Sleep(5 * time.Millisecond)
	}
}

func contains(xs []string, s string) bool {
	for _, x := range xs {
		if x == s {
			return true
		}
	}
	return false
}

func ip6LoopbackWorks() (ok bool) {
	defer func() {
		if recover() != nil {
			ok = false
		}
	}()
	a, err := p2p.VerifC18NewNode("/ip6/::1/tcp/0", time.Second, 50*time.Millisecond, 0, nil, nil)
	if err != nil {
		return false
	}
	defer a.Close()
	b, err := p2p.VerifC18NewNode("/ip6/::1/tcp/0", time.Second, 50*time.Millisecond, 0, nil, nil)
	if err != nil {
		return false
	}
	defer b.Close()
	ctx, cancel := context.WithTimeout(context.Background(), 2*time.Second)
	defer cancel()
	if err := b.Connect(ctx, a); err != nil {
		return false
	}
	return poll(time.Second, func() bool { return a.IsConnected(b.ID()) })
}

func runHosts(name string) (rec hRec) {
	rec = hRec{K: "hosts", Scenario: name}
	site := "setup"
	defer func() {
		if r := recover(); r != nil {
			rec.Panic = panicText(site, r)
		}
	}()
	obs := &rec.Obs

	known := name == "malformed_request_ip6" || name == "blacklisted_ip6_long"
	for _, s := range hostScenarios {
		known = known || s == name
	}
	if !known {
		rec.Err = "unknown scenario"
		return rec
	}

	listen, ip, gateAddr := "/ip4/127.0.0.1/tcp/0", "127.0.0.1", "/ip4/127.0.0.1/tcp/1"
	if name == "malformed_request_ip6" || name == "blacklisted_ip6_long" {
		listen, ip, gateAddr = "/ip6/::1/tcp/0", "::1", "/ip6/::1/tcp/1"
	}
	obs.IP = ip

	ping := p2p.VerifC18Handler{Name: "ping", Reply: []byte("pong")}
	aPing := ping
	aLimInterval := time.Duration(0)
	var aBlacklist []string
	switch name {
	case "rate_excess", "solicited_excess":
		aPing.Limit, aPing.Penalty = 3, 100
	case "legal_traffic":
		aPing.Limit, aPing.Penalty = 5, 100
		aLimInterval = 400 * time.Millisecond
	case "blacklisted":
		aBlacklist = []string{ip}
	case "blacklisted_mapped":
		aBlacklist = []string{"::ffff:127.0.0.1"}
	case "blacklisted_ip6_long":
		aBlacklist = []string{"0:0:0:0:0:0:0:0001"}
	}

	site = "VerifC18NewNode(A)"
	a, err := p2p.VerifC18NewNode(listen, banWindow(), 50*time.Millisecond, aLimInterval, aBlacklist, []p2p.VerifC18Handler{aPing})
	if err != nil {
		rec.Err = "A: " + err.Error()
		return rec
	}
	defer a.Close()
	site = "VerifC18NewNode(B)"
	b, err := p2p.VerifC18NewNode(listen, time.Second, 50*time.Millisecond, 0, nil, []p2p.VerifC18Handler{ping})
	if err != nil {
		rec.Err = "B: " + err.Error()
		return rec
	}
	defer b.Close()

	connect := func(from, to *p2p.VerifC18Node) error {
		ctx, cancel := context.WithTimeout(context.Background(), scaled(2*time.Second))
		defer cancel()
		return from.Connect(ctx, to)
	}
	score := func() int {
		s, _, ok := a.Score(ip)
		if !ok {
			return -1
		}
		return s
	}
	gates := func() *[6]bool {
		g, err := a.Gates(gateAddr)
		if err != nil {
			rec.Err = err.Error()
		}
		return &g
	}
	dialIn := func() (bool, string) {
		// make sure B has noticed that A dropped the connection, otherwise Connect is a no-op returning nil
		poll(2*time.Second, func() bool { return !b.IsConnected(a.ID()) })
		err := connect(b, a)
		time.Sleep(50 * time.Millisecond)
		return err != nil && !a.IsConnected(b.ID()), errStr(err)
	}

	if strings.HasPrefix(name, "blacklisted") {
		site = "Connect(B->A)"
		r, e := dialIn()
		obs.DialInRefused, obs.DialInErr = bp(r), sp(e)
		site = "Connect(A->B)"
		err := connect(a, b)
		obs.DialOutRefused, obs.DialOutErr = bp(err != nil), sp(errStr(err))
		site = "Blocked"
		obs.Blocked = a.Blocked()
		site = "Banned"
		obs.BannedAfter = bp(contains(a.Banned(), ip))
		obs.ConnectedAfter = bp(a.IsConnected(b.ID()))
		obs.ScoreAfter = ip_(score())
		site = "Gates"
		obs.Gates = gates()
		return rec
	}

	site = "Connect(B->A)"
	if err := connect(b, a); err != nil {
		// a clean peer that cannot connect to a node with an empty ban list is refused wrongly: an observation, not a harness error
		obs.OffenceErr = sp("connect: " + errStr(err))
	}
	obs.ConnectedBefore = bp(poll(time.Second, func() bool { return a.IsConnected(b.ID()) }))

	ctx, cancel := context.WithTimeout(context.Background(), scaled(20*time.Second))
	defer cancel()
	sendRaw := func(response bool, raw []byte) {
		c, cc := context.WithTimeout(ctx, scaled(2*time.Second))
		defer cc()
		obs.OffenceErr = sp(errStr(b.SendRaw(c, a.ID(), response, raw)))
	}

	// the offence happens inside the safe window of a second, so that the 1 s ban (whole unix seconds) lasts
	// at least 1.3 s of real time and the refusal checks below fall inside it
	safeNow()
	site = "offence"
	switch name {
	case "malformed_request", "malformed_request_ip6":
		sendRaw(false, []byte{0xff, 0xff, 0xff})
	case "malformed_response":
		sendRaw(true, []byte{0xff, 0xff, 0xff})
	case "unknown_procedure_request":
		sendRaw(false, p2p.VerifC18EncodeRequest(b.ID(), "nosuch", []byte("x")))
	case "unknown_procedure_response":
		sendRaw(true, p2p.VerifC18EncodeResponse("some-id", "nosuch", []byte("x")))
	case "rate_excess":
		ok := 0
		for i := 0; i < 4; i++ { // the 4th message exceeds the limit of 3
			_, err := b.Request(ctx, a.ID(), "ping", []byte("x"), scaled(500*time.Millisecond))
			if err == nil {
				ok++
			}
			obs.RequestErrs = append(obs.RequestErrs, errStr(err))
		}
		obs.RepliesOK = ip_(ok)
	case "solicited_excess":
		ok := 0
		for i := 0; i < 4; i++ { // the 4th RESPONSE exceeds A's limit of 3 received messages for the procedure
			_, err := a.Request(ctx, b.ID(), "ping", []byte("x"), scaled(500*time.Millisecond))
			if err == nil {
				ok++
			}
			obs.RequestErrs = append(obs.RequestErrs, errStr(err))
		}
		obs.RepliesOK = ip_(ok)
	case "apply_penalty":
		obs.Scores, obs.ConnectedTrace = []int{}, []bool{}
		for i := 0; i < 3; i++ {
			a.ApplyPenalty(b.ID(), 40)
			obs.Scores = append(obs.Scores, score())
			obs.ConnectedTrace = append(obs.ConnectedTrace, a.IsConnected(b.ID()))
		}
	case "ban_peer":
		a.BanPeer(b.ID())
	case "legal_traffic":
		// Bursts are tied to OBSERVED reset ticks of A's limiter, not to sleeps: a sentinel peer's counter for the procedure is bumped
		// and the burst starts when it has dropped back to 0 (the tick); before the next burst the sentinel is bumped again, so two
		// bursts can never share an interval, however slow the machine is.
		ok := 0
		sentinel, _ := peer.Decode(fixedPeerID)
		waitTick := func() bool {
			_ = a.LimiterMessage("ping", sentinel, "/ip4/10.254.0.1/tcp/4001")
			return poll(3*time.Second, func() bool { return a.LimiterCounter("ping", sentinel) == 0 })
		}
		for burst := 0; burst < 3; burst++ {
			if !waitTick() {
				rec.Err = "no limiter tick observed"
				return rec
			}
			for i := 0; i < 4; i++ {
				if _, err := b.Request(ctx, a.ID(), "ping", []byte("x"), scaled(500*time.Millisecond)); err == nil {
					ok++
				}
			}
		}
		obs.RepliesOK = ip_(ok)
	}

	if name == "legal_traffic" {
		time.Sleep(200 * time.Millisecond)
		site = "Banned"
		obs.BannedAfter = bp(contains(a.Banned(), ip))
		obs.ConnectedAfter = bp(a.IsConnected(b.ID()))
		obs.ScoreAfter = ip_(score())
		site = "Connect(B->A)"
		err := connect(b, a)
		obs.DialInRefused, obs.DialInErr = bp(err != nil), sp(errStr(err))
		site = "Gates"
		obs.Gates = gates()
		return rec
	}

	site = "Banned"
	obs.BannedAfter = bp(poll(2*time.Second, func() bool { return contains(a.Banned(), ip) }))
	obs.ScoreAfter = ip_(score())
	obs.ConnectedAfter = bp(!poll(2*time.Second, func() bool { return !a.IsConnected(b.ID()) }))
	site = "Gates"
	obs.Gates = gates()
	site = "Connect(B->A)"
	r, e := dialIn()
	tDial := time.Now()
	obs.DialInRefused, obs.DialInErr = bp(r), sp(e)
	site = "Connect(A->B)"
	err = connect(a, b)
	obs.DialOutRefused, obs.DialOutErr = bp(err != nil), sp(errStr(err))

	time.Sleep(banWindow() + 2200*time.Millisecond)
	site = "Banned(expiry)"
	obs.BannedAfterExpiry = bp(contains(a.Banned(), ip))
	obs.ScoreAfterExpiry = ip_(score())
	obs.GatesAfterExpiry = gates()
	site = "VerifC18NewNode(C)"
	c, err := p2p.VerifC18NewNode(listen, time.Second, 50*time.Millisecond, 0, nil, []p2p.VerifC18Handler{ping})
	if err != nil {
		rec.Err = "C: " + err.Error()
		return rec
	}
	defer c.Close()
	site = "Connect(C->A, expiry)"
	err = connect(c, a)
	obs.FreshDialInOKAfterExp = bp(err == nil && poll(time.Second, func() bool { return a.IsConnected(c.ID()) }))
	// outbound direction after the expiry: A dials a fresh node on the (previously banned) IP
	site = "VerifC18NewNode(D)"
	d, err := p2p.VerifC18NewNode(listen, time.Second, 50*time.Millisecond, 0, nil, []p2p.VerifC18Handler{ping})
	if err != nil {
		rec.Err = "D: " + err.Error()
		return rec
	}
	defer d.Close()
	site = "Connect(A->D, expiry)"
	err = connect(a, d)
	obs.DialOutOKAfterExpiry = bp(err == nil && poll(time.Second, func() bool { return a.IsConnected(d.ID()) }))
	// B's swarm keeps a 5 s dial backoff on A's address after the refused dial; wait it out
	if d := time.Until(tDial.Add(5300 * time.Millisecond)); d > 0 {
		time.Sleep(d)
	}
	site = "Connect(B->A, expiry)"
	err = connect(b, a)
	okIn := err == nil && poll(time.Second, func() bool { return a.IsConnected(b.ID()) })
	obs.DialInOKAfterExpiry, obs.DialInErrAfterExp = bp(okIn), sp(errStr(err))
	return rec
}
