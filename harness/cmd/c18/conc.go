package main

// "conc" records (concurrency tier; the binary for it is built with -race): several goroutines drive ONE gater / ONE limiter at
// the same time. The order of the operations is not controlled, so only order-independent facts are observed and checked:
//   gater   - every IP's final score is the sum of the penalties applied to it (C18_penalties_accumulate; ban 1 h, no expiry in
//             play), it is listed banned and refused iff that sum reached the threshold (non-negative penalties), the gates read
//             concurrently never panic;
//   limiter - every peer sends its own messages sequentially while the other peers do the same concurrently (no reset in play:
//             interval 1 h): the number of penalties of a (procedure, peer) pair is exactly n / (limit + 1)
//             (C18_excess_penalised_per_peer_and_procedure + C18_single_pair_penalty_count), legal peers are never penalised.

import (
	"fmt"
	"sync"
	"time"

	"github.com/libp2p/go-libp2p/core/peer"

	"github.com/LiskHQ/lisk-engine/pkg/p2p"

	"verifharness/internal/hx"
)

type concGaterRec struct {
	K           string   `json:"k"`
	What        string   `json:"what"`
	Goroutines  int      `json:"goroutines"`
	IPs         []string `json:"ips"`
	Sums        []int    `json:"sums"`   // per IP: sum of the penalties applied
	Scores      []int    `json:"scores"` // per IP: final score (-1: no entry)
	Banned      []bool   `json:"banned"` // per IP: listed banned
	Refused     []bool   `json:"refused"`
	Expirations []int64  `json:"expirations"` // per IP: expiration of the entry (-1 not banned, 0 no entry)
	Ops         int      `json:"ops"`
	Panic       string   `json:"panic,omitempty"`
	Err         string   `json:"err,omitempty"`
}

func runConcGater(r *hx.Rng, id int) (rec concGaterRec) {
	rec = concGaterRec{K: "conc", What: "gater", Goroutines: 8}
	defer func() {
		if x := recover(); x != nil {
			rec.Panic = panicText("conc-gater", x)
		}
	}()
	ips := []string{"1.2.3.4", "10.0.0.7", "2001:db8::1", "2001:db8::2", "9.9.9.9", "fe80::1"}
	rec.IPs = ips
	exp := time.Hour
	if id%2 == 1 {
		// the sweep goroutine (every 5 ms, ban 1 s) races the penalties: only consistency of the final state is checked
		rec.What, exp = "gater-sweep", time.Second
	}
	g, err := p2p.VerifC18NewGater(exp, 5*time.Millisecond, nil)
	if err != nil {
		rec.Err = err.Error()
		return rec
	}
	defer g.Stop()
	type op struct{ ip, amt int }
	plans := make([][]op, rec.Goroutines)
	rec.Sums = make([]int, len(ips))
	for gi := range plans {
		for k := 0; k < 40; k++ {
			o := op{r.Intn(len(ips)), []int{0, 1, 2, 5, 10, 25}[r.Intn(6)]}
			if o.ip == len(ips)-1 {
				o.amt = []int{0, 1}[r.Intn(2)] // one IP stays far below the threshold
			}
			plans[gi] = append(plans[gi], o)
			rec.Sums[o.ip] += o.amt
			rec.Ops++
		}
	}
	var wg sync.WaitGroup
	var mu sync.Mutex
	for gi := range plans {
		wg.Add(1)
		go func(gi int) {
			defer wg.Done()
			defer func() {
				if x := recover(); x != nil {
					mu.Lock()
					rec.Panic = panicText("conc-gater goroutine", x)
					mu.Unlock()
				}
			}()
			for k, o := range plans[gi] {
				if _, err := g.AddPenalty(maddr(ips[o.ip]), o.amt); err != nil {
					mu.Lock()
					rec.Err = err.Error()
					mu.Unlock()
				}
				if k%3 == 0 {
					_, _ = g.Gates(maddr(ips[(o.ip+1)%len(ips)]))
					_ = g.Banned()
				}
			}
		}(gi)
	}
	wg.Wait()
	if rec.What == "gater-sweep" {
		time.Sleep(20 * time.Millisecond)
	}
	banned := g.Banned()
	for _, ip := range ips {
		s, _, ok := g.Score(ip)
		if !ok {
			s = -1
		}
		rec.Scores = append(rec.Scores, s)
		_, ex, _ := g.Score(ip)
		rec.Expirations = append(rec.Expirations, ex)
		rec.Banned = append(rec.Banned, contains(banned, ip))
		gt, _ := g.Gates(maddr(ip))
		rec.Refused = append(rec.Refused, !(gt[0] && gt[1] && gt[4] && gt[5]) && !(gt[2] && gt[3] && gt[5]))
	}
	return rec
}

type concLimRec struct {
	K        string  `json:"k"`
	What     string  `json:"what"`
	Procs    []lProc `json:"procs"`
	Counts   [][]int `json:"counts"`   // per peer, per procedure: messages sent
	Scores   []int   `json:"scores"`   // per peer: final score of its IP (-1 none)
	Counters [][]int `json:"counters"` // per peer, per procedure: final counter
	// two more peers are each driven by FOUR goroutines at once on procedure 0: one sends exactly `limit` messages in total
	// (never penalised whatever the interleaving of increaseCounter / checkLimit), the other limit+1 (exactly one penalty)
	SharedScores   []int  `json:"shared_scores"`   // [legal peer, excess peer] final score (-1 none)
	SharedCounters []int  `json:"shared_counters"` // their final counters on procedure 0
	Panic          string `json:"panic,omitempty"`
	Err            string `json:"err,omitempty"`
}

func runConcLimiter(r *hx.Rng, id int) (rec concLimRec) {
	rec = concLimRec{K: "conc", What: "limiter"}
	defer func() {
		if x := recover(); x != nil {
			rec.Panic = panicText("conc-limiter", x)
		}
	}()
	rec.Procs = []lProc{{Limit: 3 + r.Intn(4), Penalty: 5}, {Limit: 2 + r.Intn(3), Penalty: 7}}
	hs := []p2p.VerifC18Handler{}
	for i, p := range rec.Procs {
		hs = append(hs, p2p.VerifC18Handler{Name: procName(i), Reply: []byte("ok"), Limit: p.Limit, Penalty: p.Penalty})
	}
	n, err := p2p.VerifC18NewNode("/ip4/127.0.0.1/tcp/0", time.Hour, time.Hour, 0, nil, hs)
	if err != nil {
		rec.Err = err.Error()
		return rec
	}
	defer n.Close()
	const peers = 8
	ids := make([]peer.ID, peers)
	ipOf := make([]string, peers)
	type m struct{ proc int }
	plans := make([][]m, peers)
	rec.Counts = make([][]int, peers)
	for q := 0; q < peers; q++ {
		pid, err := peer.Decode(fakePeerID(r))
		if err != nil {
			rec.Err = err.Error()
			return rec
		}
		ids[q] = pid
		ipOf[q] = fmt.Sprintf("10.2.%d.%d", id%250, q+1)
		rec.Counts[q] = make([]int, len(rec.Procs))
		total := 0
		if q%2 == 0 { // legal peers: never above the limit (no reset happens)
			for pi, p := range rec.Procs {
				k := r.Intn(p.Limit + 1)
				rec.Counts[q][pi] = k
				total += k
			}
		} else {
			for pi, p := range rec.Procs {
				k := r.Intn(3*(p.Limit+1) + 2)
				rec.Counts[q][pi] = k
				total += k
			}
		}
		left := append([]int{}, rec.Counts[q]...)
		for total > 0 {
			pi := r.Intn(len(left))
			if left[pi] == 0 {
				continue
			}
			left[pi]--
			total--
			plans[q] = append(plans[q], m{pi})
		}
	}
	var wg sync.WaitGroup
	var mu sync.Mutex
	for q := 0; q < peers; q++ {
		wg.Add(1)
		go func(q int) {
			defer wg.Done()
			defer func() {
				if x := recover(); x != nil {
					mu.Lock()
					rec.Panic = panicText("conc-limiter goroutine", x)
					mu.Unlock()
				}
			}()
			for _, x := range plans[q] {
				if err := n.LimiterMessage(procName(x.proc), ids[q], maddr(ipOf[q])); err != nil {
					mu.Lock()
					rec.Err = err.Error()
					mu.Unlock()
				}
			}
		}(q)
	}
	// same (procedure, peer) from four goroutines at once
	sharedIDs := make([]peer.ID, 2)
	sharedIP := []string{fmt.Sprintf("10.3.%d.1", id%250), fmt.Sprintf("10.3.%d.2", id%250)}
	for i := range sharedIDs {
		pid, err := peer.Decode(fakePeerID(r))
		if err != nil {
			rec.Err = err.Error()
			return rec
		}
		sharedIDs[i] = pid
		total := rec.Procs[0].Limit + i // limit, limit+1
		for gi := 0; gi < 4; gi++ {
			share := total / 4
			if gi < total%4 {
				share++
			}
			wg.Add(1)
			go func(i, share int) {
				defer wg.Done()
				for k := 0; k < share; k++ {
					if err := n.LimiterMessage(procName(0), sharedIDs[i], maddr(sharedIP[i])); err != nil {
						mu.Lock()
						rec.Err = err.Error()
						mu.Unlock()
					}
				}
			}(i, share)
		}
	}
	wg.Wait()
	for i := range sharedIDs {
		s, _, ok := n.Score(sharedIP[i])
		if !ok {
			s = -1
		}
		rec.SharedScores = append(rec.SharedScores, s)
		rec.SharedCounters = append(rec.SharedCounters, n.LimiterCounter(procName(0), sharedIDs[i]))
	}
	for q := 0; q < peers; q++ {
		s, _, ok := n.Score(ipOf[q])
		if !ok {
			s = -1
		}
		rec.Scores = append(rec.Scores, s)
		row := []int{}
		for pi := range rec.Procs {
			row = append(row, n.LimiterCounter(procName(pi), ids[q]))
		}
		rec.Counters = append(rec.Counters, row)
	}
	return rec
}
