package main

// "twoips" records: one peer identity connected to node A from two different IPs at once (two hosts built from the same seed, one
// dialling A over 127.0.0.1, one over ::1). A penalty that reaches the threshold / a ban of the peer must leave EVERY IP the
// peer was connected from banned and refused, and the peer disconnected.

import (
	"context"
	"strings"
	"time"

	"github.com/LiskHQ/lisk-engine/pkg/p2p"
)

type tObs struct {
	ConnsBefore    []string `json:"conns_before"` // remote multiaddrs of A's connections to the peer
	Scores         [][2]int `json:"scores"`       // apply_penalty: [score v4, score v6] after each call (-1: no entry)
	Banned         []string `json:"banned"`       // A.Banned() after the offence
	Gates4         [6]bool  `json:"gates4"`
	Gates6         [6]bool  `json:"gates6"`
	ConnectedAfter bool     `json:"connected_after"`
	DialIn4Refused bool     `json:"dial_in4_refused"`
	DialIn6Refused bool     `json:"dial_in6_refused"`
	BannedExpiry   []string `json:"banned_after_expiry"`
}

type tRec struct {
	K        string `json:"k"`
	Scenario string `json:"scenario"`
	Obs      tObs   `json:"obs"`
	Panic    string `json:"panic,omitempty"`
	Err      string `json:"err,omitempty"`
}

var twoIPScenarios = []string{"two_ips_ban_peer", "two_ips_apply_penalty"}

func runTwoIPs(name string) (rec tRec) {
	rec = tRec{K: "twoips", Scenario: name}
	site := "setup"
	defer func() {
		if r := recover(); r != nil {
			rec.Panic = panicText(site, r)
		}
	}()
	ping := []p2p.VerifC18Handler{{Name: "ping", Reply: []byte("pong")}}
	a, err := p2p.VerifC18NewNodeSeeded([]string{"/ip4/127.0.0.1/tcp/0", "/ip6/::1/tcp/0"}, []byte{}, banWindow(), 50*time.Millisecond, 0, nil, ping)
	if err != nil {
		rec.Err = "A: " + err.Error()
		return rec
	}
	defer a.Close()
	seed := []byte("c18-two-ips-" + name)
	b4, err := p2p.VerifC18NewNodeSeeded([]string{"/ip4/127.0.0.1/tcp/0"}, seed, time.Second, 50*time.Millisecond, 0, nil, ping)
	if err != nil {
		rec.Err = "B4: " + err.Error()
		return rec
	}
	defer b4.Close()
	b6, err := p2p.VerifC18NewNodeSeeded([]string{"/ip6/::1/tcp/0"}, seed, time.Second, 50*time.Millisecond, 0, nil, ping)
	if err != nil {
		rec.Err = "B6: " + err.Error()
		return rec
	}
	defer b6.Close()
	if b4.ID() != b6.ID() {
		rec.Err = "the two hosts do not share the identity"
		return rec
	}
	addrs, err := a.Addrs()
	if err != nil {
		rec.Err = err.Error()
		return rec
	}
	var a4, a6 string
	for _, x := range addrs {
		if strings.HasPrefix(x, "/ip4/127.0.0.1/") {
			a4 = x
		}
		if strings.HasPrefix(x, "/ip6/::1/") {
			a6 = x
		}
	}
	if a4 == "" || a6 == "" {
		rec.Err = "A does not listen on both loopback addresses"
		return rec
	}
	dial := func(n *p2p.VerifC18Node, addr string) error {
		ctx, cancel := context.WithTimeout(context.Background(), scaled(2*time.Second))
		defer cancel()
		return n.ConnectAddr(ctx, addr)
	}
	site = "connect"
	if err := dial(b4, a4); err != nil {
		rec.Err = "dial v4: " + err.Error()
		return rec
	}
	if err := dial(b6, a6); err != nil {
		rec.Err = "dial v6: " + err.Error()
		return rec
	}
	obs := &rec.Obs
	poll(2*time.Second, func() bool { return len(a.ConnAddrs(b4.ID())) >= 2 })
	obs.ConnsBefore = a.ConnAddrs(b4.ID())
	score := func(ip string) int {
		if s, _, ok := a.Score(ip); ok {
			return s
		}
		return -1
	}
	safeNow()
	site = "offence"
	switch name {
	case "two_ips_ban_peer":
		a.BanPeer(b4.ID())
		obs.Scores = [][2]int{{score("127.0.0.1"), score("::1")}}
	default:
		obs.Scores = [][2]int{}
		for i := 0; i < 2; i++ {
			a.ApplyPenalty(b4.ID(), 60)
			obs.Scores = append(obs.Scores, [2]int{score("127.0.0.1"), score("::1")})
		}
	}
	site = "observe"
	poll(time.Second, func() bool { return len(a.Banned()) >= 2 })
	obs.Banned = a.Banned()
	obs.Gates4, _ = a.Gates("/ip4/127.0.0.1/tcp/1")
	obs.Gates6, _ = a.Gates("/ip6/::1/tcp/1")
	obs.ConnectedAfter = !poll(time.Second, func() bool { return !a.IsConnected(b4.ID()) })
	refused := func(n *p2p.VerifC18Node, addr string) bool {
		poll(time.Second, func() bool { return !n.IsConnected(a.ID()) })
		err := dial(n, addr)
		time.Sleep(50 * time.Millisecond)
		return err != nil && len(a.ConnAddrs(b4.ID())) == 0
	}
	obs.DialIn4Refused = refused(b4, a4)
	obs.DialIn6Refused = refused(b6, a6)
	time.Sleep(banWindow() + 2200*time.Millisecond)
	obs.BannedExpiry = a.Banned()
	return rec
}
